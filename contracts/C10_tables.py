"""C10 -- lists and tables keep their shape: borders, spans (plasTeX/Base/LaTeX/Arrays.py)."""
from pyvc.dsl import Prop, Loop, Mod

P = Prop('C10', 'Lists and tables keep their shape: items, rows, cells and spans as written')
F = 'plasTeX/Base/LaTeX/Arrays.py::'
P.const('sys.maxsize', 9223372036854775807)
P.cls('Cell', fields=dict(style='dict[str,str]', attributes='dict[str,int]?'))
P.cls('BorderCommand', fields=dict(locations='list[str]', position='int', attributes='dict[str,list[int]]?'))


@P.spec(heap=True)
def SPAN(c: 'Cell') -> 'int':
    """A.9: the number of columns a cell occupies."""
    if c.attributes and "colspan" in c.attributes:
        return c.attributes["colspan"]
    return 1


@P.spec(heap=True, fuel=1)
def COL(cells: 'list[Cell]', j: 'int') -> 'int':
    """A.9: the (1-based) column in which cell j starts."""
    if j <= 0:
        return 1
    return COL(cells, j - 1) + SPAN(cells[j - 1])


LOC = '(location if not isnone(location) else self.locations[self.position])'
KEYS = ['"border-" + LOC + "-style"', '"border-" + LOC + "-color"', '"border-" + LOC + "-width"']
VALS = ['"solid"', '"black"', '"1px"']


def marked(cell, upto):
    """Cell style after the call: the three border entries set iff the cell starts inside [start, end]."""
    inside = 'START <= old(COL(cells, %s)) and old(COL(cells, %s)) <= END' % (upto, upto)
    parts = []
    for k, v in zip(KEYS, VALS):
        k = k.replace('LOC', LOC)
        parts.append('implies(%s, %s in %s.style and %s.style[%s] == %s)' % (inside, k, cell, cell, k, v))
    others = ('all(implies(not (%s) or (q != %s and q != %s and q != %s), (q in %s.style) == old(q in %s.style) and %s.style[q] == old(%s.style[q])) for q in Strs())'
              % (inside, KEYS[0].replace('LOC', LOC), KEYS[1].replace('LOC', LOC), KEYS[2].replace('LOC', LOC), cell, cell, cell, cell))
    return ' and '.join(parts) + ' and ' + others


PRE = ['all(not isnone(cells[m]) for m in range(len(cells)))',
       'all(implies(m != n, cells[m] is not cells[n]) for m in range(len(cells)) for n in range(len(cells)))',
       'all(implies(m != n, cells[m].style is not cells[n].style) for m in range(len(cells)) for n in range(len(cells)))',
       'all(SPAN(cells[m]) >= 1 for m in range(len(cells)))',
       'len(self.locations) == 2', '0 <= self.position', 'self.position < 2']


def variant(name, attrs_type, span_req, start, end, extra_req=()):
    P.fn(F + 'Array.BorderCommand.applyBorders', name=name,
         params=dict(self='BorderCommand', cells='list[Cell]', location='str?=None'), returns='none',
         fields=dict(attributes=None) if False else {},
         requires=PRE + list(extra_req) + span_req,
         ensures=['all(' + marked('cells[m]', 'm').replace('START', start).replace('END', end) + ' for m in range(len(cells)))'],
         modifies=[Mod('dict:str,str', 'any(0 <= m and m < len(cells) and r is cells[m].style for m in Ints())')],
         loops={0: Loop(index='j', inv=[
             'j <= len(cells)',
             'colnum == old(COL(cells, j))',
             'start == ' + start, 'end == ' + end,
             'not isnone(location)', 'unopt(location) == old(' + LOC + ')',
             'all(' + marked('cells[m]', 'm').replace('START', start).replace('END', end).replace(LOC, 'unopt(location)') + ' for m in range(j))',
             'all(all((q in cells[m].style) == old(q in cells[m].style) and cells[m].style[q] == old(cells[m].style[q]) for q in Strs()) for m in range(j, len(cells)))',
         ])})


# a \cline with an explicit span [start, end]
variant('applyBorders/span', None, ['not isnone(self.attributes)', '"span" in self.attributes', 'not isnone(self.attributes["span"])', 'len(self.attributes["span"]) == 2'],
        'old(self.attributes["span"][0])', 'old(self.attributes["span"][1])')
variant('applyBorders/full', None, ['isnone(self.attributes) or "span" not in self.attributes'],
        '-9223372036854775807', '9223372036854775807')
P.unverified_surrounding('cell/row digestion (ArrayCell.digest, ArrayRow.digest), compileColspec, Array.applyBorders row removal: not yet under contract')

# ---------------------------------------------------------------- declared column count = widest row (sum of spans)
P.cls('Cell2', fields=dict(attrs2='dict[str,int]'))
P.cls('RowT', elem='CellL')
P.cls('CellL', fields=dict(attributes='dict[str,int]?'))
P.cls('ArrayT', elem='RowT', fields=dict(numCols='int', colspec='list[Any]?'))
P.cls('Any')


@P.spec(heap=True, fuel=1)
def ROWSUM(row: 'RowT', n: 'int') -> 'int':
    """Sum of the spans of the first n cells of a row (a cell without colspan counts 1)."""
    if n <= 0:
        return 0
    return ROWSUM(row, n - 1) + (row[n - 1].attributes["colspan"] if "colspan" in row[n - 1].attributes else 1)


P.fn(F + 'Array.linkCells', name='linkCells/numCols',
     params=dict(self='ArrayT'), returns='none', start_loop=2, locals=dict(cols='list[int]'),
     start_assume=['all(not isnone(self[r]) and all(not isnone(self[r][c]) and not isnone(self[r][c].attributes) for c in range(len(self[r]))) for r in range(len(self)))',
                   'len(self) > 0', 'len(cols) == 0', 'cols is not self', 'all(cols is not self[r] for r in range(len(self)))'],
     ensures=['all(self.numCols >= old(ROWSUM(self[r], len(self[r]))) for r in range(len(self)))',
              'any(self.numCols == old(ROWSUM(self[r], len(self[r]))) for r in range(len(self)))'],
     allocates=True, modifies=[Mod('numCols', 'r is self'), Mod('list:int', 'r is cols')],
     loops={2: Loop(index='i', inv=['i <= len(self)', 'len(cols) == i', 'len(self) == old(len(self))',
                                    'all(cols[r] == old(ROWSUM(self[r], len(self[r]))) for r in range(i))'],
                    modifies=[Mod('list:int', 'r is cols')]),
            3: Loop(index='c', inv=['c <= len(row)', 'numcols == old(ROWSUM(row, c))', 'len(cols) == i - 1' if False else 'True'],
                    modifies=[])})
