"""C11 -- verbatim text and mathematics pass through character for character."""
from pyvc.dsl import Prop, Loop, Mod

P = Prop('C11', 'Verbatim text and mathematics pass through character-for-character')
FI = 'plasTeX/__init__.py::'
FV = 'plasTeX/Base/LaTeX/Verbatim.py::'
FM = 'plasTeX/Base/LaTeX/Math.py::'
P.cls('Any', universal=True, elem='Any', fields=dict(catcode='int', nodeType='int', text='str'))
P.cls('Node', bases=['Any'])
P.cls('Environment', bases=['Any'])
P.cls('Command', bases=['Any'])


# ---------------------------------------------------------------------------------------------- < and > for MathJax
@P.spec
def LTGT1(c: 'str') -> 'str':
    """the character map of the property statement: < and > become MathJax's \\lt / \\gt, everything else is itself"""
    return "\\lt " if c == "<" else "\\gt " if c == ">" else c


P.fn(FM + 'mathjax_lt_gt', name='mathjax_lt_gt', params=dict(s='str'), returns='str',
     requires=['len(s) == 1'], ensures=['result == LTGT1(s)', '"<" not in result', '">" not in result'])
P.fn(FM + 'mathjax_lt_gt', name='mathjax_lt_gt/empty', params=dict(s='str'), returns='str',
     requires=['len(s) == 0'], ensures=['result == ""'])
P.assume('AX-str-4: str.replace with a one-character pattern is a monoid homomorphism on strings, so mathjax_lt_gt is determined by its values '
         'on the empty string and on single characters (differential-tested in native/C11.py)')

# ---------------------------------------------------------------------------------------------- no character substitution inside verbatim / math
P.ghost('charsubs_seen', 'Any?')
P.fn('Environment.normalize', params=dict(self='Any', charsubs='Any?=None'), returns='none', trusted=True, allocates=True,
     ghost_sets={'charsubs_seen': 'charsubs'}, notes='Node.normalize: merges text nodes, applying the substitution list it is given (ghost: that list)')
P.fn('Command.normalize', params=dict(self='Any', charsubs='Any?=None'), returns='none', trusted=True, allocates=True,
     ghost_sets={'charsubs_seen': 'charsubs'})
P.fn(FI + 'NoCharSubEnvironment.normalize', name='NoCharSubEnvironment.normalize', params=dict(self='Any', charsubs='Any?=None'), returns='none',
     # whatever list the caller passes, the environment's content is normalised without substitutions
     ensures=['isnone(ghost("charsubs_seen"))'], allocates=True, skip_frame=True)
P.fn(FV + 'verb.normalize', name='verb.normalize', params=dict(self='Any', charsubs='Any?=None'), returns='none',
     ensures=['isnone(ghost("charsubs_seen"))'], allocates=True, skip_frame=True)

# ---------------------------------------------------------------------------------------------- verbatim environment: the end-pattern scan
P.cls('Document', fields=dict(context='Context'))
P.cls('Context', fields=dict(categories='list[str]', currenvir='str?'))
P.cls('TeX', fields=dict(pos='int'))
P.cls('Macro', bases=['Any'], fields=dict(macroMode='int', nodeName='str', ownerDocument='Document', parentNode='Any?'))
P.const('Environment.MODE_END', 2)
P.const('Environment.MODE_NONE', 0)
P.uninterp('XS', [], 'seq[Any]')
P.ghost('frames', 'int')


def hook_eq(ex, a, b, st):
    """Token == str compares the token's text (Token.__eq__); an element node never equals a str."""
    import z3
    from pyvc import ty as T
    if isinstance(a.t, T.Ref) and isinstance(b.t, T._Str):
        nt = st.h(ex.eng.k_field('nodeType'))
        return z3.And(a.z != 0, z3.Select(nt, a.z) != 1, z3.Select(st.h(ex.eng.k_field('text')), a.z) == b.z)
    if isinstance(b.t, T.Ref) and isinstance(a.t, T._Str):
        return hook_eq(ex, b, a, st)
    return None


P.hook_eq = hook_eq
P.fn('TeX.__next__', params=dict(self='TeX'), returns='Any', raises={'StopIteration': 'iff:self.pos >= len(XS())'},
     ensures=['result is XS()[old(self.pos)]', 'self.pos == old(self.pos) + 1'], modifies=[Mod('pos', 'r is self')], trusted=True,
     notes='the token stream as a sequence view: iteration yields the next token (all of category letter / other in verbatim mode)')
P.fn('Context.push', params=dict(self='Context', obj='Any'), returns='none', trusted=True, ghost_sets={'frames': 'ghost("frames") + 1'},
     modifies=[], notes='C04')
P.fn('Context.pop', params=dict(self='Context', obj='Any'), returns='none', trusted=True, ghost_sets={'frames': 'ghost("frames") - 1'},
     modifies=[], notes='C04: pop(obj) removes the frame pushed by obj')
P.fn('Context.setVerbatimCatcodes', params=dict(self='Context'), returns='none', trusted=True, modifies=[Mod('categories', 'r is self')],
     allocates=True, notes='C01 / C04')
P.fn('Macro.parse', params=dict(self='Macro', tex='TeX'), returns='opaque', trusted=True, allocates=True,
     ensures=['0 <= tex.pos', 'tex.pos <= len(XS())', 'self.macroMode == old(self.macroMode)', 'self.nodeName == old(self.nodeName)'],
     modifies=[Mod('pos', 'r is tex')], notes='argument parsing (verbatim has none); leaves the stream at some position')
P.fn('Document.createElement', params=dict(self='Document', name='str'), returns='Macro', trusted=True, allocates=True, modifies=[],
     ensures=['fresh(result)'])
P.fn('Macro.invoke', params=dict(self='Macro', tex='TeX'), returns='list[Any]?', trusted=True, allocates=True, modifies=[],
     notes='invoke of the \\end macro (MODE_END): returns immediately for verbatim environments')
P.fn('TeX.pushTokens', params=dict(self='TeX', tokens='list[Any]'), returns='none', trusted=True, modifies=[],
     notes='puts the \\end macro in front of the remaining stream; nothing more is read afterwards')

S0 = 'SCANSTART()'
P.uninterp('SCANSTART', [], 'int')
# the two end markers as character sequences: \end{name} and \endname (built by the code before the loop from the escape / group
# characters in force when the environment began)
PAT1, PAT2 = 'PATA()', 'PATB()'
P.uninterp('PATA', [], 'seq[str]')
P.uninterp('PATB', [], 'seq[str]')


def ends(p, pat):
    """the tokens read up to stream position p end with the characters of pat (the environment node itself never matches)"""
    return ('(%s - %s >= len(%s) and all(XS()[j].nodeType != 1 and XS()[j].text == %s[j - (%s - len(%s))] '
            'for j in range(%s - len(%s), %s)))' % (p, S0, pat, pat, p, pat, p, pat, p))


P.fn(FI + 'VerbatimEnvironment.invoke', name='VerbatimEnvironment.invoke/scan', params=dict(self='Macro', tex='TeX'), returns='list[Any]?',
     start_loop=0,
     locals={'tokens': 'list[Any]', 'endpattern': 'list[str]', 'endpattern2': 'list[str]', 'endlength': 'int', 'endlength2': 'int', 'name': 'str'},
     start_assume=['tex.pos == %s' % S0, '0 <= tex.pos', 'tex.pos <= len(XS())', 'len(tokens) == 1', 'tokens[0] is self', 'self.nodeType == 1',
                   'all(not isnone(XS()[k]) for k in range(len(XS())))',
                   'endlength == len(%s)' % PAT1, 'endlength2 == len(%s)' % PAT2, 'len(endpattern) == endlength', 'len(endpattern2) == endlength2',
                   'all(endpattern[i] == %s[i] for i in range(endlength))' % PAT1,
                   'all(endpattern2[i] == %s[i] for i in range(endlength2))' % PAT2,
                   'endlength >= 1', 'endlength2 >= 1',
                   'endpattern is not tokens', 'endpattern2 is not tokens', 'endpattern is not endpattern2', 'ghost("frames") == 1'],
     ensures=[
         # the body is exactly the stream up to the first position at which an end marker is complete (earliest wins, \end{name}
         # preferred over \endname at the same position); the marker itself is not part of it
         'not isnone(result)', 'result[0] is self',
         'implies(%s, len(result) == 1 + tex.pos - len(%s) - %s)' % (ends('tex.pos', PAT1), PAT1, S0),
         'implies(not %s and %s, len(result) == 1 + tex.pos - len(%s) - %s)' % (ends('tex.pos', PAT1), ends('tex.pos', PAT2), PAT2, S0),
         'all(implies(m >= 1, result[m] is XS()[%s + m - 1]) for m in range(len(result)))' % S0,
         'all(not %s and not %s for q in range(%s, tex.pos))' % (ends('q', PAT1), ends('q', PAT2), S0),
         # the verbatim frame is popped exactly when an end marker was found
         'implies(%s or %s, ghost("frames") == 0)' % (ends('tex.pos', PAT1), ends('tex.pos', PAT2)),
         'implies(not (%s or %s), tex.pos == len(XS()) and ghost("frames") == 1 and len(result) == 1 + tex.pos - %s)'
         % (ends('tex.pos', PAT1), ends('tex.pos', PAT2), S0)],
     allocates=True, skip_frame=True,
     calls={'self.ownerDocument.context.pop': 'Context.pop', 'self.ownerDocument.createElement': 'Document.createElement',
            'end.invoke': 'Macro.invoke', 'tex.pushTokens': 'TeX.pushTokens'},
     loops={0: Loop(inv=['%s <= tex.pos' % S0, 'tex.pos <= len(XS())', 'len(tokens) == 1 + tex.pos - %s' % S0, 'tokens[0] is self',
                         'all(implies(m >= 1, tokens[m] is XS()[%s + m - 1]) for m in range(len(tokens)))' % S0,
                         # the same fact indexed by stream position (a second trigger for the solver)
                         'all(implies(%s <= j and j < tex.pos, tokens[j - %s + 1] is XS()[j]) for j in range(len(XS())))' % (S0, S0),
                         'all(not %s and not %s for q in range(%s, tex.pos + 1))' % (ends('q', PAT1), ends('q', PAT2), S0),
                         'ghost("frames") == 1', 'endpattern is not tokens', 'endpattern2 is not tokens', 'tokens is old(tokens)'],
                    modifies=[Mod('pos', 'r is tex'), Mod('list:Any', 'r is tokens')])})

# ---------------------------------------------------------------------------------------------- \verb: delimiter scan
def hook_eq2(ex, a, b, st):
    """Token == str: text comparison; Token == Token: identical, or same category and same text (Token.__eq__)."""
    import z3
    from pyvc import ty as T
    r = hook_eq(ex, a, b, st)
    if r is not None:
        return r
    if isinstance(a.t, T.Ref) and isinstance(b.t, T.Ref):
        nt, tx, cc = (st.h(ex.eng.k_field(f)) for f in ('nodeType', 'text', 'catcode'))
        both_tok = z3.And(a.z != 0, b.z != 0, z3.Select(nt, a.z) != 1, z3.Select(nt, b.z) != 1)
        return z3.Or(a.z == b.z, z3.And(both_tok, z3.Select(tx, a.z) == z3.Select(tx, b.z), z3.Select(cc, a.z) == z3.Select(cc, b.z)))
    return None


P.hook_eq = hook_eq2
P.cls('bgroup', bases=['Any'])
P.fn('Other', params=dict(ch='str'), returns='Any', trusted=True, allocates=True, modifies=[],
     ensures=['fresh(result)', 'result.text == ch', 'result.catcode == 12', 'result.nodeType != 1'], notes='Tokenizer.Other')
TEQ = '(XS()[%s] is %s or (XS()[%s].text == %s.text and XS()[%s].catcode == %s.catcode))'
P.classes['Macro'].fields['delimiter'] = 'Any?'
P.fields.setdefault('delimiter', 'Any?')
P.field_variants.setdefault('delimiter', {})['Macro'] = 'Any?'
D = 'result[1]'
P.fn(FV + 'verb.invoke', name='verb.invoke/scan', params=dict(self='Macro', tex='TeX'), returns='list[Any]',
     start_loop=1, locals={'endpattern': 'Any', 'tokens': 'list[Any]'},
     start_assume=['self.nodeType == 1', 'ghost("frames") == 1', 'all(not isnone(XS()[k]) and XS()[k].nodeType != 1 for k in range(len(XS())))',
                   '0 <= tex.pos', 'tex.pos <= len(XS())', 'len(tokens) == 2', 'tokens[0] is self', 'tokens[1] is endpattern',
                   'endpattern.nodeType != 1', 'tex.pos == SCANSTART()'],
     ensures=[
         # [self, delimiter, body ..., closing delimiter]: the body is everything up to the first token equal to the delimiter; the
         # frame pushed for the verbatim category codes is popped again
         'len(result) >= 2', 'result[0] is self', 'result[1] is endpattern', 'ghost("frames") == 0',
         'len(result) == 2 + tex.pos - SCANSTART()',
         'all(implies(m >= 2, result[m] is XS()[SCANSTART() + m - 2]) for m in range(len(result)))',
         'all(not %s for j in range(SCANSTART(), tex.pos - 1))' % (TEQ % ('j', 'endpattern', 'j', 'endpattern', 'j', 'endpattern')),
         'tex.pos == len(XS()) or (tex.pos > SCANSTART() and %s)' % (TEQ % ('tex.pos - 1', 'endpattern', 'tex.pos - 1', 'endpattern', 'tex.pos - 1', 'endpattern'))],
     allocates=True, skip_frame=True,
     calls={'self.ownerDocument.context.pop': 'Context.pop'},
     loops={1: Loop(inv=['SCANSTART() <= tex.pos', 'tex.pos <= len(XS())', 'ghost("frames") == 1', 'len(tokens) == 2 + tex.pos - SCANSTART()',
                         'tokens[0] is self', 'tokens is old(tokens)', 'tokens[1] is endpattern',
                         'all(implies(m >= 2, tokens[m] is XS()[SCANSTART() + m - 2]) for m in range(len(tokens)))',
                         'all(not %s for j in range(SCANSTART(), tex.pos))' % (TEQ % ('j', 'endpattern', 'j', 'endpattern', 'j', 'endpattern'))],
                    modifies=[Mod('pos', 'r is tex'), Mod('list:Any', 'r is tokens')])})

# \\verb: the delimiter (function up to the scan loop): taken unexpanded from the stream, and compared as the plain character (category
# "other") its closing occurrence will be read as under the verbatim category codes -- whatever category its opening occurrence was
# tokenized with; an opening brace stands for the pair { }
P.uninterp('CHAR_OF', ['str'], 'str')        # the character of a token's name: the part after "active::" for an active character
P.fn('str_tok/v', params=dict(x='Any'), returns='str', trusted=True, modifies=[], ensures=['result == x.text'], notes='str(token): its characters')
P.cls('Parts', fields=dict(whole='str'))
P.fn('str.split/v', params=dict(self='str', sep='str'), returns='Parts', trusted=True, allocates=True, modifies=[],
     ensures=['fresh(result)', 'result.whole == self'], notes="str.split('::')")
P.fn('Parts.pop', params=dict(self='Parts'), returns='str', trusted=True, modifies=[], ensures=['result == CHAR_OF(self.whole)'],
     notes="the last part of str(token).split('::')")
P.fn('TeX.itertokens/v', params=dict(self='TeX'), returns='TeX', ensures=['result is self'], trusted=True, modifies=[],
     notes='TeX.itertokens as the stream view of the unexpanded tokens')
P.fn('Macro.parse/v', params=dict(self='Macro', tex='TeX'), returns='opaque', trusted=True, allocates=True, modifies=[Mod('pos', 'r is tex')],
     ensures=['old(tex.pos) <= tex.pos', 'tex.pos < len(XS())'], notes='reads the optional star (C05); a delimiter follows (\\verb at the very end of the input is a TeX error)')
P.const('Token.CC_BGROUP', 1)
P.const('Token.CC_OTHER', 12)
P.const('Token.CC_LETTER', 11)
FIRST = 'XS()[tex.pos - 1]'
P.fn(FV + 'verb.invoke', name='verb.invoke/delimiter', params=dict(self='Macro', tex='TeX'), returns='list[Any]',
     requires=['0 <= tex.pos', 'tex.pos <= len(XS())', 'all(not isnone(XS()[k]) and XS()[k].nodeType != 1 for k in range(len(XS())))',
               'ghost("frames") == 0'],
     stop_before_loop=1, locals={'[]': 'list[Any]', 'tokens': 'list[Any]'},
     end_ensures=['len(tokens) == 2', 'tokens[0] is self', 'tokens[1] is endpattern', 'ghost("frames") == 1', 'self.delimiter is endpattern',
                  'endpattern.nodeType != 1',
                  # a letter stays the letter it is (letters keep their category under the verbatim codes); everything else is compared as a plain character
                  'implies(%s.catcode == 11, endpattern is %s)' % (FIRST, FIRST), 'implies(%s.catcode != 11, endpattern.catcode == 12)' % FIRST,
                  'endpattern.text == ("}" if %s.catcode == 1 else (%s.text if (%s.catcode == 12 or %s.catcode == 11) else CHAR_OF(%s.text)))' % (FIRST, FIRST, FIRST, FIRST, FIRST)],
     raises={'UnboundLocalError': 'True'},
     allocates=True, skip_frame=True,
     calls={'self.ownerDocument.context.push': 'Context.push', 'self.parse': 'Macro.parse/v', 'self.ownerDocument.context.setVerbatimCatcodes': 'Context.setVerbatimCatcodes',
            'tex.itertokens': 'TeX.itertokens/v', 'Other': 'Other', 'str': 'str_tok/v', 'str(endpattern).split': 'str.split/v'},
     loops={0: Loop(inv=['0 <= tex.pos', 'tex.pos < len(XS())', 'ghost("frames") == 1'], modifies=[Mod('pos', 'r is tex'), Mod('delimiter', 'r is self')])})

# \verb digest: the children are exactly the tokens strictly between the two delimiter occurrences
P.classes['Macro'].fields['kids'] = 'list[Any]'
P.fields.setdefault('kids', 'list[Any]')
P.field_variants.setdefault('kids', {})['Macro'] = 'list[Any]'
P.fn('Macro.appendChild', params=dict(self='Macro', node='Any'), returns='none', trusted=True,
     ensures=['len(self.kids) == old(len(self.kids)) + 1', 'self.kids[len(self.kids) - 1] is node',
              'all(self.kids[i] is old(seq(self.kids))[i] for i in range(len(self.kids) - 1))'],
     modifies=[Mod('list:Any', 'r is self.kids')], notes='Node.appendChild (C06): the child list grows by this node (ghost view `kids`)')
P.fn('iter_', params=dict(x='TeX'), returns='TeX', ensures=['result is x'], trusted=True, modifies=[], notes='iter(it) is it for an iterator')
P.fn('next_', params=dict(it='TeX'), returns='Any', requires=['it.pos < len(XS())'], trusted=True,
     ensures=['result is XS()[old(it.pos)]', 'it.pos == old(it.pos) + 1'], modifies=[Mod('pos', 'r is it')], notes='next(it): TeX.__next__')
P0 = 'old(tokens.pos)'
DL = 'XS()[%s]' % P0
P.fn(FV + 'verb.digest', name='verb.digest', params=dict(self='Macro', tokens='TeX'), returns='none',
     requires=['0 <= tokens.pos', 'tokens.pos < len(XS())', 'all(not isnone(XS()[k]) and XS()[k].nodeType != 1 for k in range(len(XS())))',
               'len(self.kids) == 0', 'self.kids is not tokens'],
     ensures=['len(self.kids) == (tokens.pos - %s - 2 if (tokens.pos > %s + 1 and %s) else tokens.pos - %s - 1)'
              % (P0, P0, TEQ % ('tokens.pos - 1', DL, 'tokens.pos - 1', DL, 'tokens.pos - 1', DL), P0),
              'all(self.kids[i] is XS()[%s + 1 + i] for i in range(len(self.kids)))' % P0,
              'all(not %s for j in range(%s + 1, %s + 1 + len(self.kids)))' % (TEQ % ('j', DL, 'j', DL, 'j', DL), P0, P0),
              'tokens.pos == len(XS()) or (tokens.pos > %s + 1 and %s)' % (P0, TEQ % ('tokens.pos - 1', DL, 'tokens.pos - 1', DL, 'tokens.pos - 1', DL))],
     allocates=True, skip_frame=True, calls={'next': 'next_', 'iter': 'iter_', 'self.appendChild': 'Macro.appendChild'},
     loops={0: Loop(inv=['%s + 1 <= tokens.pos' % P0, 'tokens.pos <= len(XS())', 'endpattern is %s' % DL,
                         'len(self.kids) == tokens.pos - %s - 1' % P0, 'self.kids is old(self.kids)',
                         'all(self.kids[i] is XS()[%s + 1 + i] for i in range(len(self.kids)))' % P0,
                         'all(not %s for j in range(%s + 1, tokens.pos))' % (TEQ % ('j', DL, 'j', DL, 'j', DL), P0)],
                    modifies=[Mod('pos', 'r is tokens'), Mod('list:Any', 'r is self.kids')])})
P.assume('the token stream seen by a scan is a fixed sequence XS (verbatim category codes are in force, so iteration expands nothing)')
P.unverified_surrounding('construction of the end markers from the escape / group characters, the delimiter pick of \\verb (first loop), Macro.source and '
                         'the per-node source rules, EscapeSequence.source, Array.source: covered only by the bounded native checks; '
                         '"the reconstructed math source is token-for-token what the author wrote" is bounded (bounded/math-source)')

# ---------------------------------------------------------------------------------------------- Macro.source: local shape of the reconstructed source
P.classes['Macro'].fields.update(argSource='str', attributes='dict[str,Any]?')
for f_, t_ in (('argSource', 'str'), ('attributes', 'dict[str,Any]?')):
    P.fields.setdefault(f_, t_)
    P.field_variants.setdefault(f_, {})['Macro'] = t_
P.const('Macro.MODE_BEGIN', 1)
P.const('Macro.MODE_END', 2)
P.uninterp('KIDSRC', ['Macro'], 'str')        # concatenated source of the children (sourceChildren)
P.uninterp('HASKIDS', ['Macro'], 'bool')
P.fn('sourceArguments', params=dict(o='Macro'), returns='str', ensures=['result == o.argSource'], trusted=True, modifies=[])
P.fn('sourceChildren_', params=dict(o='Macro'), returns='str', ensures=['result == KIDSRC(o)'], trusted=True, modifies=[], notes='sourceChildren: children sources in order')
P.fn('Macro.hasChildNodes', params=dict(self='Macro'), returns='bool', ensures=['result == HASKIDS(self)'], trusted=True, modifies=[])
P.uninterp('LET', [], 'str')               # encoding.stringletters(): the letters (its content does not matter for the shape)
P.fn('stringletters_', params={}, returns='str', ensures=['result == LET()'], trusted=True, modifies=[])
NM, AS = 'self.nodeName', 'self.argSource'
P.fn(FI + 'Macro.source', name='Macro.source', params=dict(self='Macro'), returns='str', kind='property',
     requires=['"::" not in %s' % NM, 'len(%s) >= 1' % NM],
     ensures=[
         # \\end{name}
         'implies(self.macroMode == 2, result == "\\\\end{" + %s + "}")' % NM,
         # \\begin{name}<arguments or one blank>[children \\end{name}]
         'implies(self.macroMode == 1 and not HASKIDS(self), result == "\\\\begin{" + %s + "}" + (%s if %s != "" else " "))' % (NM, AS, AS),
         'implies(self.macroMode == 1 and HASKIDS(self), result == "\\\\begin{" + %s + "}" + (%s if %s != "" else " ") + KIDSRC(self) + "\\\\end{" + %s + "}")' % (NM, AS, AS, NM),
         # \\name<arguments>: a blank when there is no argument; a blank before an argument that starts with a letter, unless the name is a
         # single non-letter (control symbol)
         'implies(self.macroMode != 1 and self.macroMode != 2 and %s == "", result[0:len(%s) + 2] == "\\\\" + %s + " ")' % (AS, NM, NM),
         'implies(self.macroMode != 1 and self.macroMode != 2 and %s != "" and %s[0:1] in LET() and not (len(%s) == 1 and %s[0:1] not in LET()), '
         'result[0:len(%s) + 2 + len(%s)] == "\\\\" + %s + " " + %s)' % (AS, AS, NM, NM, NM, AS, NM, AS),
         'implies(self.macroMode != 1 and self.macroMode != 2 and %s != "" and not (%s[0:1] in LET() and not (len(%s) == 1 and %s[0:1] not in LET())), '
         'result[0:len(%s) + 1 + len(%s)] == "\\\\" + %s + %s)' % (AS, AS, NM, NM, NM, AS, NM, AS)],
     allocates=True, modifies=[],
     calls={'sourceArguments': 'sourceArguments', 'sourceChildren': 'sourceChildren_', 'self.hasChildNodes': 'Macro.hasChildNodes',
            'encoding.stringletters': 'stringletters_'})
