"""C14 (second sidecar module) -- which footnotes a page lists: SectionUtils.footnotes collects, in document order, exactly the
footnotes whose nearest enclosing file-producing section is this one, and numbers their marks 1, 2, ... (a footnote mark's link
lands on an entry that exists on the same page only if the footnote is listed there)."""
from pyvc.dsl import Prop, Loop, Mod

P = Prop('C14', 'Every internal link in the rendered output lands on an existing target')
FS_ = 'plasTeX/Base/LaTeX/Sectioning.py::'
P.cls('Any', universal=True)
P.cls('Mark', fields=dict(attributes='dict[str,int]'))
P.cls('Sec', bases=['Any'], fields=dict(currentSection='Sec?', filename='str?', ownerDocument='Doc', mark='Mark'))
P.cls('Doc', fields=dict(userdata='UD'))
P.cls('UD')
P.uninterp('FNS', [], 'seq[Sec]')         # ghost: the document's footnotes, in document order
P.uninterp('SEL', [], 'seq[bool]')        # ghost: SEL[j] iff footnote j belongs to this page


@P.spec(heap=True, fuel=1)
def FILESEC(s: 'Sec?') -> 'Sec?':
    """the nearest section, starting at s and going outwards, that produces a file; None if there is none"""
    if isnone(s):
        return s
    if not isnone(unopt(s).filename) and unopt(s).filename != "":
        return s
    return FILESEC(unopt(s).currentSection)


@P.spec(fuel=1)
def CNT(i: 'int') -> 'int':
    """number of selected footnotes among the first i"""
    if i <= 0:
        return 0
    return CNT(i - 1) + (1 if SEL()[i - 1] else 0)


P.fn('UD.get', params=dict(self='UD', key='str', default='list[Sec]'), returns='list[Sec]', trusted=True, modifies=[],
     ensures=['len(result) == len(FNS())', 'all(result[j] is FNS()[j] for j in range(len(FNS())))'],
     notes='document.userdata["footnotes"]: the footnotes in document order (C07)')
N = 'len(FNS())'
P.fn(FS_ + 'SectionUtils.footnotes', name='SectionUtils.footnotes', params=dict(self='Sec'), returns='list[Sec]',
     requires=['len(SEL()) == %s' % N, 'all(not isnone(FNS()[j]) and SEL()[j] == (FILESEC(FNS()[j].currentSection) is self) for j in range(%s))' % N,
               'all(FNS()[a].mark is not FNS()[b].mark and FNS()[a].mark.attributes is not FNS()[b].mark.attributes for a in range(%s) for b in range(a + 1, %s))' % (N, N)],
     ensures=['len(result) == CNT(%s)' % N,
              # exactly the footnotes of this page, in document order
              'all(implies(SEL()[j], result[CNT(j)] is FNS()[j]) for j in range(%s))' % N,
              # numbered 1, 2, ... in that order
              'all("num" in result[k].mark.attributes and result[k].mark.attributes["num"] == k + 1 for k in range(len(result)))'],
     allocates=True, skip_frame=True, heap_consts=True, locals={'[]': 'list[Sec]'},
     calls={'self.ownerDocument.userdata.get': 'UD.get'},
     loops={0: Loop(index='i', seq='fs', inv=['fresh(output)', 'len(output) == CNT(i)', 'all(implies(SEL()[j], output[CNT(j)] is FNS()[j]) for j in range(i))',
                                              'all(0 <= CNT(j) and CNT(j) <= CNT(i) for j in range(i + 1))',
                                              'all(implies(SEL()[j], CNT(j) < CNT(i)) for j in range(i))',
                                              # every collected footnote is a selected one, at its position
                                              'all(any(SEL()[j] and CNT(j) == q and output[q] is FNS()[j] for j in range(i)) for q in range(len(output)))',
                                              'i <= %s' % N, 'len(fs) == %s' % N, 'all(fs[j] is FNS()[j] for j in range(%s))' % N],
                    at_end=['implies(SEL()[i - 1], len(output) >= 1 and output[len(output) - 1] is FNS()[i - 1] and CNT(i - 1) == len(output) - 1)',
                            'implies(not SEL()[i - 1], len(output) == CNT(i - 1))'],
                    modifies=[Mod('list:Sec', 'r is output')]),
            1: Loop(inv=['all(FILESEC(s) is FILESEC(f.currentSection) for q in range(1))'], modifies=[]),
            2: Loop(index='k', seq='out', inv=['all("num" in out[q].mark.attributes and out[q].mark.attributes["num"] == q + 1 for q in range(k))',
                                              'len(out) == len(output)', 'all(out[q] is output[q] for q in range(len(out)))', 'len(output) == CNT(%s)' % N,
                                              'all(implies(SEL()[j], output[CNT(j)] is FNS()[j]) for j in range(%s))' % N,
                                              'all(any(SEL()[j] and CNT(j) == q and output[q] is FNS()[j] for j in range(%s)) for q in range(len(output)))' % N],
                    modifies=[Mod('dict:str,int', 'any(r is output[q].mark.attributes for q in range(len(output)))')])})
