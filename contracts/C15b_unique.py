"""C15 (second sidecar module) -- Filenames._newFilename, one delivered name at a time: a name is delivered only if it is neither
reserved nor already issued, and it is recorded as issued (so the delivered names are pairwise distinct and never a reserved name).
What the name looks like (template grammar, $num, word limits, forbidden characters) is decided by the bounded check."""
from pyvc.dsl import Prop, Loop, Mod

P = Prop('C15', 'The filename generator yields unique, clean names in template order')
F = 'plasTeX/Filenames.py::'
P.cls('Any', universal=True)
P.cls('Filenames', fields=dict(extension='str', files='opaque', variables='dict[str,str]', invalid='dict[str,Any?]', charsub='list[str]?',
                               _initialVariables='dict[str,str]'))
P.cls('Regex')
P.cls('Template')
P.fn('Regex.findall', params=dict(self='Regex', s='str'), returns='list[tuple[str,str]]', trusted=True, allocates=True, modifies=[], ensures=['fresh(result)'])
P.fn('re.sub', params=dict(pat='str', repl='str', s='str'), returns='str', trusted=True, modifies=[])
P.fn('string.Template', params=dict(s='str'), returns='Template', trusted=True, allocates=True, modifies=[], ensures=['fresh(result)'])
P.fn('Template.substitute', params=dict(self='Template', ns='dict[str,str]'), returns='str', trusted=True, raises={'KeyError': 'True'}, modifies=[],
     notes='string.Template.substitute: KeyError when a variable is missing')
P.fn('dict_copy', params=dict(self='dict[str,str]'), returns='dict[str,str]', trusted=True, allocates=True, modifies=[],
     ensures=['fresh(result)', 'all((k in result) == (k in self) and implies(k in self, result[k] == self[k]) for k in Strs())'], notes='dict.copy')
P.fn('dict_clear', params=dict(self='dict[str,str]'), returns='none', trusted=True, modifies=[Mod('dict:str,str', 'r is self')],
     ensures=['all(k not in self for k in Strs())'], notes='dict.clear')
P.fn('dict_update', params=dict(self='dict[str,str]', e='dict[str,str]'), returns='none', trusted=True, modifies=[Mod('dict:str,str', 'r is self')], notes='dict.update')
P.fn('str_split', params=dict(self='str'), returns='list[str]', trusted=True, allocates=True, modifies=[], ensures=['fresh(result)'], notes='str.split()')
P.fn('str_join_', params=dict(self='str', parts='list[str]'), returns='str', trusted=True, modifies=[])
P.fn('fmt_', params=dict(self='str', a='opaque', b='opaque=0'), returns='str', trusted=True, modifies=[])
P.fn('int_', params=dict(s='str'), returns='int', trusted=True, raises={'ValueError': 'True'}, modifies=[])
P.fn('Filenames.addExtension', params=dict(self='Filenames', filename='str'), returns='str', trusted=True, modifies=[], notes='proved in C15_filenames')
INV = 'self.invalid'
MONO = 'all(implies(old(k in self.invalid), k in self.invalid) for k in Strs())'
ALIAS = ['self.invalid is not self.variables', 'self.invalid is not self._initialVariables', 'g is self._initialVariables', 'self.variables is not g']
YIELD = [
    # the delivered name was free (not reserved, not issued before) when this attempt began, and is recorded as issued now
    'not head(value in self.invalid)', 'value in self.invalid',
    # names recorded earlier stay recorded
    'all(implies(head(k in self.invalid), k in self.invalid) for k in Strs())']
LOOPMOD = [Mod('dict:str,str', 'True'), Mod('dict:str,Any?', 'r is self.invalid'), Mod('list:str', 'fresh(r)')]
P.fn(F + 'Filenames._newFilename', name='Filenames._newFilename', params=dict(self='Filenames'), returns='none',
     start_loop=1, locals={'static': 'list[str]', 'wildcard': 'list[str]', 'num': 'int', 'g': 'dict[str,str]', 'keysre': 'Regex', '[]': 'list[str]'},
     start_assume=ALIAS + ['all(static[i] is not None for i in range(len(static)))'],
     yields={0: YIELD, 1: YIELD},
     raises={'ValueError': 'True', 'IndexError': 'True'},
     ensures=[], allocates=True, skip_frame=True,
     calls={'keysre.findall': 'Regex.findall', 're.sub': 're.sub', 'string.Template': 'string.Template', 'self.variables.copy': 'dict_copy',
            'self.variables.clear': 'dict_clear', 'self.variables.update': 'dict_update', 'value.replace': 'fmt_', 'currentns[key].split': 'str_split', 'self.variables[key].split': 'str_split',
            "' '.join": 'str_join_', 'int': 'int_', 'self.addExtension': 'Filenames.addExtension',
            'string.Template(item).substitute': 'Template.substitute'},
     # loops 1 (static names), 6 (passes) and 7 (wildcard alternatives) may record a name; the inner loops only prepare the namespace
     # the inner loops (2-5, 8-11) only prepare the candidate's namespace `currentns`, a copy of the variables: its keys stay keys of the variables
     loops={k: (Loop(inv=ALIAS + [MONO], modifies=LOOPMOD) if k in (1, 6, 7) else
                Loop(inv=ALIAS + [MONO, 'currentns is not self.variables', 'currentns is not g', 'all(implies(k in currentns and k != "num", k in self.variables) for k in Strs())'],
                     modifies=[Mod('dict:str,str', 'r is currentns'), Mod('list:str', 'fresh(r)')])) for k in range(1, 12)})
P.assume('self.invalid is written only by the generator while it runs (the renderer passes the reserved names in before the first request)')
