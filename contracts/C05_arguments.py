"""C05 -- arguments are delimited, typed and bound as declared: the parameter-expansion switch is balanced on every path of
every scanner, and sign scanning (plasTeX/TeX.py, plasTeX/__init__.py ParameterCommand)."""
from pyvc.dsl import Prop, Loop, Mod

P = Prop('C05', "Arguments are delimited, typed and bound as the macro's signature declares")
FT = 'plasTeX/TeX.py::'
FI = 'plasTeX/__init__.py::'
P.cls('PCClass', fields=dict(_enablelevel='int', enabled='bool'))
P.global_obj('ParameterCommand', 'PCClass')
P.cls('Any', universal=True, elem='Any', fields=dict(source='str', catcode='int', nodeType='int', nodeName='str', text='str', macroName='str?'))
P.cls('ParameterCommand', bases=['Any'])
P.cls('TeX', fields=dict(pos='int', ownerDocument='Any', argtypes='dict[str,Any]', lineInfo='str', context='Any'))
P.const('Token.CC_BGROUP', 1)
P.const('Token.CC_SPACE', 10)
P.const('Token.ELEMENT_NODE', 1)
P.const('Macro.ELEMENT_NODE', 1)
P.const('Macro.DOCUMENT_FRAGMENT_NODE', 11)
P.const('string.digits', '0123456789')
P.const('string.octdigits', '01234567')
P.const('string.hexdigits', '0123456789abcdefABCDEF')
LVL = 'ParameterCommand._enablelevel'
WFPC = 'ParameterCommand.enabled == (ParameterCommand._enablelevel >= 0)'
BAL = ['%s == old(%s)' % (LVL, LVL), WFPC]
MODPC = [Mod('_enablelevel', 'r is ParameterCommand'), Mod('enabled', 'r is ParameterCommand')]

P.fn(FI + 'ParameterCommand.enable', name='PCClass.enable', params=dict(cls='PCClass'), returns='none',
     ensures=['%s == old(%s) + 1' % (LVL, LVL), WFPC], modifies=MODPC)
P.fn(FI + 'ParameterCommand.disable', name='PCClass.disable', params=dict(cls='PCClass'), returns='none',
     ensures=['%s == old(%s) - 1' % (LVL, LVL), WFPC], modifies=MODPC)

# ---- the token stream as seen by the scanners (A5): iteration over the TeX object yields (expanded) tokens
P.uninterp('XS', [], 'seq[Any]')
P.fn('TeX.__next__', params=dict(self='TeX'), returns='Any', raises={'StopIteration': 'iff:self.pos >= len(XS())'},
     ensures=['result is XS()[old(self.pos)]', 'self.pos == old(self.pos) + 1'], modifies=[Mod('pos', 'r is self')], trusted=True,
     notes='TeX.__iter__ / itertokens as a stream view; expansion of tokens on the way is assumed not to change the parameter switch (C17)')
P.fn('TeX.itertokens', params=dict(self='TeX'), returns='TeX', ensures=['result is self'], trusted=True)
P.fn('TeX.pushToken', params=dict(self='TeX', t='Any?'), returns='none',
     ensures=['self.pos == old(self.pos) - 1'], modifies=[Mod('pos', 'r is self')], trusted=True,
     notes='pushing back the token just read un-reads it (C02 stream contracts)')
P.uninterp('SKIPSP', ['int'], 'int')       # stream position after skipping optional blanks
P.fn('TeX.readOptionalSpaces', params=dict(self='TeX'), returns='none', ensures=['self.pos == SKIPSP(old(self.pos))', 'self.pos >= old(self.pos)', 'self.pos <= len(XS())'],
     modifies=[Mod('pos', 'r is self')], trusted=True)


def ISCH(k, ch):
    return '(XS()[%s].nodeType != 1 and XS()[%s].text == "%s")' % (k, k, ch)


def hook_eq(ex, a, b, st):
    """Token == str compares the token's text (Token.__eq__); an element node never equals a str."""
    import z3
    from pyvc import ty as T
    if isinstance(a.t, T.Ref) and isinstance(b.t, T._Str):
        nt = st.h(ex.eng.k_field('nodeType'))
        return z3.And(a.z != 0, z3.Select(nt, a.z) != 1, z3.Select(st.h(ex.eng.k_field('text')), a.z) == b.z)
    if isinstance(b.t, T.Ref) and isinstance(a.t, T._Str):
        return hook_eq(ex, b, a, st)
    return None


P.hook_eq = hook_eq


@P.spec(heap=True, fuel=1)
def SIGNS(k: 'int', s: 'int') -> 'int':
    """Sign denoted by the run of blanks / + / - starting at stream position k, given the sign s accumulated so far."""
    if k >= len(XS()) or k < 0:
        return s
    if XS()[k].nodeType == 1:
        return s
    if XS()[k].text == "+":
        return SIGNS(k + 1, s)
    if XS()[k].text == "-":
        return SIGNS(k + 1, 0 - s)
    if XS()[k].text == "" or XS()[k].catcode == 10:
        return SIGNS(k + 1, s)
    return s


P.fn(FT + 'TeX.readOptionalSigns', name='TeX.readOptionalSigns', params=dict(self='TeX'), returns='int',
     requires=['0 <= self.pos', 'self.pos <= len(XS())', 'all(not isnone(XS()[k]) for k in range(len(XS())))'],
     # +1 or -1: minus signs multiply, plus signs and blanks are skipped, the first other token is left in the stream
     ensures=['result == 1 or result == -1', 'self.pos <= len(XS())', 'result == SIGNS(SKIPSP(old(self.pos)), 1)'],
     calls={'self.readOptionalSpaces': 'TeX.readOptionalSpaces', 'self.pushToken': 'TeX.pushToken'},
     modifies=[Mod('pos', 'r is self')],
     loops={0: Loop(inv=['sign == 1 or sign == -1', '0 <= self.pos', 'self.pos <= len(XS())',
                         'SIGNS(self.pos, sign) == SIGNS(SKIPSP(old(self.pos)), 1)'])})

# ---------------------------------------------------------------- the parameter switch is balanced on every normal return path
def stub(name, params, returns='Any', **kw):
    P.fn(name, params=params, returns=returns, trusted=True, **kw)


stub('dimen', dict(x='opaque'), allocates=True)
stub('mul', dict(a='Any', b='Any'), allocates=True)
P.fn('TeX.readOptionalSigns/any', params=dict(self='TeX'), returns='Any', modifies=[Mod('pos', 'r is self')], allocates=True, trusted=True,
     notes='readOptionalSigns (proved above) with its result viewed as an opaque number')
P.fn('TeX.readDecimal', params=dict(self='TeX'), returns='Any', ensures=BAL, modifies=[Mod('pos', 'r is self')], allocates=True, trusted=True,
     notes='readDecimal contains no enable/disable call')
P.fn('TeX.readKeyword', params=dict(self='TeX', words='Any', optspace='bool=True'), returns='Any?', ensures=BAL, modifies=[Mod('pos', 'r is self')],
     allocates=True, trusted=True, notes='readKeyword contains no enable/disable call')
P.fn('Any.__mul__', params=dict(self='Any', other='Any'), returns='Any', allocates=True, trusted=True)


def hook_binop(ex, op, a, b, st):
    return None


P.fn(FT + 'TeX.readUnitOfMeasure', name='TeX.readUnitOfMeasure', params=dict(self='TeX', units='Any'), returns='Any',
     requires=[WFPC, 'all(not isnone(XS()[k]) for k in range(len(XS())))', '0 <= self.pos', 'self.pos <= len(XS())', 'len(units) >= 1'],
     ensures=BAL, modifies=MODPC + [Mod('pos', 'r is self')], allocates=True, skip_frame=True,
     calls={'self.readOptionalSpaces': 'TeX.readOptionalSpaces', 'self.pushToken': 'TeX.pushToken', 'self.readKeyword': 'TeX.readKeyword',
            'dimen': 'dimen', "', '.join": 'dimen'},
     loops={0: Loop(inv=['%s == old(%s) - 1' % (LVL, LVL), WFPC, '0 <= self.pos', 'self.pos <= len(XS())'])})

REQ = [WFPC, 'all(not isnone(XS()[k]) for k in range(len(XS())))', '0 <= self.pos', 'self.pos <= len(XS())']
INSIDE = ['%s == old(%s) - 1' % (LVL, LVL), WFPC, '0 <= self.pos', 'self.pos <= len(XS())']
stub('opaque_fn', dict(a='opaque', b='opaque=0'), allocates=True)
P.fn('TeX.readUnitOfMeasure/c', params=dict(self='TeX', units='opaque'), returns='Any', ensures=BAL + ['0 <= self.pos', 'self.pos <= len(XS())'],
     modifies=MODPC + [Mod('pos', 'r is self')], allocates=True, trusted=True, notes='proved above (TeX.readUnitOfMeasure)')
P.fn('TeX.readSequence', params=dict(self='TeX', chars='opaque', optspace='bool=True', default='opaque=0'), returns='str',
     ensures=BAL + ['0 <= self.pos', 'self.pos <= len(XS())'], modifies=[Mod('pos', 'r is self')], allocates=True, trusted=True,
     notes='readSequence contains no enable/disable call')
CALLS = {'self.readOptionalSigns': 'TeX.readOptionalSigns/any', 'self.pushToken': 'TeX.pushToken', 'self.readDecimal': 'TeX.readDecimal',
         'self.readUnitOfMeasure': 'TeX.readUnitOfMeasure/c', 'dimen': 'opaque_fn', 'number': 'opaque_fn', 'int': 'opaque_fn', 'ord': 'opaque_fn',
         'self.readSequence': 'TeX.readSequence', 'self.itertokens': 'TeX.itertokens',
         'self.ownerDocument.createElement': 'Document.createElement', 'self.readOneOptionalSpace': 'TeX.readOneOptionalSpace'}
P.fn('TeX.readOneOptionalSpace', params=dict(self='TeX'), returns='none', trusted=True, modifies=[Mod('pos', 'r is self')],
     ensures=BAL + ['self.pos >= old(self.pos)', 'self.pos <= old(self.pos) + 1', 'self.pos <= len(XS())', '0 <= self.pos'],
     notes='consumes at most one blank token; does not touch the parameter switch')
P.fn('Document.createElement', params=dict(self='Any', name='str'), returns='Any', ensures=BAL, allocates=True, modifies=[], trusted=True,
     notes='creating a macro instance does not touch the parameter switch or the stream')
P.contracts['TeX.readOptionalSigns/any'].ensures = BAL + ['0 <= self.pos', 'self.pos <= len(XS())']
P.contracts['TeX.readDecimal'].ensures = BAL + ['0 <= self.pos', 'self.pos <= len(XS())']
P.contracts['TeX.readKeyword'].ensures = BAL + ['0 <= self.pos', 'self.pos <= len(XS())']
P.fn(FT + 'TeX.readDimen', name='TeX.readDimen', params=dict(self='TeX', units='opaque=0'), returns='Any',
     requires=REQ, ensures=BAL, modifies=MODPC + [Mod('pos', 'r is self')], allocates=True, skip_frame=True, calls=CALLS,
     loops={0: Loop(inv=INSIDE)})
P.fn(FT + 'TeX.readInteger', name='TeX.readInteger', params=dict(self='TeX', optspace='bool=True'), returns='Any',
     requires=REQ, ensures=BAL, modifies=MODPC + [Mod('pos', 'r is self')], allocates=True, skip_frame=True, calls=CALLS,
     locals={'num': 'Any?'},
     loops={0: Loop(inv=INSIDE), 1: Loop(inv=INSIDE), 2: Loop(inv=INSIDE), 3: Loop(inv=INSIDE)})

# ---- glue scanners: the early return for a value taken from another parameter re-enables as well
P.fn('TeX.readStretch', params=dict(self='TeX'), returns='Any?', ensures=BAL + ['0 <= self.pos', 'self.pos <= len(XS())'],
     modifies=MODPC + [Mod('pos', 'r is self')], allocates=True, trusted=True, notes='readKeyword + readDimen (proved above)')
CALLS_G = dict(CALLS)
CALLS_G.update({'self.readDimen': 'TeX.readDimen/c', 'self.readMuDimen': 'TeX.readMuDimen/c', 'self.readStretch': 'TeX.readStretch',
                'self.readShrink': 'TeX.readStretch', 'self.readMuStretch': 'TeX.readStretch', 'self.readMuShrink': 'TeX.readStretch',
                'glue': 'opaque_fn3', 'muglue': 'opaque_fn3', 'mudimen': 'opaque_fn'})
stub('opaque_fn3', dict(a='opaque', b='opaque=0', c='opaque=0'), allocates=True)
for nm in ('readGlue', 'readMuGlue'):
    P.fn(FT + 'TeX.%s' % nm, name='TeX.%s' % nm, params=dict(self='TeX'), returns='Any',
         requires=REQ, ensures=BAL, modifies=MODPC + [Mod('pos', 'r is self')], allocates=True, skip_frame=True, calls=CALLS_G,
         loops={0: Loop(inv=INSIDE)})

# ---- readArgumentAndSource: every normal return path re-enables what it disabled
P.fields.update({})
for nm in ('Any',):
    pass
P.cls('AnyX', fields=dict(charsubs='Any?', warnOnUnrecognized='bool'))
P.field_variants.setdefault('charsubs', {})['Any'] = 'Any?'
P.field_variants.setdefault('warnOnUnrecognized', {})['Any'] = 'bool'
P.fields.setdefault('charsubs', 'Any?')
P.fields.setdefault('warnOnUnrecognized', 'bool')
P.always_attrs = ('charsubs', 'nodeType')
BALP = BAL + ['0 <= self.pos', 'self.pos <= len(XS())']
for nm in ('readDimen', 'readMuDimen', 'readGlue', 'readMuGlue', 'readNumber'):
    P.fn('TeX.%s/c' % nm, params=dict(self='TeX'), returns='Any', ensures=BALP, modifies=MODPC + [Mod('pos', 'r is self')], allocates=True,
         trusted=True, notes='balanced scanner (readDimen / readInteger / readGlue / readMuGlue proved; readMuDimen and readNumber only delegate)')
P.fn('TeX.readToken', params=dict(self='TeX', expanded='bool=False', parentNode='Any?=None'), returns='tuple[Any?,str]', raises={'Exception': 'True'},
     ensures=BALP, modifies=[Mod('pos', 'r is self')], allocates=True, trusted=True, notes='readToken contains no enable/disable call')
P.fn('TeX.readCharacter', params=dict(self='TeX', char='str'), returns='tuple[Any?,str]', raises={'Exception': 'True'},
     ensures=BALP, modifies=[Mod('pos', 'r is self')], allocates=True, trusted=True)
P.fn('TeX.readGrouping', params=dict(self='TeX', chars='str', expanded='bool=False', parentNode='Any?=None'), returns='tuple[Any?,str]',
     raises={'Exception': 'True'}, ensures=BALP, modifies=[Mod('pos', 'r is self')], allocates=True, trusted=True)
P.fn('TeX.expandTokens', params=dict(self='TeX', tokens='opaque', parentNode='opaque=0'), returns='Any', ensures=BALP,
     modifies=[Mod('pos', 'r is self')], allocates=True, trusted=True, notes='expansion is assumed not to change the parameter switch (C17 ParameterCommand.invoke is balanced)')
P.fn('TeX.source', params=dict(self='TeX', tokens='opaque'), returns='str', trusted=True)
P.fn('TeX.cast', params=dict(self='TeX', tokens='opaque', type='opaque', subtype='opaque', delim='opaque', parentNode='opaque', name='opaque'),
     returns='Any?', raises={'Exception': 'True'}, ensures=BALP, modifies=[Mod('pos', 'r is self')], allocates=True, trusted=True)
P.fn('Any.items', params=dict(self='Any'), returns='list[tuple[str,int]]', raises={'Exception': 'True'}, allocates=True, trusted=True)
P.fn('Any.whichCode', params=dict(self='Any', char='str'), returns='int', trusted=True)
P.fn('Any.catcode', params=dict(self='Any', char='str', code='int'), returns='none', allocates=True, trusted=True)
P.fn('Any.normalize', params=dict(self='Any', charsubs='opaque'), returns='none', allocates=True, trusted=True)
P.fn(FT + 'TeX.readArgumentAndSource', name='TeX.readArgumentAndSource',
     params=dict(self='TeX', spec='str?=None', type='str?=None', subtype='str?=None', delim="str=','", expanded='bool=False', default='Any?=None',
                 parentNode='Any?=None', name='str?=None', stripLeadingWhitespace='bool=True', charsubs='Any?=None'),
     returns='tuple[Any?,str]',
     requires=REQ, ensures=BAL, raises={'Exception': 'True'},
     modifies=MODPC + [Mod('pos', 'r is self')], allocates=True, skip_frame=True,
     locals={'[]': 'list[Any]', 'priorcodes': 'dict[str,int]', '{}': 'dict[str,int]', 'toks': 'Any?', 'args': 'list[Any]'},
     calls={'self.readOptionalSpaces': 'TeX.readOptionalSpaces', 'self.readDimen': 'TeX.readDimen/c', 'self.readMuDimen': 'TeX.readMuDimen/c',
            'self.readGlue': 'TeX.readGlue/c', 'self.readMuGlue': 'TeX.readMuGlue/c', 'self.readNumber': 'TeX.readNumber/c',
            'self.itertokens': 'TeX.itertokens', 'self.pushToken': 'TeX.pushToken', 'self.readToken': 'TeX.readToken',
            'self.readCharacter': 'TeX.readCharacter', 'self.readGrouping': 'TeX.readGrouping', 'self.expandTokens': 'TeX.expandTokens',
            'self.source': 'TeX.source', 'self.cast': 'TeX.cast'},
     loops={0: Loop(inv=INSIDE), 1: Loop(inv=INSIDE),
            2: Loop(inv=INSIDE, modifies=MODPC + [Mod('pos', 'r is self'), Mod('list:Any', 'r is args')]),
            3: Loop(inv=INSIDE, modifies=MODPC + [Mod('pos', 'r is self'), Mod('list:Any', 'r is toks')]),
            4: Loop(index='i4', seq='its4', inv=INSIDE, modifies=[Mod('dict:str,int', 'r is priorcodes')]),
            5: Loop(index='i5', seq='its5', inv=INSIDE)})

# ---------------------------------------------------------------- readGrouping: which tokens an optional [ ... ] argument takes
# TeX's rule, stated independently of the loop: scanning from position k with `level` open brackets and brace depth bl, the group
# is closed by the first closing delimiter met at brace depth <= 0 that brings the bracket level to zero; brace groups are opaque.
P.const('Token.CC_ESCAPE', 0)
P.const('Token.CC_EGROUP', 2)


@P.spec(heap=True, fuel=1)
def CLOSE(k: 'int', level: 'int', bl: 'int', o: 'str', c: 'str') -> 'int':
    if k >= len(XS()) or k < 0:
        return len(XS())
    if XS()[k].catcode == 1:
        return CLOSE(k + 1, level, bl + 1, o, c)
    if XS()[k].catcode == 2:
        return CLOSE(k + 1, level, bl - 1, o, c)
    if bl > 0:
        return CLOSE(k + 1, level, bl, o, c)
    if XS()[k].catcode != 0 and XS()[k].text == o:
        return CLOSE(k + 1, level + 1, bl, o, c)
    if XS()[k].catcode != 0 and XS()[k].text == c:
        return k if level == 1 else CLOSE(k + 1, level - 1, bl, o, c)
    return CLOSE(k + 1, level, bl, o, c)


P.fn('Other', params=dict(ch='str'), returns='Any', trusted=True, allocates=True, modifies=[],
     ensures=['fresh(result)', 'str(result) == ch', 'result.text == ch', 'result.catcode == 12', 'result.nodeType != 1'],
     notes='Tokenizer.Other(ch): a character token of category 12')
P.fn('TeX.source/l', params=dict(self='TeX', tokens='opaque'), returns='str', trusted=True, modifies=[])
START = 'old(self.pos) + 1'
CL = 'CLOSE(%s, 1, 0, chars[0:1], chars[1:2])' % START
P.fn(FT + 'TeX.readGrouping', name='TeX.readGrouping/spec', params=dict(self='TeX', chars='str', expanded='bool=False', parentNode='Any?=None'),
     returns='tuple[list[Any]?,str]',
     requires=['len(chars) == 2', 'not expanded', '0 <= self.pos', 'self.pos <= len(XS())',
               'all(not isnone(XS()[k]) and str(XS()[k]) == XS()[k].text for k in range(len(XS())))'],
     ensures=[
         # no opening delimiter next: nothing is consumed and the argument is absent
         'implies(old(self.pos) >= len(XS()) or not (XS()[old(self.pos)].catcode != 0 and XS()[old(self.pos)].text == chars[0:1]), '
         'isnone(result[0]) and self.pos == old(self.pos))',
         # otherwise: exactly the tokens up to the matching closing delimiter, which is consumed too
         'implies(old(self.pos) < len(XS()) and XS()[old(self.pos)].catcode != 0 and XS()[old(self.pos)].text == chars[0:1], '
         'not isnone(result[0]) and len(result[0]) == %s - (%s) and self.pos == (%s + 1 if %s < len(XS()) else len(XS())) and '
         'all(result[0][j] is XS()[%s + j] for j in range(len(result[0]))))' % (CL, START, CL, CL, START)],
     modifies=[Mod('pos', 'r is self')], allocates=True,
     calls={'self.itertokens': 'TeX.itertokens', 'self.pushToken': 'TeX.pushToken', 'Other': 'Other', 'self.source': 'TeX.source/l'},
     locals={'[]': 'list[Any]', 'level': 'int', 'bracelevel': 'int'},
     loops={0: Loop(inv=['self.pos == old(self.pos)'], modifies=[Mod('pos', 'r is self')]),
            1: Loop(inv=['%s <= self.pos' % START, 'self.pos <= len(XS())', 'level >= 1',
                         'str(begin) == chars[0:1]', 'str(end) == chars[1:2]', 'fresh(begin)', 'fresh(end)',
                         'CLOSE(self.pos, level, bracelevel, chars[0:1], chars[1:2]) == %s' % CL,
                         'len(toks) == self.pos - (%s)' % START, 'fresh(toks)',
                         'all(toks[j] is XS()[%s + j] for j in range(len(toks)))' % START],
                    modifies=[Mod('pos', 'r is self'), Mod('list:Any', 'r is toks or r is source')])})
