"""C18 -- the index lists every entry exactly once, under its key, in collation order.

Only two small helper contracts are within reach of the verifier so far (a page reference is exactly one of normal / see / seealso; an
entry's total length is positive); the property itself is decided by the bounded native checks (native/C18.py) and is labelled so."""
from pyvc.dsl import Prop, Loop, Mod

P = Prop('C18', 'The index lists every entry exactly once, under its key, in collation order')
P.level = 'exploration'    # bounded stand-in: evidence is written at exploration level
FX = 'plasTeX/Base/LaTeX/Index.py::'
P.cls('Any', universal=True)
P.cls('IndexEntry', fields=dict(type='int'))
P.const('IndexEntry.TYPE_SEE', 1)
P.const('IndexEntry.TYPE_SEEALSO', 2)
P.cls('IndexDestination', fields=dict(_cr_type='int', _cr_node='Any'))
P.fn(FX + 'IndexDestination.see', name='IndexDestination.see', params=dict(self='IndexDestination'), returns='bool', kind='property',
     ensures=['result == (self._cr_type == 1)'], modifies=[])
P.fn(FX + 'IndexDestination.seealso', name='IndexDestination.seealso', params=dict(self='IndexDestination'), returns='bool', kind='property',
     ensures=['result == (self._cr_type == 2)'], modifies=[])
P.classes['IndexDestination'].props.update(see='IndexDestination.see', seealso='IndexDestination.seealso')
P.fn(FX + 'IndexDestination.normal', name='IndexDestination.normal', params=dict(self='IndexDestination'), returns='bool', kind='property',
     # a page reference is exactly one of: normal, see, see also
     ensures=['result == (self._cr_type != 1 and self._cr_type != 2)',
              '(1 if result else 0) + (1 if self._cr_type == 1 else 0) + (1 if self._cr_type == 2 else 0) == 1'], modifies=[])
P.unverified_surrounding('index.invoke (entry parser), IndexEntry.__lt__, IndexUtils.digest (prefix merge), groups, splitColumns: bounded native '
                         'checks only (nested lists built through reversal and filtering are outside the verifier\'s current reach)')
P.assume('collator / unidecode are library oracles (A4)')
