"""C18 -- the index lists every entry exactly once, under its key, in collation order.

Proved: IndexUtils.splitColumns is an order-preserving partition of its items into exactly `cols` columns with the empty columns last
(four segments tiling the function at its top-level loops, see below); a page reference is exactly one of normal / see / seealso.
Entry parsing, ordering, prefix merge and letter groups are decided by the bounded native checks (native/C18.py) and labelled so."""
from pyvc.dsl import Prop, Loop, Mod

P = Prop('C18', 'The index lists every entry exactly once, under its key, in collation order')
FX = 'plasTeX/Base/LaTeX/Index.py::'
P.cls('Any', universal=True)
P.cls('IndexEntry', fields=dict(type='int'))
P.const('IndexEntry.TYPE_SEE', 1)
P.const('IndexEntry.TYPE_SEEALSO', 2)
P.cls('IndexDestination', fields=dict(_cr_type='int', _cr_node='Any'))
P.fn(FX + 'IndexDestination.see', name='IndexDestination.see', params=dict(self='IndexDestination'), returns='bool', kind='property',
     ensures=['result == (self._cr_type == 1)'], modifies=[])
P.fn(FX + 'IndexDestination.seealso', name='IndexDestination.seealso', params=dict(self='IndexDestination'), returns='bool', kind='property',
     ensures=['result == (self._cr_type == 2)'], modifies=[])
P.classes['IndexDestination'].props.update(see='IndexDestination.see', seealso='IndexDestination.seealso')
P.fn(FX + 'IndexDestination.normal', name='IndexDestination.normal', params=dict(self='IndexDestination'), returns='bool', kind='property',
     # a page reference is exactly one of: normal, see, see also
     ensures=['result == (self._cr_type != 1 and self._cr_type != 2)',
              '(1 if result else 0) + (1 if self._cr_type == 1 else 0) + (1 if self._cr_type == 2 else 0) == 1'], modifies=[])

# The same three kinds on the entry itself (IndexUtils.digest files a page reference under see / see also / normal by these).
# `type(self)` is read as IndexEntry: the constants are class attributes no subclass in the repository overrides (ground/entry-kinds
# compares the sidecar constants with the real class on every run and checks that no subclass exists).
P.const('type(self).TYPE_SEE', 1)
P.const('type(self).TYPE_SEEALSO', 2)
P.fn(FX + 'IndexEntry.see', name='IndexEntry.see', params=dict(self='IndexEntry'), returns='bool', kind='property',
     ensures=['result == (self.type == 1)'], modifies=[])
P.fn(FX + 'IndexEntry.seealso', name='IndexEntry.seealso', params=dict(self='IndexEntry'), returns='bool', kind='property',
     ensures=['result == (self.type == 2)'], modifies=[])
P.classes['IndexEntry'].props.update(see='IndexEntry.see', seealso='IndexEntry.seealso')
P.fn(FX + 'IndexEntry.normal', name='IndexEntry.normal', params=dict(self='IndexEntry'), returns='bool', kind='property',
     ensures=['result == (self.type != 1 and self.type != 2)',
              '(1 if result else 0) + (1 if self.type == 1 else 0) + (1 if self.type == 2 else 0) == 1'], modifies=[])

# ---------------------------------------------------------------------------------------------- splitColumns: order-preserving partition
# The items are atoms (only their identity matters: the function merely moves them around); POS is a ghost labelling of the items by
# their index (it exists iff the items are pairwise distinct, which holds for child nodes).  The function is verified in four segments
# that tile it at its top-level loops; the end condition of each segment is literally the start assumption of the next one.
# Chain-style characterisation (no sums): inside a column positions are consecutive, consecutive non-empty columns continue the
# sequence, the first non-empty column starts at position 0 and the last one ends at n-1, the result has exactly `cols` columns and
# the empty ones come last.  By induction on the position this is equivalent to  concat(result) == items  (meta-argument, DESIGN 9.3).
P.cls('IndexUtils')
P.uninterp('TL', ['atom'], 'int')
P.uninterp('POS', ['atom'], 'int')
P.fn('totallen_of', params=dict(x='atom'), returns='int', ensures=['result == TL(x)', 'result >= 1'], trusted=True, modifies=[])
P.fn('floor_', params=dict(x='real'), returns='int', ensures=['result <= x', 'x < result + 1'], trusted=True, modifies=[])
PARAMS = dict(self='IndexUtils', items='list[atom]', cols='int')
CALLS = {'item.totallen': 'totallen_of', 'int': 'floor_'}
N = 'len(items)'
BASE = ['cols >= 1', 'all(POS(items[i]) == i for i in range(%s))' % N]
LOCALS = {'[]': 'list[atom]', 'entries': 'list[tuple[int,atom]]', 'output': 'list[list[atom]]', 'grandtotal': 'int', 'coltotal': 'int', 'current': 'int'}
E1 = ['len(entries) == %s + 1' % N, 'all(entries[m + 1][1] == items[m] for m in range(%s))' % N, 'entries is not items']
P.fn(FX + 'IndexUtils.splitColumns', name='splitColumns/1', params=PARAMS, returns='list[list[atom]]',
     requires=BASE, stop_after_loop=0, end_ensures=E1 + BASE, allocates=True, modifies=[], calls=CALLS, locals=LOCALS,
     loops={0: Loop(index='i', inv=['fresh(entries)', 'i <= len(items)', 'len(entries) == i + 1', 'all(entries[m + 1][1] == items[m] for m in range(i))'],
                    modifies=[Mod('list:tuple[int,atom]', 'r is entries')])})

# ---- segment 2: the main loop.  E[j] = items[n-1-j]; the columns are built back to front
def col(c):
    return 'output[%s]' % c
J = 'j'
L = 'len(output)'
def chain(direction, placed_lo, placed_hi, first, jname='j'):
    """columns hold runs of consecutive positions; direction -1: positions go down inside a column and from one non-empty column to the
    next (empty columns may sit anywhere in between), +1: they go up"""
    d = '- 1' if direction < 0 else '+ 1'
    return [
        'all(all(%s <= POS(output[c][t]) and POS(output[c][t]) < %s and items[POS(output[c][t])] == output[c][t] for t in range(len(output[c]))) for c in range(%s))' % (placed_lo, placed_hi, L),
        'all(all(POS(output[c][t + 1]) == POS(output[c][t]) %s for t in range(len(output[c]) - 1)) for c in range(%s))' % (d, L),
        'all(implies(len(output[a]) > 0 and len(output[b]) > 0 and all(len(output[m]) == 0 for m in range(a + 1, b)), '
        'POS(output[b][0]) == POS(output[a][len(output[a]) - 1]) %s) for a in range(%s) for b in range(a + 1, %s))' % (d, L, L),
        'all(implies(len(output[a]) > 0 and all(len(output[m]) == 0 for m in range(a)), POS(output[a][0]) == %s) for a in range(%s))' % (first, L)]


SHAPE = ['len(output) >= 1', 'len(output) <= cols', 'fresh(output)', 'all(fresh(output[a]) for a in range(%s))' % L,
         'output is not entries', 'output is not items',
         'all(output[a] is not output[b] for a in range(%s) for b in range(a + 1, %s))' % (L, L),
         'all(output[a] is not items and output[a] is not entries and output[a] is not output for a in range(%s))' % L]
def last2(j):
    return [x.replace('@J', j) for x in LAST2T]


LAST2T = ['implies(@J > 0 and len(output[%s - 1]) > 0, POS(output[%s - 1][len(output[%s - 1]) - 1]) == %s - @J)' % (L, L, L, N),
         'implies(@J > 0 and len(output[%s - 1]) == 0, %s >= 2 and len(output[%s - 2]) > 0 and POS(output[%s - 2][len(output[%s - 2]) - 1]) == %s - @J)' % (L, L, L, L, L, N),
         'implies(@J == 0, all(len(output[a]) == 0 for a in range(%s)))' % L]
CHAIN2 = SHAPE + chain(-1, '%s - j' % N, N, '%s - 1' % N) + last2('j')
SHAPE_NF = [x for x in SHAPE if 'fresh' not in x]
E2 = SHAPE_NF + chain(-1, '0', N, '%s - 1' % N) + last2(N)
ENT2 = ['len(entries) == %s' % N, 'all(entries[m][1] == items[%s - 1 - m] for m in range(%s))' % (N, N), 'entries is not items']
P.fn(FX + 'IndexUtils.splitColumns', name='splitColumns/2', params=PARAMS, returns='list[list[atom]]',
     requires=[], start_after_loop=0, start_assume=E1 + BASE, stop_after_loop=1, heap_consts=True,
     end_ensures=E2 + BASE,
     allocates=True, modifies=[], calls=CALLS, locals=LOCALS,
     loops={1: Loop(index='j', inv=ENT2 + CHAIN2 + ['j <= %s' % N],
                    at_end=['len(output[%s - 1]) >= 0' % L, 'implies(%s >= 2, len(output[%s - 2]) >= 0)' % (L, L), 'implies(%s >= 3, len(output[%s - 3]) >= 0)' % (L, L)], modifies=[Mod('list:list[atom]', 'fresh(r)'), Mod('list:atom', 'fresh(r)')])})

# ---- segment 3: output.reverse(), then every column is reversed in place (loop 2, index i): columns < i run upwards, the others downwards
def lo(c, i):
    return '(POS(output[%s][0]) if %s < %s else POS(output[%s][len(output[%s]) - 1]))' % (c, c, i, c, c)
def hi(c, i):
    return '(POS(output[%s][len(output[%s]) - 1]) if %s < %s else POS(output[%s][0]))' % (c, c, c, i, c)
def mixed(i):
    return [
        'all(all(0 <= POS(output[c][t]) and POS(output[c][t]) < %s and items[POS(output[c][t])] == output[c][t] for t in range(len(output[c]))) for c in range(%s))' % (N, L),
        'all(all(POS(output[c][t + 1]) == POS(output[c][t]) + (1 if c < %s else -1) for t in range(len(output[c]) - 1)) for c in range(%s))' % (i, L),
        'all(implies(len(output[a]) > 0 and len(output[b]) > 0 and all(len(output[m]) == 0 for m in range(a + 1, b)), %s == %s + 1) '
        'for a in range(%s) for b in range(a + 1, %s))' % (lo('b', i), hi('a', i), L, L),
        'all(implies(len(output[a]) > 0 and all(len(output[m]) == 0 for m in range(a)), %s == 0) for a in range(%s))' % (lo('a', i), L),
        'all(implies(len(output[a]) > 0 and all(len(output[m]) == 0 for m in range(a + 1, %s)), %s == %s - 1) for a in range(%s))' % (L, hi('a', i), N, L),
        'implies(%s > 0, len(output[0]) > 0 or (%s >= 2 and len(output[1]) > 0))' % (N, L),
        'implies(%s == 0, all(len(output[a]) == 0 for a in range(%s)))' % (N, L)]
E3 = SHAPE_NF + [
    'all(all(0 <= POS(output[c][t]) and POS(output[c][t]) < %s and items[POS(output[c][t])] == output[c][t] for t in range(len(output[c]))) for c in range(%s))' % (N, L),
    'all(all(POS(output[c][t + 1]) == POS(output[c][t]) + 1 for t in range(len(output[c]) - 1)) for c in range(%s))' % L,
    'all(implies(len(output[a]) > 0 and len(output[b]) > 0 and all(len(output[m]) == 0 for m in range(a + 1, b)), '
    'POS(output[b][0]) == POS(output[a][len(output[a]) - 1]) + 1) for a in range(%s) for b in range(a + 1, %s))' % (L, L),
    'all(implies(len(output[a]) > 0 and all(len(output[m]) == 0 for m in range(a)), POS(output[a][0]) == 0) for a in range(%s))' % L,
    'all(implies(len(output[a]) > 0 and all(len(output[m]) == 0 for m in range(a + 1, %s)), POS(output[a][len(output[a]) - 1]) == %s - 1) for a in range(%s))' % (L, N, L),
    'implies(%s > 0, len(output[0]) > 0 or (%s >= 2 and len(output[1]) > 0))' % (N, L),
    'implies(%s == 0, all(len(output[a]) == 0 for a in range(%s)))' % (N, L)]
P.fn(FX + 'IndexUtils.splitColumns', name='splitColumns/3', params=PARAMS, returns='list[list[atom]]',
     requires=[], start_after_loop=1, start_assume=E2 + BASE, stop_after_loop=2, heap_consts=True,
     end_ensures=E3 + BASE, allocates=True, modifies=[], calls=CALLS, locals=LOCALS,
     loops={2: Loop(index='i', inv=SHAPE_NF + mixed('i') + ['i <= %s' % L, 'output is old(output)'],
                    at_end=['len(output[%s - 1]) >= 0' % L, 'implies(%s >= 2, len(output[1]) >= 0)' % L, 'len(output[0]) >= 0'],
                    modifies=[Mod('list:atom', 'any(r is output[a] for a in range(%s))' % L)])})

# ---- segment 4: empty columns are filtered out, empty ones are appended up to `cols`
def final(R, LR):
    return [
        'len(%s) == cols' % R,
        'all(all(0 <= POS(%s[c][t]) and POS(%s[c][t]) < %s and items[POS(%s[c][t])] == %s[c][t] for t in range(len(%s[c]))) for c in range(%s))' % (R, R, N, R, R, R, LR),
        'all(all(POS(%s[c][t + 1]) == POS(%s[c][t]) + 1 for t in range(len(%s[c]) - 1)) for c in range(%s))' % (R, R, R, LR),
        # empty columns only at the end; consecutive non-empty columns continue the sequence of positions
        'all(implies(len(%s[c]) == 0, len(%s[c + 1]) == 0) for c in range(%s - 1))' % (R, R, LR),
        'all(implies(len(%s[c + 1]) > 0, POS(%s[c + 1][0]) == POS(%s[c][len(%s[c]) - 1]) + 1) for c in range(%s - 1))' % (R, R, R, R, LR),
        # the first column starts with the first item, the last non-empty column ends with the last item
        'implies(%s > 0, len(%s[0]) > 0 and POS(%s[0][0]) == 0)' % (N, R, R),
        'all(implies(len(%s[c]) > 0 and (c + 1 == %s or len(%s[c + 1]) == 0), POS(%s[c][len(%s[c]) - 1]) == %s - 1) for c in range(%s))' % (R, LR, R, R, R, N, LR),
        'implies(%s == 0, all(len(%s[c]) == 0 for c in range(%s)))' % (N, R, LR)]
FIN_INV = [x for x in final('output', L) if not x.startswith('len(output) == cols')]
P.fn(FX + 'IndexUtils.splitColumns', name='splitColumns/4', params=PARAMS, returns='list[list[atom]]',
     requires=[], start_after_loop=2, start_assume=E3 + BASE, heap_consts=True,
     ensures=final('result', 'len(result)'), allocates=True, modifies=[], calls=CALLS, locals=LOCALS,
     loops={3: Loop(index='i', inv=FIN_INV + ['len(output) == cols - (i_hi - i)', 'i <= i_hi or i_hi < 0', 'len(output) <= cols', 'fresh(output)',
                                              'all(output[a] is not output for a in range(%s))' % L],
                    modifies=[Mod('list:list[atom]', 'r is output')])})

P.unverified_surrounding('index.invoke (entry parser), IndexEntry.__lt__, IndexUtils.digest (prefix merge), groups: bounded native checks only')
P.assume('collator / unidecode are library oracles (A4)')

# ---------------------------------------------------------------------------------------------- groups: letter groups (first loop; the second
# loop hands every group to splitColumns, proved above)
P.cls('Item', fields=dict(sortkey='str'))
P.cls('IndexList', elem='Item', fields={})
P.cls('IndexGroup', elem='Item', fields=dict(title='str?', id='str'))
P.uninterp('IPOS', ['Item'], 'int')          # ghost labelling of the children by their index
P.uninterp('UNI', ['str'], 'str')            # unidecode
LETTERS_ = 'abcdefghijklmnopqrstuvwxyzABCDEFGHIJKLMNOPQRSTUVWXYZ'
P.fn('unidecode_', params=dict(s='str'), returns='str', ensures=['result == UNI(s)'], trusted=True, modifies=[], notes='unidecode (A4)')
P.fn('stringletters_', params={}, returns='str', ensures=['result == "%s"' % LETTERS_], trusted=True, modifies=[], notes='encoding.stringletters(): the ASCII letters')
P.fn('new_group', params={}, returns='IndexGroup', trusted=True, allocates=True, modifies=[], ensures=['fresh(result)', 'len(result) == 0'],
     notes='self.IndexGroup(): a new empty group')


@P.spec
def HEADING(k: 'str') -> 'str':
    """the heading an entry with sort key k is filed under: its (transliterated, upper-cased) initial when that is a letter, a heading of
    its own for the underscore, Symbols for everything else and for the empty key"""
    if len(k) == 0:
        return "Symbols"
    if str_upper(UNI(k[0:1])) != "" and str_upper(UNI(k[0:1])) in "abcdefghijklmnopqrstuvwxyzABCDEFGHIJKLMNOPQRSTUVWXYZ":
        return str_upper(UNI(k[0:1]))
    if str_upper(UNI(k[0:1])) == "_":
        return "_ (Underscore)"
    return "Symbols"


NB = 'len(batches)'
def groups_facts(upto):
    return [
        'all(len(batches[g]) > 0 for g in range(%s))' % NB,
        'all(all(0 <= IPOS(batches[g][t]) and IPOS(batches[g][t]) < %s and self[IPOS(batches[g][t])] is batches[g][t] for t in range(len(batches[g]))) for g in range(%s))' % (upto, NB),
        # members of a group are consecutive children, consecutive groups continue the sequence, the first starts with the first child
        'all(all(IPOS(batches[g][t + 1]) == IPOS(batches[g][t]) + 1 for t in range(len(batches[g]) - 1)) for g in range(%s))' % NB,
        'all(IPOS(batches[g + 1][0]) == IPOS(batches[g][len(batches[g]) - 1]) + 1 for g in range(%s - 1))' % NB,
        'implies(%s > 0, IPOS(batches[0][0]) == 0)' % NB,
        'implies(%s > 0, %s > 0 and IPOS(batches[%s - 1][len(batches[%s - 1]) - 1]) == %s - 1)' % (upto, NB, NB, NB, upto),
        'implies(%s == 0, %s == 0)' % (upto, NB),
        # every member is filed under its group's heading; neighbouring groups have different headings
        'all(not isnone(batches[g].title) and all(HEADING(batches[g][t].sortkey) == unopt(batches[g].title) for t in range(len(batches[g]))) for g in range(%s))' % NB,
        'all(unopt(batches[g].title) != unopt(batches[g + 1].title) for g in range(%s - 1))' % NB]


P.fn(FX + 'IndexUtils.groups', name='IndexUtils.groups/partition', params=dict(self='IndexList'), returns='list[IndexGroup]',
     requires=['all(not isnone(self[i]) and IPOS(self[i]) == i for i in range(len(self)))'],
     stop_after_loop=0, end_ensures=groups_facts('len(self)'),
     allocates=True, skip_frame=True, heap_consts=True, solver_ms=120000, locals={'[]': 'list[IndexGroup]', 'batches': 'list[IndexGroup]'},
     calls={'unidecode': 'unidecode_', 'encoding.stringletters': 'stringletters_', 'self.IndexGroup': 'new_group'},
     loops={0: Loop(index='j', inv=groups_facts('j') + [
         'j <= len(self)', 'fresh(batches)', 'all(fresh(batches[g]) and batches[g] is not batches for g in range(%s))' % NB,
         'all(batches[a] is not batches[b] for a in range(%s) for b in range(a + 1, %s))' % (NB, NB),
         'implies(%s > 0, current == unopt(batches[%s - 1].title))' % (NB, NB), 'implies(%s == 0, current == "")' % NB,
         'all(unopt(batches[g].title) != "" for g in range(%s))' % NB],
         at_end=['len(batches[%s - 1]) >= 1' % NB, 'HEADING(self[j - 1].sortkey) == current', 'current == unopt(batches[%s - 1].title)' % NB,
                 'batches[%s - 1][len(batches[%s - 1]) - 1] is self[j - 1]' % (NB, NB)],
         modifies=[Mod('list:IndexGroup', 'fresh(r)'), Mod('list:Item', 'fresh(r)'), Mod('title', 'fresh(r)'), Mod('id', 'fresh(r)')])})

# ---------------------------------------------------------------------------------------------- Index.totallen (what splitColumns balances by)
# the number of entries an entry generates = the number of nodes of its subtree: itself plus, recursively, its sub-entries
P.cls('INode', elem='INode', fields=dict(depth='int'))


@P.spec(fuel=1, heap=True)
def SUBTOT(n: 'INode', j: 'int') -> 'int':
    """nodes of the subtrees of the first j sub-entries of n"""
    if j <= 0:
        return 0
    return SUBTOT(n, j - 1) + TOT(n[j - 1])


@P.spec(fuel=1, heap=True)
def TOT(n: 'INode') -> 'int':
    return 1 + SUBTOT(n, len(n))


P.fn(FX + 'IndexUtils.Index.totallen', name='Index.totallen', params=dict(self='INode'), returns='int', kind='property',
     # the entries form a tree: a sub-entry is strictly deeper than its parent (ghost depth bounded by `bound`): termination
     requires=['all(not isnone(self[i]) for i in range(len(self)))', 'self.depth >= 0',
               'all(implies(allocated(x), all(not isnone(x[i]) and x[i].depth < x.depth and x[i].depth >= 0 for i in range(len(x)))) for x in Refs("INode"))'],
     ensures=['result == TOT(self)', 'result >= 1'],
     decreases='self.depth', modifies=[],
     calls={'item.totallen': 'Index.totallen'},
     loops={0: Loop(index='i', inv=['i <= len(self)', 'total == 1 + SUBTOT(self, i)', 'total >= 1'],
                    at_end=['unfold(SUBTOT(self, i)) == SUBTOT(self, i)'])},
     at_exit=['unfold(TOT(self)) == TOT(self)'])
