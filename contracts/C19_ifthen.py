"""C19 -- ifthen tests evaluate as the boolean expression they spell (plasTeX/Packages/ifthen.py)."""
import ast
import z3
from pyvc.dsl import Prop, Loop, Mod
from pyvc import ty as T

P = Prop('C19', 'ifthen tests evaluate as the boolean expression they spell')
F = 'plasTeX/Packages/ifthen.py::'

# token universe of a test expression: character tokens, truth tokens, numbers, operator commands
P.cls('Item', fields=dict(text='str', state='bool', ival='int', catcode='int', nodeName='str'))
P.cls('Token', bases=['Item'])
P.cls('_boolToken', bases=['Token'])
P.cls('_true', bases=['_boolToken'])
P.cls('_false', bases=['_boolToken'])
P.cls('number', bases=['Item'])
P.cls('Command', bases=['Item'])
for c in ('_and', 'AND', '_or', 'OR', '_not', 'NOT'):
    P.cls(c, bases=['Command'])
P.cls('ifthenelse', bases=['Command'])
P.cls('TeX')


def hook_eq(ex, a, b, st):
    """Python's == on the token universe: Token vs str compares text; number vs number compares values; a Command
    or a number never equals a str (list / int equality, ground-checked in native/C19.py)."""
    ta, tb = a.t, b.t
    if isinstance(ta, T.Ref) and isinstance(tb, T._Str):
        return z3.And(ex.eng.instance_of(a.z, 'Token'), z3.Select(st.h(ex.eng.k_field('text')), a.z) == b.z)
    if isinstance(tb, T.Ref) and isinstance(ta, T._Str):
        return hook_eq(ex, b, a, st)
    if isinstance(ta, T.Ref) and isinstance(tb, T.Ref):
        iv = st.h(ex.eng.k_field('ival'))
        both_num = z3.And(ex.eng.instance_of(a.z, 'number'), ex.eng.instance_of(b.z, 'number'))
        if not ex.spec and ex.infeasible(st, z3.Not(both_num)):
            return z3.Select(iv, a.z) == z3.Select(iv, b.z)
        return z3.If(both_num, z3.Select(iv, a.z) == z3.Select(iv, b.z), a.z == b.z)
    return None


def hook_cmp(ex, op, a, b, st):
    if isinstance(a.t, T.Ref) and isinstance(b.t, T.Ref):
        iv = st.h(ex.eng.k_field('ival'))
        x, y = z3.Select(iv, a.z), z3.Select(iv, b.z)
        if isinstance(op, ast.Gt):
            return x > y
        if isinstance(op, ast.Lt):
            return x < y
        if isinstance(op, ast.GtE):
            return x >= y
        if isinstance(op, ast.LtE):
            return x <= y
    return None


P.hook_eq = hook_eq
P.hook_cmp = hook_cmp

P.fn(F + 'ifthenelse.prec', name='ifthenelse.prec', params=dict(self='ifthenelse', tok='Item'), returns='int',
     ensures=['result == (3 if (isinstance(tok, Token) and (tok.text == ">" or tok.text == "<" or tok.text == "=")) else '
              '2 if isinstance(tok, (_not, NOT)) else 1 if isinstance(tok, (_and, AND, _or, OR)) else 0)',
              # the statement: comparisons bind tighter than \\not, \\not tighter than \\and / \\or, which are equal
              '0 <= result and result <= 3'])

P.fn('_true.__init__', params=dict(self='_true'), returns='none', ensures=['self.state'], modifies=[Mod('state', 'r is self')], trusted=True,
     notes='class attribute _true.state = True (ground/bool-token-states)')
P.fn('_false.__init__', params=dict(self='_false'), returns='none', ensures=['not self.state'], modifies=[Mod('state', 'r is self')], trusted=True,
     notes='class attribute _false.state = False (ground/bool-token-states)')


# ---------------------------------------------------------------- A.13 postfix evaluation: the usual stack machine on values
@P.spec(heap=True)
def VALOF(x: 'Item') -> 'tuple[int,int]':
    """(tag, value): tag 0 = truth value (by the token's state), 1 = number (its integer value), 2 = anything else."""
    if isinstance(x, _boolToken):
        return (0, 1 if x.state else 0)
    if isinstance(x, number):
        return (1, x.ival)
    return (2, 0)


@P.spec(heap=True)
def KIND(t: 'Item') -> 'int':
    """0 truth token, 1 number, 2 and, 3 or, 4 not, 5 '>', 6 '<', 7 '=', 8 anything else (ignored)."""
    if isinstance(t, _boolToken):
        return 0
    if isinstance(t, number):
        return 1
    if isinstance(t, (_and, AND)):
        return 2
    if isinstance(t, (_or, OR)):
        return 3
    if isinstance(t, (_not, NOT)):
        return 4
    if isinstance(t, Token) and t.text == ">":
        return 5
    if isinstance(t, Token) and t.text == "<":
        return 6
    if isinstance(t, Token) and t.text == "=":
        return 7
    return 8


@P.spec
def STEPOK(s: 'seq[tuple[int,int]]', k: 'int') -> 'bool':
    """The operation of kind k is applicable to value stack s (well-formedness of the postfix sequence)."""
    if k == 2 or k == 3:
        return len(s) >= 2 and s[len(s) - 1][0] == 0 and s[len(s) - 2][0] == 0
    if k == 4:
        return len(s) >= 1 and s[len(s) - 1][0] == 0
    if k == 5 or k == 6 or k == 7:
        return len(s) >= 2 and s[len(s) - 1][0] == 1 and s[len(s) - 2][0] == 1
    return True


@P.spec
def STEPV(s: 'seq[tuple[int,int]]', k: 'int', v: 'tuple[int,int]') -> 'seq[tuple[int,int]]':
    """Value stack after an item of kind k (with value v if it is an atom)."""
    if k == 0 or k == 1:
        return s + [v]
    if k == 2:
        return s[:len(s) - 2] + [(0, 1 if (s[len(s) - 1][1] == 1 and s[len(s) - 2][1] == 1) else 0)]
    if k == 3:
        return s[:len(s) - 2] + [(0, 1 if (s[len(s) - 1][1] == 1 or s[len(s) - 2][1] == 1) else 0)]
    if k == 4:
        return s[:len(s) - 1] + [(0, 0 if s[len(s) - 1][1] == 1 else 1)]
    if k == 5:
        return s[:len(s) - 2] + [(0, 1 if s[len(s) - 2][1] > s[len(s) - 1][1] else 0)]
    if k == 6:
        return s[:len(s) - 2] + [(0, 1 if s[len(s) - 2][1] < s[len(s) - 1][1] else 0)]
    if k == 7:
        return s[:len(s) - 2] + [(0, 1 if s[len(s) - 2][1] == s[len(s) - 1][1] else 0)]
    return s


P.uninterp('KINDS', [], 'seq[int]')                  # ghost: kinds of the postfix queue at segment entry
P.uninterp('VALS', [], 'seq[tuple[int,int]]')       # ghost: values of its atoms


@P.spec(fuel=1)
def SEMV(n: 'int', s0: 'seq[tuple[int,int]]') -> 'seq[tuple[int,int]]':
    """Value stack after the first n items of the queue (KINDS, VALS), starting from s0."""
    if n <= 0:
        return s0
    return STEPV(SEMV(n - 1, s0), KINDS()[n - 1], VALS()[n - 1])


@P.spec(fuel=1)
def SEMOK(n: 'int', s0: 'seq[tuple[int,int]]') -> 'bool':
    if n <= 0:
        return True
    return SEMOK(n - 1, s0) and STEPOK(SEMV(n - 1, s0), KINDS()[n - 1])


P.lemma('MONO', dict(n='int', m='int', s0='seq[tuple[int,int]]'),
        requires=['0 <= n', 'n <= m', 'SEMOK(m, s0)'], ensures=['SEMOK(n, s0)'], decreases='m - n',
        body="""
if n < m:
    MONO(n, m - 1, s0)
""")

ABS = '[VALOF(x) for x in stack]'
N0 = 'old(len(postfix))'
P.fn(F + 'ifthenelse.evaluate', name='evaluate/postfix-phase',
     params=dict(self='ifthenelse', tex='TeX', test='list[Item]'), returns='_boolToken',
     start_loop=5, locals=dict(stack='list[Item]', postfix='list[Item]'),
     start_assume=['stack is not postfix', 'len(stack) == 0',
                   'len(KINDS()) == len(postfix)', 'len(VALS()) == len(postfix)',
                   'all(KINDS()[k] == KIND(postfix[k]) and VALS()[k] == VALOF(postfix[k]) for k in range(len(postfix)))',
                   'all(implies(isinstance(postfix[k], _true), postfix[k].state) and implies(isinstance(postfix[k], _boolToken) and not isinstance(postfix[k], _true), not postfix[k].state) for k in range(len(postfix)))',
                   # well-formed postfix sequence: the stack machine never gets stuck
                   'SEMOK(len(postfix), ' + ABS + ')'],
     ensures=['implies(len(SEMV(' + N0 + ', old(' + ABS + '))) >= 1 and SEMV(' + N0 + ', old(' + ABS + '))[len(SEMV(' + N0 + ', old(' + ABS + '))) - 1][0] == 0, '
              'result.state == (SEMV(' + N0 + ', old(' + ABS + '))[len(SEMV(' + N0 + ', old(' + ABS + '))) - 1][1] == 1))',
              'implies(not (len(SEMV(' + N0 + ', old(' + ABS + '))) >= 1 and SEMV(' + N0 + ', old(' + ABS + '))[len(SEMV(' + N0 + ', old(' + ABS + '))) - 1][0] == 0), not result.state)'],
     allocates=True, modifies=[Mod('list:Item', 'r is stack or r is postfix'), Mod('state', 'False')],
     loops={5: Loop(inv=[
         'stack is not postfix', 'len(postfix) <= ' + N0,
         'all(postfix[k] is old(seq(postfix))[k + ' + N0 + ' - len(postfix)] for k in range(len(postfix)))',
         'all(implies(isinstance(stack[k], _true), stack[k].state) and implies(isinstance(stack[k], _boolToken) and not isinstance(stack[k], _true), not stack[k].state) for k in range(len(stack)))',
         ABS + ' == SEMV(' + N0 + ' - len(postfix), old(' + ABS + '))',
     ], at_head=['implies(len(postfix) >= 1, MONO(' + N0 + ' - len(postfix) + 1, ' + N0 + ', old(' + ABS + ')))',
                 'implies(len(postfix) >= 1, KINDS()[' + N0 + ' - len(postfix)] == KIND(postfix[0]))',
                 'implies(len(postfix) >= 1, VALS()[' + N0 + ' - len(postfix)] == VALOF(postfix[0]))',
                 'implies(len(postfix) >= 1, STEPOK(SEMV(' + N0 + ' - len(postfix), old(' + ABS + ')), KINDS()[' + N0 + ' - len(postfix)]))',
                 'implies(len(postfix) >= 1, SEMV(' + N0 + ' - len(postfix) + 1, old(' + ABS + ')) == STEPV(SEMV(' + N0 + ' - len(postfix), old(' + ABS + ')), KINDS()[' + N0 + ' - len(postfix)], VALS()[' + N0 + ' - len(postfix)]))',
                 ], decreases='len(postfix)', modifies=[Mod('list:Item', 'r is stack or r is postfix'), Mod('state', 'False')])})

# ---------------------------------------------------------------- atoms producing truth tokens
P.cls('isodd', bases=['Command'])
P.cls('equal', bases=['Command'])
P.cls('AttrsI', fields={})
P.cls('AttrsS', fields={})
P.uninterp('ARG_number', ['isodd'], 'int?')
P.fn('isodd.parse', params=dict(self='isodd', tex='TeX'), returns='dict[str,int?]',
     ensures=['"number" in result', 'result["number"] == ARG_number(self)'], allocates=True, trusted=True,
     notes='Macro.parse binds the declared argument names (C05)')
P.fn(F + 'isodd.invoke', name='isodd.invoke', params=dict(self='isodd', tex='TeX'), returns='list[Item]',
     ensures=['len(result) == 1', 'isinstance(result[0], _boolToken)',
              # TeX's oddness: n is odd iff n mod 2 == 1 with the mathematical (non-negative) remainder
              'result[0].state == (not isnone(ARG_number(self)) and unopt(ARG_number(self)) % 2 == 1)'],
     allocates=True, modifies=[Mod('state', 'False'), Mod('list:Item', 'False')], calls={'self.parse': 'isodd.parse'})
P.uninterp('ARG_first', ['equal'], 'str')
P.uninterp('ARG_second', ['equal'], 'str')
P.fn('equal.parse', params=dict(self='equal', tex='TeX'), returns='dict[str,str]',
     ensures=['"first" in result', '"second" in result', 'result["first"] == ARG_first(self)', 'result["second"] == ARG_second(self)'],
     allocates=True, trusted=True)
P.fn(F + 'equal.invoke', name='equal.invoke', params=dict(self='equal', tex='TeX'), returns='list[Item]',
     ensures=['len(result) == 1', 'isinstance(result[0], _boolToken)', 'result[0].state == (ARG_first(self) == ARG_second(self))'],
     allocates=True, modifies=[Mod('state', 'False'), Mod('list:Item', 'False')], calls={'self.parse': 'equal.parse'})

# ---------------------------------------------------------------------------------------------- \\lengthtest{A rel B}
P.cls('lengthtest', bases=['Command'])
P.ghost('nrd', 'int')
P.uninterp('DIM_A', [], 'real')
P.uninterp('DIM_B', [], 'real')
P.uninterp('RELTOK', [], 'Item')
P.fn('lengthtest.parse', params=dict(self='lengthtest', tex='TeX'), returns='dict[str,Item]', ensures=['"test" in result'], allocates=True, trusted=True,
     notes='Macro.parse binds the declared argument names (C05)')
P.fn('TeX.pushTokens/l', params=dict(self='TeX', toks='opaque'), returns='none', trusted=True, modifies=[])
P.fn('TeX.readDimen/l', params=dict(self='TeX'), returns='real', trusted=True, modifies=[],
     ensures=['result == (DIM_A() if old(ghost("nrd")) == 0 else DIM_B())'], ghost_sets={'nrd': 'ghost("nrd") + 1'},
     notes='TeX.readDimen (C05): the first call reads the left length, the second the right one')
P.fn('next_token', params=dict(it='opaque'), returns='Item', trusted=True, modifies=[], ensures=['result is RELTOK()', 'not isnone(result)'],
     notes='next(tex.itertokens()): the relation character between the two lengths')
P.fn('TeX.itertokens/l', params=dict(self='TeX'), returns='opaque', trusted=True, modifies=[])
ISREL = lambda ch: '(isinstance(RELTOK(), Token) and RELTOK().text == "%s")' % ch
P.fn(F + 'lengthtest.invoke', name='lengthtest.invoke', params=dict(self='lengthtest', tex='TeX'), returns='list[Item]',
     requires=['ghost("nrd") == 0'],
     ensures=['len(result) == 1', 'isinstance(result[0], _boolToken)',
              # the comparison the test spells (TeX compares integers of scaled points, plasTeX computes lengths in floating point)
              # lengths closer than one millionth of a scaled point are the same length; then exactly one of < = > holds
              'implies(%s, result[0].state == (DIM_B() - DIM_A() >= 0.000001))' % ISREL('<'),
              'implies(%s, result[0].state == (DIM_A() - DIM_B() >= 0.000001))' % ISREL('>'),
              'implies(%s, result[0].state == (DIM_A() - DIM_B() < 0.000001 and DIM_B() - DIM_A() < 0.000001))' % ISREL('=')],
     raises={'ValueError': 'iff:not (%s or %s or %s)' % (ISREL('<'), ISREL('>'), ISREL('='))},
     allocates=True, modifies=[Mod('state', 'False'), Mod('list:Item', 'False')],
     calls={'self.parse': 'lengthtest.parse', 'tex.pushTokens': 'TeX.pushTokens/l', 'tex.readDimen': 'TeX.readDimen/l', 'next': 'next_token',
            'tex.itertokens': 'TeX.itertokens/l'})

P.assume('A5: the test expression reaching evaluate() is the expanded token list (expansion loop not verified)')
P.assume('token equality: a Command or number never equals a str; Token == str compares text (ground/token-eq in native/C19.py)')
P.unverified_surrounding('evaluate(), infix-to-postfix phase: bounded check (native/C19.py bounded/infix), not proved')
P.unverified_surrounding('ifthenelse.invoke / whiledo.invoke argument parsing and expansion (tex.expandTokens): call protocol only')
P.unverified_surrounding('boolean / isundefined (context lookups); lengthtest: the lengths themselves are read by TeX.readDimen in floating point (A3)')
