"""C13 -- rendering splits the document into files without losing or repeating content: which nodes get a file
(plasTeX/Renderers/__init__.py Renderable.filename, Renderer.cacheFilenames, the split rule of Renderer.render)."""
from pyvc.dsl import Prop, Loop, Mod

P = Prop('C13', 'Rendering splits the document into files without losing or repeating content')
FR = 'plasTeX/Renderers/__init__.py::'
P.optional_attrs = ('filenameoverride',)
P.cls('NodeClass', fields=dict(renderer='Renderer'))
P.global_obj('Node', 'NodeClass')
P.cls('Gen', fields=dict(variables='dict[str,str]'))                        # a Filenames generator object
P.cls('Renderer', fields=dict(files='dict[RNode,str?]', level='int', newFilename='Gen', fileExtension='str'))
P.cls('Titled', fields=dict(textContent='str'))
P.cls('Doc', fields=dict(userdata='dict[str,str]', config='dict[str,dict[str,str]]'))
P.cls('RNode', fields=dict(filenameoverride='str', ownerDocument='Doc', config='Any', splitlevel='int', level='int', id='str',
                           title='Titled', ref='Titled', nodeName='str'))
P.cls('Any')
P.fields['@hasgenid'] = 'bool?'
P.field_variants['@hasgenid'] = {'RNode': 'bool?'}
P.uninterp('NEXTNAME', ['Gen'], 'str')      # the name the generator issues next (C15: distinct from all issued / reserved names)
P.ghost('ncalls', 'int')
P.fn('Gen.__call__', params=dict(self='Gen'), returns='str', ensures=['result == NEXTNAME(self)'],
     ghost_sets={'ncalls': 'ghost("ncalls") + 1'}, allocates=True, trusted=True, notes='Filenames.__call__ (C15)')
P.fn('Filenames', params=dict(spec='str', charsub='tuple[str,str]', variables='dict[str,str]', extension='str'), returns='Gen',
     ensures=['fresh(result)'], allocates=True, trusted=True, notes='Filenames(...) constructor (C15)')

NOCHANGE = 'all((x in r_files()) == old(x in r_files()) and r_files()[x] == old(r_files()[x]) for x in Refs("RNode"))'.replace('r_files()', 'Node.renderer.files')
RF = 'Node.renderer.files'
CACHED = 'old(self in %s)' % RF
HASOV = 'old(hasattr(self, "filenameoverride"))'
SPLIT = '(self.splitlevel if hasattr(self, "splitlevel") else Node.renderer.level)'
P.fn(FR + 'Renderable.filename', name='Renderable.filename', params=dict(self='RNode'), returns='str?', kind='property',
     requires=['ghost("ncalls") == 0',
               'implies(hasattr(self, "filenameoverride"), "files" in self.ownerDocument.config and "bad-chars" in self.ownerDocument.config["files"] '
               'and "bad-chars-sub" in self.ownerDocument.config["files"] and not isnone(self.ownerDocument.config["files"]))'],
     ensures=[
         # cached and deterministic: a second access returns what the first one stored and requests no new name
         'implies(%s, result == old(%s[self]) and ghost("ncalls") == 0 and %s)' % (CACHED, RF, NOCHANGE),
         # explicit override: non-empty -> first name of a private generator (stored); empty -> no file
         'implies(not %s and %s and old(self.filenameoverride) != "", not isnone(result) and self in %s and %s[self] == result and ghost("ncalls") == 1)' % (CACHED, HASOV, RF, RF),
         'implies(not %s and %s and old(self.filenameoverride) == "", isnone(result) and ghost("ncalls") == 0)' % (CACHED, HASOV),
         # otherwise: a file iff the node has a config and its level is at or above the split level
         'implies(not %s and not %s and (not hasattr(self, "config") or self.level > %s), isnone(result) and ghost("ncalls") == 0 and %s)' % (CACHED, HASOV, SPLIT, NOCHANGE),
         'implies(not %s and not %s and hasattr(self, "config") and self.level <= %s, '
         'not isnone(result) and result == NEXTNAME(Node.renderer.newFilename) and %s[self] == result and ghost("ncalls") == 1)' % (CACHED, HASOV, SPLIT, RF),
         # at most one name is ever requested per access, and only this node's cache entry may change
         'ghost("ncalls") <= 1',
         'all(implies(x is not self, (x in %s) == old(x in %s) and %s[x] == old(%s[x])) for x in Refs("RNode"))' % (RF, RF, RF, RF),
     ],
     allocates=True, skip_frame=True, calls={'Filenames': 'Filenames'})
P.unverified_surrounding('templates emitting each child exactly once, footnote gathering, Renderable.__str__ routing: bounded native rendering check (bounded/render-split)')

# ---------------------------------------------------------------------------------------------- the split level chosen by Renderer.render
# (prefix of the function up to its first loop): a filename template that names a single file - no blank, no bracket - forces
# everything into one file (level -10); otherwise the configured split level is used
P.cls('Config')
P.cls('RDoc', fields=dict(config='dict[str,dict[str,Any2]]', userdata='dict[str,str]'))
P.cls('Any2', universal=True)
P.uninterp('CFG_SPLIT', [], 'int')
P.uninterp('CFG_TEMPLATE', [], 'str')
P.fn('cfg_split', params={}, returns='int', ensures=['result == CFG_SPLIT()'], trusted=True, modifies=[], notes='config["files"]["split-level"]')
P.fn('cfg_template_strip', params={}, returns='str', ensures=['result == str_strip(CFG_TEMPLATE())'], trusted=True, modifies=[],
     notes='config["files"]["filename"].strip()')
P.fn('opaque_call', params=dict(a='opaque=0', b='opaque=0', c='opaque=0', d='opaque=0'), returns='opaque', trusted=True, allocates=True, modifies=[])
P.fn('Renderer.keys', params=dict(self='Renderer'), returns='list[str]', trusted=True, allocates=True, modifies=[])
P.fn('Renderer.cacheFilenames', params=dict(self='Renderer', node='opaque'), returns='none', trusted=True, allocates=True,
     modifies=[Mod('dict:RNode,str?', 'True')], ensures=['self.level == old(self.level)'])
T_ = 'str_strip(CFG_TEMPLATE())'
P.fn(FR + 'Renderer.render', name='Renderer.render/level', params=dict(self='Renderer', document='opaque', postProcess='opaque=0'), returns='none',
     stop_before_loop=0, locals={'names': 'list[str]'},
     end_ensures=['self.level == (-10 if (" " not in %s and "[" not in %s) else CFG_SPLIT())' % (T_, T_)],
     allocates=True, skip_frame=True,
     calls={"config['files']['split-level']": 'cfg_split', "config['files']['filename'].strip": 'cfg_template_strip', 'self.keys': 'Renderer.keys',
            'mixin': 'opaque_call', 'Filenames': 'Filenames/o', "config['images']['imager'].split": 'Renderer.keys/o', 'self.cacheFilenames': 'Renderer.cacheFilenames', 'document.config': 'opaque_call'})
P.fn('Renderer.keys/o', params={}, returns='list[str]', trusted=True, allocates=True, modifies=[])
P.fn('Filenames/o', params=dict(a='opaque=0', b='opaque=0', c='opaque=0', d='opaque=0'), returns='Gen', ensures=['fresh(result)'], trusted=True, allocates=True, modifies=[])
