"""C02 -- macro definitions expand exactly as TeX's substitution rules say: parameter substitution into the body (expandDef)."""
from pyvc.dsl import Prop, Loop, Mod

P = Prop('C02', "Macro definitions expand exactly as TeX's substitution rules say")
FI = 'plasTeX/__init__.py::'
P.cls('Any', universal=True, elem='Any', fields=dict(catcode='int', nodeType='int', text='str'))
P.cls('TokIter', fields=dict(pos='int', src='list[Any]'))
P.const('Token.CC_PARAMETER', 6)

# ghost description of the body and the actual arguments (pure sequences fixed at entry): category and numeric value of each body
# token, length of each actual argument (-1: absent)
P.uninterp('DC', [], 'seq[int]')
P.uninterp('DN', [], 'seq[int]')
P.uninterp('PL', [], 'seq[int]')
P.uninterp('int_of', ['Any'], 'int')


@P.spec(fuel=1)
def SEC(j: 'int') -> 'bool':
    """body token j is the second token of a #-pair (## or #n)"""
    return j >= 1 and j < len(DC()) and DC()[j - 1] == 6 and not SEC(j - 1)


@P.spec
def UNIT(j: 'int') -> 'int':
    """number of tokens the unit starting at body position j contributes: an ordinary token itself, ## one #, #n the n-th argument"""
    if DC()[j] != 6:
        return 1
    if j + 1 >= len(DC()):
        return 0
    if DC()[j + 1] == 6:
        return 1
    if 0 <= DN()[j + 1] and DN()[j + 1] < len(PL()) and PL()[DN()[j + 1]] >= 0:
        return PL()[DN()[j + 1]]
    return 0


@P.spec(fuel=1)
def OFF(j: 'int') -> 'int':
    """length of the expansion of the body tokens before position j"""
    if j <= 0:
        return 0
    return OFF(j - 1) + (0 if SEC(j - 1) else UNIT(j - 1))


def hook_eq(ex, a, b, st):
    import z3
    from pyvc import ty as T
    if isinstance(a.t, T.Ref) and isinstance(b.t, T._Str):
        nt = st.h(ex.eng.k_field('nodeType'))
        return z3.And(a.z != 0, z3.Select(nt, a.z) != 1, z3.Select(st.h(ex.eng.k_field('text')), a.z) == b.z)
    if isinstance(b.t, T.Ref) and isinstance(a.t, T._Str):
        return hook_eq(ex, b, a, st)
    return None


P.hook_eq = hook_eq
P.fn('iter_list', params=dict(x='list[Any]'), returns='TokIter', trusted=True, allocates=True, modifies=[],
     ensures=['fresh(result)', 'result.pos == 0', 'result.src is x'], notes='iter(list): a list iterator')
P.fn('TokIter.__next__', params=dict(self='TokIter'), returns='Any', raises={'StopIteration': 'iff:self.pos >= len(self.src)'},
     ensures=['result is self.src[old(self.pos)]', 'self.pos == old(self.pos) + 1'], modifies=[Mod('pos', 'r is self')], trusted=True,
     notes='list iterator protocol')
P.fn('int_', params=dict(t='Any'), returns='int', trusted=True, ensures=['result == int_of(t)', 'result >= 0'], raises={'ValueError': 'True'},
     notes='int(token): numeric value of a digit token (ValueError otherwise)')
P.fn('BeginGroup', params=dict(ch='str'), returns='Any', trusted=True, allocates=True, modifies=[], ensures=['fresh(result)'])
P.fn('EndGroup', params=dict(ch='str'), returns='Any', trusted=True, allocates=True, modifies=[], ensures=['fresh(result)'])
N = 'len(definition)'
WFBODY = ['len(DC()) == %s' % N, 'len(DN()) == %s' % N, 'len(PL()) == len(params)',
          'all(not isnone(definition[i]) and DC()[i] == definition[i].catcode and DN()[i] == int_of(definition[i]) for i in range(%s))' % N,
          'all(PL()[n] == (-1 if isnone(params[n]) else len(params[n])) for n in range(len(params)))',
          'all(PL()[n] >= -1 for n in range(len(PL())))',
          # no \ifx in the body (the documented exception: an argument directly after \ifx is wrapped in a brace pair)
          'all(not (definition[i].nodeType != 1 and definition[i].text == "ifx") for i in range(%s))' % N,
          'all(implies(not isnone(params[n]), params[n] is not definition) for n in range(len(params)))']
SRC = 'old(seq(definition))'
BASE = ['fresh(output)', 'fresh(definition)', 'definition.src is old(definition)', '0 <= definition.pos', 'definition.pos <= len(definition.src)',
        'output is not definition.src', 'all(implies(not isnone(params[n]), params[n] is not output) for n in range(len(params)))']


def placed(upto):
    """every unit that starts before body position `upto` is in the output at its offset"""
    S = 'definition.src'
    return ['all(implies(not SEC(j), 0 <= OFF(j) and OFF(j) + UNIT(j) <= len(output)) for j in range(%s))' % upto,
            'all(implies(not SEC(j) and DC()[j] != 6, output[OFF(j)] is %s[j]) for j in range(%s))' % (S, upto),
            'all(implies(not SEC(j) and DC()[j] == 6 and j + 1 < len(%s) and DC()[j + 1] == 6, output[OFF(j)] is %s[j + 1]) for j in range(%s))' % (S, S, upto),
            'all(implies(not SEC(j) and DC()[j] == 6 and j + 1 < len(%s) and DC()[j + 1] != 6 and 0 <= DN()[j + 1] and DN()[j + 1] < len(params) '
            'and not isnone(params[DN()[j + 1]]), all(output[OFF(j) + q] is params[DN()[j + 1]][q] for q in range(len(params[DN()[j + 1]])))) '
            'for j in range(%s))' % (S, upto)]


P.fn(FI + 'expandDef', name='expandDef', params=dict(definition='list[Any]', params='list[list[Any]?]'), returns='list[Any]',
     requires=WFBODY,
     ensures=['len(result) == OFF(%s)' % N,
              # every unit of the body lands at its offset: ordinary tokens and ## copied, #n replaced by the n-th argument, in order
              'all(implies(not SEC(j) and DC()[j] != 6, result[OFF(j)] is definition[j]) for j in range(%s))' % N,
              'all(implies(not SEC(j) and DC()[j] == 6 and j + 1 < %s and DC()[j + 1] == 6, result[OFF(j)] is definition[j + 1]) for j in range(%s))' % (N, N),
              'all(implies(not SEC(j) and DC()[j] == 6 and j + 1 < %s and DC()[j + 1] != 6 and 0 <= DN()[j + 1] and DN()[j + 1] < len(params) '
              'and not isnone(params[DN()[j + 1]]), all(result[OFF(j) + q] is params[DN()[j + 1]][q] for q in range(len(params[DN()[j + 1]])))) '
              'for j in range(%s))' % (N, N)],
     raises={'ValueError': 'True'},
     allocates=True, modifies=[], locals={'[]': 'list[Any]'}, solver_ms=120000,
     calls={'iter': 'iter_list', 'int': 'int_', 'BeginGroup': 'BeginGroup', 'EndGroup': 'EndGroup'},
     loops={0: Loop(inv=BASE + ['not SEC(definition.pos)', 'len(output) == OFF(definition.pos)', 'not (previous == "ifx")'] + placed('definition.pos'),
                    at_end=['unfold(OFF(definition.pos)) == OFF(definition.pos)', 'unfold(OFF(definition.pos - 1)) == OFF(definition.pos - 1)',
                            'unfold(SEC(definition.pos - 1)) == SEC(definition.pos - 1)', 'unfold(SEC(definition.pos)) == SEC(definition.pos)',
                            'unfold(SEC(definition.pos - 2)) == SEC(definition.pos - 2)'],
                    modifies=[Mod('pos', 'r is definition'), Mod('list:Any', 'r is output')]),
            # the inner loop runs at most once: it takes the token after a # (the loop body always ends in break)
            1: Loop(inv=BASE + ['not (previous == "ifx")', 'definition.pos >= 1', 'DC()[definition.pos - 1] == 6', 'not SEC(definition.pos - 1)',
                                'len(output) == OFF(definition.pos - 1)'] + placed('definition.pos - 1'),
                    modifies=[Mod('pos', 'r is definition'), Mod('list:Any', 'r is output')])})

# ---------------------------------------------------------------------------------------------- \newcommand: argument collection
P.cls('TeX')
P.cls('Macro', bases=['Any'], fields=dict(nargs='int', opt='Any?', definition='list[Any]', macroMode='int', tagName='str'))
P.const('Macro.MODE_END', 2)
P.const('Macro.MODE_BEGIN', 1)
P.ghost('optreads', 'int')
P.ghost('mandreads', 'int')
P.ghost('nparams', 'int')
P.ghost('first_param_none', 'bool')
P.fn('TeX.readArgument', params=dict(self='TeX', spec='str?=None', default='Any?=None', parentNode='Any?=None', name='str?=None'), returns='list[Any]?',
     trusted=True, allocates=True, modifies=[],
     ghost_sets={'optreads': 'ghost("optreads") + (0 if isnone(spec) else 1)', 'mandreads': 'ghost("mandreads") + (1 if isnone(spec) else 0)'},
     notes='TeX.readArgument: one undelimited argument, or with spec "[]" an optional bracketed one (default when absent): C05')
P.fn('expandDef/c', params=dict(definition='list[Any]', params='list[list[Any]?]'), returns='list[Any]', trusted=True, allocates=True, modifies=[],
     ensures=['fresh(result)'], ghost_sets={'nparams': 'len(params)', 'first_param_none': 'len(params) >= 1 and isnone(params[0])'},
     notes='proved above (expandDef)')
P.fn(FI + 'NewCommand.invoke', name='NewCommand.invoke', params=dict(self='Macro', tex='TeX'), returns='list[Any]',
     requires=['self.macroMode != 2', 'self.nargs >= 0', 'implies(not isnone(self.opt), self.nargs >= 1)',
               'ghost("optreads") == 0', 'ghost("mandreads") == 0'],
     # params[0] is unused (None), then the optional argument when the command has one, then the mandatory ones: nargs + 1 entries in all
     ensures=['ghost("nparams") == self.nargs + 1', 'ghost("first_param_none")',
              'ghost("optreads") == (0 if isnone(self.opt) else 1)', 'ghost("mandreads") == self.nargs - (0 if isnone(self.opt) else 1)',
              'len(result) >= (1 if self.macroMode == 1 else 0)'],
     allocates=True, skip_frame=True, locals={'[]': 'list[Any]', 'params': 'list[list[Any]?]'},
     calls={'tex.readArgument': 'TeX.readArgument', 'expandDef': 'expandDef/c', 'BeginGroup': 'BeginGroup'},
     loops={0: Loop(index='k', inv=['len(params) == 1 + (0 if isnone(self.opt) else 1) + k', 'isnone(params[0])', 'fresh(params)',
                                    'ghost("optreads") == (0 if isnone(self.opt) else 1)', 'ghost("mandreads") == k',
                                    'nargs == self.nargs - (0 if isnone(self.opt) else 1)', 'k <= nargs'],
                    modifies=[Mod('list:list[Any]?', 'r is params')])})
P.assume('single-character tokens: int(token) succeeds only for digits and is then >= 0; the body contains no \\ifx (documented brace-wrapping exception)')
P.unverified_surrounding('Definition.invoke (pattern matching of \\def), DefCommand.invoke, csname / expandafter / let, and the expansion loop '
                         'TeX.__iter__ as a whole: bounded native comparison with an independent evaluator (bounded/programs)')
