"""C04 -- grouping restores every local change and leaves the context stack balanced.

Abstract view: a Context is a stack `contexts` of frames (ContextItem = dict of local macros + lets + category-table binding + the
object that pushed it); lookup walks the parent chain.  Ghost notion used for well-foundedness: allocation order (`older`): a
frame's parent was allocated before it (PARENTS_OLDER, a heap-wide invariant kept by every function that writes `.parent`)."""
from pyvc.dsl import Prop, Loop, Mod

P = Prop('C04', 'Grouping restores every local change and leaves the context stack balanced')
FC = 'plasTeX/Context.py::'
P.cls('Any', universal=True)
P.cls('MacroCls', bases=['Any'])
P.cls('Token', bases=['Any'], fields=dict(catcode='int', nodeName='str'))
P.cls('Document', fields=dict(context='Context'))
P.cls('Macro', bases=['Any'], fields=dict(nodeName='str', level='int', parentNode='Macro?', macroMode='int', ownerDocument='Document',
                                          attributes='opaque', mathMode='bool?'),
      consts=dict(DOCUMENT_LEVEL=-1000000, MODE_END=2))
P.cls('ContextItem', dictof=('str', 'Any'),
      fields=dict(categories='list[str]?', lets='dict[str,Token]', obj='Macro?', parent='ContextItem?', owner='Context?'))
P.cls('Context', fields=dict(contexts='list[ContextItem]', top='ContextItem', categories='list[str]?', depth='int',
                             __getitem__='opaque', __contains__='opaque', get='opaque', keys='opaque', has_key='opaque',
                             update='opaque', __setitem__='opaque'))
PO = 'all(isnone(x.parent) or older(x.parent, x) for x in Refs("ContextItem"))'


@P.spec(heap=True, fuel=1)
def HAS(c: 'ContextItem', k: 'str') -> 'bool':
    """some frame of the parent chain of c defines k"""
    return (k in c) or (c.parent is not None and HAS(c.parent, k))


@P.spec(heap=True, fuel=1)
def LOOKUP(c: 'ContextItem', k: 'str') -> 'Any?':
    """the innermost live definition of k along the parent chain of c"""
    return c[k] if k in c else (LOOKUP(c.parent, k) if c.parent is not None else None)


# ---------------------------------------------------------------------------------------------- ContextItem
P.fn(FC + 'ContextItem.__init__', name='ContextItem.__init__', params=dict(self='ContextItem', data='dict[str,Any]?=None'), returns='none',
     requires=['all(k not in self for k in Strs())',
               'all(x is self or isnone(x.parent) or older(x.parent, x) for x in Refs("ContextItem"))'],
     ensures=[PO, 'isnone(self.parent)', 'isnone(self.obj)', 'isnone(self.categories)', 'isnone(self.owner)', 'fresh(self.lets)',
              'all(k not in self.lets for k in Strs())',
              'all((k in self) == (not isnone(data) and k in data) and implies(k in self, self[k] is data[k]) for k in Strs())'],
     allocates=True, locals={'{}': 'dict[str,Any]'},
     modifies=[Mod('categories', 'r is self'), Mod('lets', 'r is self'), Mod('obj', 'r is self'), Mod('parent', 'r is self'),
               Mod('owner', 'r is self'), Mod('dict:str,Any', 'r is self')])

P.fn(FC + 'ContextItem.__getitem__', name='ContextItem.__getitem__', params=dict(self='ContextItem', key='str'), returns='Any',
     requires=[PO],
     # the innermost frame of the chain that defines the name answers; KeyError exactly when none does
     ensures=['HAS(self, key)', 'result is LOOKUP(self, key)'],
     raises={'KeyError': 'iff:not HAS(self, key)'},
     decreases='refid(self)', modifies=[])
P.fn(FC + 'ContextItem.get', name='ContextItem.get', params=dict(self='ContextItem', key='str', default='Any?=None'), returns='Any?',
     requires=[PO],
     ensures=['implies(HAS(self, key), result is LOOKUP(self, key))', 'implies(not HAS(self, key), result is default)'], modifies=[])
P.fn(FC + 'ContextItem.keys', name='ContextItem.keys', params=dict(self='ContextItem'), returns='list[str]',
     requires=[PO],
     # exactly the names defined somewhere along the chain
     ensures=['fresh(result)', 'all(HAS(self, k) == any(result[j] == k for j in range(len(result))) for k in Strs())'],
     decreases='refid(self)', allocates=True, modifies=[], locals={'{}': 'dict[str,int]'},
     at_exit=['all((k in keys) == HAS(self, k) for k in Strs())'],
     loops={0: Loop(index='i', seq='ks', inv=['fresh(keys)', 'all((k in keys) == any(ks[j] == k for j in range(i)) for k in Strs())'],
                    modifies=[Mod('dict:str,int', 'r is keys')]),
            1: Loop(index='i', seq='ks', inv=['fresh(keys)', 'not isnone(self.parent)',
                                              'all(HAS(self.parent, k) == any(ks[j] == k for j in range(len(ks))) for k in Strs())',
                                              'all((k in keys) == ((k in self) or any(ks[j] == k for j in range(i))) for k in Strs())'],
                    modifies=[Mod('dict:str,int', 'r is keys')])})
P.fn(FC + 'ContextItem.has_key', name='ContextItem.has_key', params=dict(self='ContextItem', key='str'), returns='bool?',
     requires=[PO], ensures=['(not isnone(result) and unopt(result)) == HAS(self, key)'], allocates=True, modifies=[])

# ---------------------------------------------------------------------------------------------- Context: the frame stack
C = 'self.contexts'
# representation invariant of the stack (everything except the cached top / depth / categories, which mapMethods re-establishes)
STACK = ['len(%s) >= 1' % C, 'isnone(%s[0].parent)' % C,
         # (typing facts, stated explicitly as proof hints) a frame's lets table is a plain dict, never a frame
         'all(%s[i].lets is not %s[j] for i in range(len(%s)) for j in range(len(%s)))' % (C, C, C, C), 'all(%s[i].categories is not %s for i in range(len(%s)))' % (C, C, C),
         'all(%s[i].parent is %s[i - 1] for i in range(1, len(%s)))' % (C, C, C),
         'all(older(%s[i], %s[j]) and %s[i].lets is not %s[j].lets for i in range(len(%s)) for j in range(i + 1, len(%s)))' % (C, C, C, C, C, C)]
CACHE = ['self.categories is not %s' % C, 'self.top is %s[len(%s) - 1]' % (C, C), 'self.depth == len(%s)' % C, 'self.categories is self.top.categories']
WF = STACK + CACHE
SAME_BELOW = 'all(%s[i] is old(seq(%s))[i] for i in range(%%s))' % (C, C)
METHODS = ['self.get == boundmethod(self.top, "get")', 'self.keys == boundmethod(self.top, "keys")',
           'self.has_key == boundmethod(self.top, "has_key")', 'self.update == boundmethod(self.top, "update")']
CTX_FIELDS = ['top', 'categories', 'depth', '__getitem__', '__contains__', 'get', 'keys', 'has_key', 'update', '__setitem__']

P.fn(FC + 'Context.mapMethods', name='Context.mapMethods', params=dict(self='Context'), returns='none',
     requires=['len(%s) >= 1' % C, PO, 'all(%s[i].categories is not %s for i in range(len(%s)))' % (C, C, C),
               'implies(len(%s) > 1, older(%s[len(%s) - 2], %s[len(%s) - 1]))' % (C, C, C, C, C)],
     ensures=CACHE + METHODS + [PO,
              'self.top.owner is self',
              'implies(len(%s) > 1, self.top.parent is %s[len(%s) - 2])' % (C, C, C),
              'implies(len(%s) == 1, self.top.parent is old(self.top.parent) or True)' % C],
     modifies=[Mod(f, 'r is self') for f in CTX_FIELDS] + [Mod('owner', 'r is self.contexts[len(self.contexts) - 1]'),
                                                           Mod('parent', 'r is self.contexts[len(self.contexts) - 1] and len(self.contexts) > 1')])

P.fn('Macro.locals', params=dict(self='Macro'), returns='dict[str,Any]', requires=[PO], ensures=[PO], allocates=True, modifies=[], trusted=True,
     notes='Macro.locals(): the macros defined as class attributes of the macro (cached per class)')
P.fn('ContextItem.update', params=dict(self='ContextItem', d='dict[str,Any]'), returns='none', trusted=True,
     ensures=['all((k in self) == (old(k in self) or k in d) and implies(k in d, self[k] is d[k]) '
              'and implies(k not in d, self[k] is old(self[k])) for k in Strs())'],
     modifies=[Mod('dict:str,Any', 'r is self')], notes='builtin dict.update')
P.fn(FC + 'Context.createContext', name='Context.createContext', params=dict(self='Context', obj='Macro?=None'), returns='ContextItem',
     requires=[PO],
     # the new frame shares (does not copy) the category table in force, records who pushed it and holds that macro's local macros
     ensures=['fresh(result)', 'result.categories is self.categories', 'result.obj is obj', 'isnone(result.parent)', PO,
              'fresh(result.lets)', 'all(k not in result.lets for k in Strs())',
              'implies(isnone(obj), all(k not in result for k in Strs()))'],
     allocates=True, modifies=[], calls={'newcontext.update': 'ContextItem.update', 'obj.locals': 'Macro.locals'})

ISDOC = '(not isnone(context) and context.level == Macro.DOCUMENT_LEVEL)'
OLDLEN = 'old(len(self.contexts))'
P.const('Macro.DOCUMENT_LEVEL', -1000000)
P.fn(FC + 'Context.push', name='Context.push', params=dict(self='Context', context='Macro?=None'), returns='none',
     requires=WF + [PO],
     ensures=WF + [PO,
              # exactly one new frame, on top of the old ones (a document-level object first drops everything above the global frame)
              'implies(not %s, len(%s) == %s + 1 and %s)' % (ISDOC, C, OLDLEN, SAME_BELOW % OLDLEN),
              'implies(%s, len(%s) == 2 and %s[0] is old(seq(%s))[0])' % (ISDOC, C, C, C),
              'fresh(self.top)', 'self.top.obj is context', 'self.top.categories is old(self.categories)',
              'all(k not in self.top.lets for k in Strs())', 'implies(isnone(context), all(k not in self.top for k in Strs()))'] + METHODS,
     allocates=True,
     modifies=[Mod(f, 'r is self') for f in CTX_FIELDS] + [Mod('list:ContextItem', 'r is self.contexts')],
     loops={0: Loop(inv=['len(%s) >= 1' % C, 'len(%s) <= %s' % (C, OLDLEN), SAME_BELOW % ('len(%s)' % C), PO,
                         'self.categories is old(self.categories)', 'self.contexts is old(self.contexts)'],
                    decreases='len(%s)' % C, modifies=[Mod('list:ContextItem', 'r is self.contexts')])})

P.cls('type')


@P.spec(heap=True)
def HALT(o: 'Macro?', obj: 'Macro') -> 'bool':
    """pop(obj) stops below this frame without removing it: it was pushed by obj's parent node"""
    return o is not None and o is not obj and o is obj.parentNode


@P.spec(heap=True)
def POPSTOP(o: 'Macro?', obj: 'Macro') -> 'bool':
    """pop(obj) removes this frame and stops: pushed by obj itself, by the \\begin of this \\end, or by \\foo for \\endfoo"""
    return o is not None and (o is obj or (o is not obj.parentNode and (
        (type(obj) == type(o) and obj.macroMode == Macro.MODE_END) or obj.nodeName == 'end' + o.nodeName)))


P.const('Macro.MODE_END', 2)
OBJ_AT = 'old(self.contexts[i].obj)'
N, O = 'len(self.contexts)', OLDLEN
P.fn(FC + 'Context.pop', name='Context.pop', params=dict(self='Context', obj='Macro?=None'), returns='none',
     requires=WF + [PO],
     ensures=WF + [PO, '%s <= %s' % (N, O), SAME_BELOW % N, 'self.contexts is old(self.contexts)',
              # the global frame is never removed
              '%s[0] is old(seq(%s))[0]' % (C, C),
              # pop(): everything from the top through the topmost anonymous ({ } / \\begingroup) frame
              'implies(isnone(obj), all(not isnone(%s) for i in range(%s + 1, %s)))' % (OBJ_AT, N, O),
              'implies(isnone(obj) and %s > 1, %s < %s and (%s == 1 or isnone(old(seq(self.contexts))[%s].obj)))' % (O, N, O, N, N),
              # pop(obj): frames above obj's own frame go with it; it never removes the frame of obj's parent node
              'implies(not isnone(obj), all(not HALT(%s, obj) and not POPSTOP(%s, obj) for i in range(%s + 1, %s)))' % (OBJ_AT, OBJ_AT, N, O),
              'implies(not isnone(obj) and %s < %s, POPSTOP(old(seq(self.contexts))[%s].obj, obj) or (not HALT(old(seq(self.contexts))[%s].obj, obj) and '
              '(%s == 1 or HALT(old(seq(self.contexts))[%s - 1].obj, obj))))' % (N, O, N, N, N, N),
              'implies(not isnone(obj) and %s == %s and %s > 1, HALT(old(seq(self.contexts))[%s - 1].obj, obj))' % (N, O, O, O)] + METHODS,
     modifies=[Mod(f, 'r is self') for f in CTX_FIELDS] + [Mod('list:ContextItem', 'r is self.contexts'),
               Mod('owner', 'True'), Mod('parent', 'False')],
     loops={0: Loop(inv=[PO, '1 <= %s' % N, '%s <= %s' % (N, O), SAME_BELOW % N, 'self.contexts is old(self.contexts)',
                         'all(not isnone(%s) for i in range(%s, %s))' % (OBJ_AT, N, O)],
                    decreases=N, modifies=[Mod('list:ContextItem', 'r is self.contexts')]),
            1: Loop(inv=[PO, '1 <= %s' % N, '%s <= %s' % (N, O), SAME_BELOW % N, 'self.contexts is old(self.contexts)',
                         'all(not HALT(%s, obj) and not POPSTOP(%s, obj) for i in range(%s, %s))' % (OBJ_AT, OBJ_AT, N, O)],
                    decreases=N, modifies=[Mod('list:ContextItem', 'r is self.contexts')])})


# if no frame above the bottom one defines k up to index i, lookup from frame i answers from the bottom frame (induction on i)
P.lemma('GLOBAL_VISIBLE', dict(self='Context', i='int', k='str'),
        requires=STACK + ['0 <= i and i < len(self.contexts)', 'all(k not in self.contexts[j] for j in range(1, i + 1))'],
        ensures=['HAS(self.contexts[i], k) == (k in self.contexts[0])',
                 'implies(k in self.contexts[0], LOOKUP(self.contexts[i], k) is self.contexts[0][k])'],
        decreases='i', body="""
if i > 0:
    GLOBAL_VISIBLE(self, i - 1, k)
""")
P.lemma('NOWHERE', dict(self='Context', i='int', k='str'),
        requires=STACK + ['0 <= i and i < len(self.contexts)', 'not HAS(self.contexts[i], k)'],
        ensures=['all(k not in self.contexts[j] for j in range(0, i + 1))'],
        decreases='i', body="""
if i > 0:
    NOWHERE(self, i - 1, k)
""")

# ---------------------------------------------------------------------------------------------- definitions: which frame is written
P.uninterp('ismacro', ['Any'], 'bool')
P.uninterp('macroName', ['Any'], 'str')
TOPI = 'len(self.contexts) - 1'
MN = 'macroName(value)'
for nm in ('Context.addGlobal', 'Context.__setitem__'):
    P.fn(FC + 'Context.addGlobal', name=nm, params=dict(self='Context', key='str', value='Any'), returns='none',
         requires=WF + [PO],
         raises={'ValueError': 'iff:not ismacro(value)'},
         # a global definition lands in the bottom frame under the macro's own name and no open frame keeps a local definition of
         # that name (so it is the live definition at every level); every other name of every frame is untouched
         ensures=WF + [PO, '%s in self.contexts[0]' % MN, 'self.contexts[0][%s] is value' % MN,
                       'all(%s not in self.contexts[i] for i in range(1, len(self.contexts)))' % MN,
                       'all(all(implies(k != %s, (k in self.contexts[i]) == old(k in self.contexts[i]) and self.contexts[i][k] is old(self.contexts[i][k])) '
                       'for k in Strs()) for i in range(len(self.contexts)))' % MN,
                       'HAS(self.top, %s)' % MN, 'LOOKUP(self.top, %s) is value' % MN],
         exc_ensures={'ValueError': ['all((k in self.contexts[0]) == old(k in self.contexts[0]) for k in Strs())']},
         modifies=[Mod('dict:str,Any', 'any(r is self.contexts[i] for i in range(len(self.contexts)))')],
         at_exit=['GLOBAL_VISIBLE(self, len(self.contexts) - 1, %s)' % MN],
         loops={0: Loop(index='j', seq='fs', inv=[PO] + WF + [
             'len(fs) == len(self.contexts) - 1', 'all(fs[i] is self.contexts[i + 1] for i in range(len(fs)))',
             'all(name not in self.contexts[i] for i in range(1, j + 1))',
             'all(all(implies(k != name or i == 0 or i > j, (k in self.contexts[i]) == old(k in self.contexts[i]) and self.contexts[i][k] is old(self.contexts[i][k])) '
             'for k in Strs()) for i in range(len(self.contexts)))'],
             modifies=[Mod('dict:str,Any', 'any(r is self.contexts[i] for i in range(1, len(self.contexts)))')])},
         notes='value is a macro class / instance; the str -> Command conversion branch is outside the typed contract')
P.fn(FC + 'Context.addLocal', name='Context.addLocal', params=dict(self='Context', key='str', value='Any'), returns='none',
     requires=WF + [PO],
     raises={'ValueError': 'iff:not ismacro(value)'},
     # a local definition lands in the innermost frame only (frame condition: no other frame is written)
     ensures=WF + [PO, '%s in self.top' % MN, 'self.top[%s] is value' % MN,
                   'all(implies(k != %s, (k in self.top) == old(k in self.top) and self.top[k] is old(self.top[k])) for k in Strs())' % MN,
                   'HAS(self.top, %s)' % MN, 'LOOKUP(self.top, %s) is value' % MN],
     exc_ensures={'ValueError': ['all((k in self.top) == old(k in self.top) for k in Strs())']},
     modifies=[Mod('dict:str,Any', 'r is self.contexts[%s]' % TOPI)])
P.fn('new_unrecognized', params=dict(name='str', bases='opaque', ns='opaque'), returns='Any', trusted=True,
     requires=[PO], ensures=[PO, 'fresh(result)', 'ismacro(result)', 'macroName(result) == name'], allocates=True, modifies=[],
     notes='type(key, (UnrecognizedMacro,), {}): a new macro class whose macro name is the key')
# Context.isMathMode (read by \ifmmode, by MathShift and by the unrecognised-macro warning): the mode declared by the innermost frame whose
# object declares one (mathMode not None); text mode when no frame does.
def DEC(i):
    return '(not isnone(self.contexts[%s].obj) and not isnone(self.contexts[%s].obj.mathMode))' % (i, i)


NC = 'len(self.contexts)'
P.fn(FC + 'Context.isMathMode', name='Context.isMathMode', params=dict(self='Context'), returns='bool',
     requires=WF,
     ensures=['implies(all(not %s for i in range(%s)), result == False)' % (DEC('i'), NC),
              'all(implies(%s and all(not %s for j in range(i + 1, %s)), result == unopt(self.contexts[i].obj.mathMode)) for i in range(%s))'
              % (DEC('i'), DEC('j'), NC, NC)],
     modifies=[],
     loops={0: Loop(index='k', inv=['k <= len(self.contexts) - 1', 'k >= -1', 'all(not %s for j in range(k + 1, %s))' % (DEC('j'), NC)], modifies=[])})
P.classes['Context'].props['isMathMode'] = 'Context.isMathMode'
P.fn(FC + 'Context.__getitem__', name='Context.__getitem__', params=dict(self='Context', key='str'), returns='Any',
     requires=WF + [PO],
     # name lookup yields the innermost live definition; an unknown name is defined globally (never in a local frame) and returned
     ensures=WF + [PO, 'implies(old(HAS(self.top, key)), result is old(LOOKUP(self.top, key)))',
                   'implies(not old(HAS(self.top, key)), fresh(result) and key in self.contexts[0] and self.contexts[0][key] is result)',
                   'all(implies(k != key or old(HAS(self.top, key)), (k in self.contexts[0]) == old(k in self.contexts[0]) '
                   'and self.contexts[0][k] is old(self.contexts[0][k])) for k in Strs())',
                   'all(all((k in self.contexts[i]) == old(k in self.contexts[i]) and implies(k in self.contexts[i], self.contexts[i][k] is old(self.contexts[i][k])) '
                   'for k in Strs()) for i in range(1, len(self.contexts)))'],
     allocates=True, modifies=[Mod('dict:str,Any', 'any(r is self.contexts[i] for i in range(len(self.contexts)))')], calls={'type': 'new_unrecognized'},
     at_exit=['implies(not old(HAS(self.top, key)), old(NOWHERE(self, len(self.contexts) - 1, key)))'],
     fields={'warnOnUnrecognized': 'bool'})

P.const('Token.CC_ESCAPE', 0)
DN, SN = 'dest.nodeName', 'source.nodeName'
P.fn(FC + 'Context.let', name='Context.let', params=dict(self='Context', dest='Token', source='Token'), returns='none',
     requires=WF + [PO],
     ensures=WF + [PO,
              # \let\a=\b : the innermost frame binds a to the meaning b has *now* (copied, not linked)
              'implies(source.catcode == 0 and old(HAS(self.top, %s)), %s in self.top and self.top[%s] is old(LOOKUP(self.top, %s)))' % (SN, DN, DN, SN),
              'implies(source.catcode == 0, all(implies(k != %s and not (self.top is self.contexts[0] and k == %s), '
              '(k in self.top) == old(k in self.top) and implies(k in self.top, self.top[k] is old(self.top[k]))) for k in Strs()))' % (DN, SN),
              # \let\a=<character token>: recorded in the innermost frame's lets only
              'implies(source.catcode != 0, %s in self.top.lets and self.top.lets[%s] is source)' % (DN, DN),
              'implies(source.catcode != 0, all(implies(k != %s, (k in self.top.lets) == old(k in self.top.lets) and '
              'self.top.lets[k] is old(self.top.lets[k])) for k in Strs()))' % DN,
              'implies(source.catcode != 0, all(all((k in self.contexts[i]) == old(k in self.contexts[i]) and self.contexts[i][k] is old(self.contexts[i][k]) '
              'for k in Strs()) for i in range(len(self.contexts))))',
              'all(implies(source.catcode == 0 or i < len(self.contexts) - 1, all((k in self.contexts[i].lets) == old(k in self.contexts[i].lets) and '
              'self.contexts[i].lets[k] is old(self.contexts[i].lets[k]) for k in Strs())) for i in range(len(self.contexts)))',
              # no frame between the global and the innermost one is written
              'all(all((k in self.contexts[i]) == old(k in self.contexts[i]) and implies(k in self.contexts[i], self.contexts[i][k] is old(self.contexts[i][k])) '
              'for k in Strs()) for i in range(1, len(self.contexts) - 1))'],
     allocates=True,
     at_exit=['all(self.contexts[i].lets is not self.top and self.contexts[i].lets is not self.contexts[0] and not isnone(self.contexts[i].lets) '
              'for i in range(len(self.contexts)))'],
     modifies=[Mod('dict:str,Any', 'any(r is self.contexts[i] for i in range(len(self.contexts)))'), Mod('dict:str,Token', 'r is self.top.lets')])

# ---------------------------------------------------------------------------------------------- category codes: copy-on-write per frame
P.const('VERBATIM_CATEGORIES', None)
P.fn('verbatim_copy', params={}, returns='list[str]', ensures=['fresh(result)', 'len(result) == 16'], allocates=True, modifies=[], trusted=True,
     notes='VERBATIM_CATEGORIES[:] (content proved under C01)')
CATFRAME = ['fresh(self.categories)', 'self.top.categories is self.categories',
            # no other frame's table binding changes, and no existing table object is mutated (frame: list:str only fresh)
            'all(implies(i < len(self.contexts) - 1, self.contexts[i].categories is old(self.contexts[i].categories)) for i in range(len(self.contexts)))']
P.fn(FC + 'Context.catcode', name='Context.catcode', params=dict(self='Context', char='str', code='int'), returns='none',
     requires=WF + [PO, '0 <= code and code <= 15', 'not isnone(self.categories)', 'len(self.categories) == 16'],
     ensures=WF + [PO, 'len(self.categories) == 16'] + CATFRAME,
     allocates=True, modifies=[Mod('categories', 'r is self or r is self.contexts[len(self.contexts) - 1]'), Mod('list:str', 'False')],
     loops={0: Loop(index='i', inv=['i <= 16', 'len(c) == 16', 'fresh(c)', 'c is self.categories',
                                    'self.contexts[len(self.contexts) - 1].categories is c'],
                    modifies=[Mod('list:str', 'r is c')])})
P.fn(FC + 'Context.setVerbatimCatcodes', name='Context.setVerbatimCatcodes', params=dict(self='Context'), returns='none',
     requires=WF + [PO], ensures=WF + [PO] + CATFRAME,
     allocates=True, modifies=[Mod('categories', 'r is self or r is self.contexts[len(self.contexts) - 1]'), Mod('list:str', 'False')],
     calls={'VERBATIM_CATEGORIES[:]': 'verbatim_copy'})

# ---------------------------------------------------------------------------------------------- two-call lemmas over the contracts
NOTDOC = 'o.level != -1000000'
def frames_same(upto, lo='0'):
    rng = 'range(%s, %s)' % (lo, upto)
    X = 'ctx.contexts[i]'
    return ['all(%s is old(seq(ctx.contexts))[i] for i in %s)' % (X, rng),
            'all(%s.categories is old(%s.categories) and %s.parent is old(%s.parent) and %s.lets is old(%s.lets) and %s.obj is old(%s.obj) for i in %s)' % (X, X, X, X, X, X, X, X, rng),
            'all(all((k in %s) == old(k in %s) and %s[k] is old(%s[k]) for k in Strs()) for i in %s)' % (X, X, X, X, rng),
            'all(all((k in %s.lets) == old(k in %s.lets) and %s.lets[k] is old(%s.lets[k]) for k in Strs()) for i in %s)' % (X, X, X, X, rng)]


CWF = [w.replace('self.', 'ctx.') for w in WF] + [PO]
P.client('push_pop_inverse', dict(ctx='Context', o='Macro'),
         requires=CWF + [NOTDOC],
         # pop(o) undoes push(o): same frames, same cached top / categories / depth, every frame's content as before
         ensures=CWF + ['len(ctx.contexts) == old(len(ctx.contexts))', 'ctx.top is old(ctx.top)',
                        'ctx.categories is old(ctx.categories)', 'ctx.depth == old(ctx.depth)'] + frames_same('len(ctx.contexts)'),
         body="""
ctx.push(o)
ctx.pop(o)
""")
P.client('group_restores_locals', dict(ctx='Context', name='str', value='Any', ch='str', code='int', dest='Token', source='Token'),
         requires=CWF + ['ismacro(value)', '0 <= code and code <= 15', 'not isnone(ctx.categories)', 'len(ctx.categories) == 16',
                         'source.catcode != 0'],
         # { \def-local ; \catcode ; \let-to-character } : after the group closes every frame that existed before is bit-for-bit as it was
         ensures=CWF + ['len(ctx.contexts) == old(len(ctx.contexts))', 'ctx.top is old(ctx.top)',
                        'ctx.categories is old(ctx.categories)', 'ctx.depth == old(ctx.depth)'] + frames_same('len(ctx.contexts)'),
         body="""
ctx.push(None)
assert len(ctx.categories) == 16
ctx.addLocal(name, value)
assert len(ctx.categories) == 16
ctx.catcode(ch, code)
ctx.let(dest, source)
ctx.pop(None)
""")
P.client('global_survives_group', dict(ctx='Context', name='str', value='Any'),
         requires=CWF + ['ismacro(value)'],
         # a global definition made inside a group is the live definition after the group closes (and at every level)
         ensures=CWF + ['len(ctx.contexts) == old(len(ctx.contexts))', 'macroName(value) in ctx.contexts[0]',
                        'ctx.contexts[0][macroName(value)] is value', 'HAS(ctx.top, macroName(value))',
                        'LOOKUP(ctx.top, macroName(value)) is value',
                        'all(all(implies(k != macroName(value), (k in ctx.contexts[i]) == old(k in ctx.contexts[i]) and '
                        'ctx.contexts[i][k] is old(ctx.contexts[i][k])) for k in Strs()) for i in range(len(ctx.contexts)))'],
         body="""
ctx.push(None)
ctx.addGlobal(name, value)
ctx.pop(None)
GLOBAL_VISIBLE(ctx, len(ctx.contexts) - 1, macroName(value))
""")


# ---------------------------------------------------------------------------------------------- who pushes and pops (call protocol)
FI = 'plasTeX/__init__.py::'
P.cls('TeX', bases=['Any'])
CX = 'self.ownerDocument.context'
XWF = [w.replace('self.', CX + '.') for w in WF] + [PO]
XN, XO = 'len(%s.contexts)' % CX, 'old(len(%s.contexts))' % CX


def xframes(upto, lo='0'):
    return [e.replace('ctx.', CX + '.') for e in frames_same(upto, lo)]


P.fn('Macro.parse', params=dict(self='Macro', tex='TeX'), returns='opaque', trusted=True, allocates=True,
     requires=XWF, ensures=XWF + ['%s == %s' % (XN, XO), '%s.top is old(%s.top)' % (CX, CX), '%s is old(%s)' % (CX, CX),
                                  'self.macroMode == old(self.macroMode)', 'self.level == old(self.level)'] + xframes(XN),
     modifies=[Mod('attributes', 'r is self')],
     notes='argument parsing is balanced: it leaves the context stack exactly as it found it (argument scanners: C05)')
P.fn('Macro.setLinkType', params=dict(self='Macro'), returns='none', trusted=True, modifies=[], notes='touches no context state')
P.fn(FI + 'Macro.invoke', name='Macro.invoke', params=dict(self='Macro', tex='TeX'), returns='none',
     requires=XWF + ['self.level != -1000000'],
     ensures=XWF + [
         # \begin{..} / sectioning: exactly one new frame owned by this macro, everything below untouched
         'implies(old(self.macroMode) == 1, %s == %s + 1 and %s.top.obj is self)' % (XN, XO, CX),
         # an ordinary command: its frame exists only while its arguments are parsed
         'implies(old(self.macroMode) != 1 and old(self.macroMode) != 2, %s == %s and %s.top is old(%s.top))' % (XN, XO, CX, CX),
         # \end{..}: never deeper than before
         'implies(old(self.macroMode) == 2, %s <= %s)' % (XN, XO)] + xframes('(%s if %s < %s else %s)' % (XN, XN, XO, XO)),
     allocates=True, skip_frame=True, calls={'self.parse': 'Macro.parse', 'self.setLinkType': 'Macro.setLinkType'})
P.const('Macro.MODE_BEGIN', 1)
P.classes['Macro'].fields['str'] = 'str?'
P.fields.setdefault('str', 'str?')
P.field_variants.setdefault('str', {})['Macro'] = 'str?'
P.fn('TeX.textTokens', params=dict(self='TeX', text='str'), returns='opaque', trusted=True, allocates=True, modifies=[],
     notes='tokenizes a string; no context state')
P.fn(FI + 'Environment.invoke', name='Environment.invoke', params=dict(self='Macro', tex='TeX'), returns='opaque',
     requires=XWF + ['self.level != -1000000'],
     ensures=XWF + ['implies(old(self.macroMode) != 2, %s == %s + 1 and %s.top.obj is self)' % (XN, XO, CX),
                    'implies(old(self.macroMode) == 2, %s <= %s)' % (XN, XO)] + xframes('(%s if %s < %s else %s)' % (XN, XN, XO, XO)),
     allocates=True, skip_frame=True, calls={'self.parse': 'Macro.parse', 'tex.textTokens': 'TeX.textTokens'})
FT = 'plasTeX/Base/TeX/Text.py::'
P.fn(FT + 'bgroup.invoke', name='bgroup.invoke', params=dict(self='Macro', tex='TeX'), returns='none',
     requires=XWF,
     # { and \begingroup: one new anonymous frame sharing the category table in force
     ensures=XWF + ['%s == %s + 1' % (XN, XO), 'isnone(%s.top.obj)' % CX, 'fresh(%s.top)' % CX,
                    '%s.top.categories is old(%s.categories)' % (CX, CX), 'all(k not in %s.top for k in Strs())' % CX] + xframes(XO),
     allocates=True, skip_frame=True)
P.fn(FT + 'egroup.invoke', name='egroup.invoke', params=dict(self='Macro', tex='TeX'), returns='none',
     requires=XWF,
     # } and \endgroup: everything down to and including the innermost anonymous frame goes; when the top frame is anonymous (balanced
     # input) that is exactly one frame
     ensures=XWF + ['implies(%s > 1, %s < %s)' % (XO, XN, XO),
                    'implies(%s > 1 and isnone(old(%s.top.obj)), %s == %s - 1)' % (XO, CX, XN, XO)] + xframes(XN),
     allocates=True, skip_frame=True)
FA = 'plasTeX/Base/LaTeX/Arrays.py::'
P.cls('Element', bases=['Macro'])
P.fn('Document.createElement', params=dict(self='Document', name='str'), returns='Macro', trusted=True, allocates=True, modifies=[],
     requires=[PO], ensures=[PO, 'fresh(result)'], notes='creates a node; no context state')
P.fn(FA + 'Array.CellDelimiter.invoke', name='CellDelimiter.invoke', params=dict(self='Macro', tex='TeX'), returns='opaque',
     requires=XWF + ['%s > 1' % XN, 'isnone(%s.top.obj)' % CX],
     # &: the cell's frame is replaced by a new empty one: nothing defined locally in the previous cell is visible in the next
     ensures=XWF + ['%s == %s' % (XN, XO), 'fresh(%s.top)' % CX, 'isnone(%s.top.obj)' % CX,
                    'all(k not in %s.top for k in Strs())' % CX, 'all(k not in %s.top.lets for k in Strs())' % CX] + xframes('%s - 1' % XN),
     allocates=True, skip_frame=True, calls={'self.ownerDocument.createElement': 'Document.createElement'}, locals={'[]': 'list[Any]'})
P.fn(FA + 'Array.EndRow.invoke', name='EndRow.invoke', params=dict(self='Macro', tex='TeX'), returns='opaque',
     requires=XWF + ['%s > 1' % XN, 'isnone(%s.top.obj)' % CX],
     ensures=XWF + ['%s == %s' % (XN, XO), 'fresh(%s.top)' % CX, 'isnone(%s.top.obj)' % CX,
                    'all(k not in %s.top for k in Strs())' % CX, 'all(k not in %s.top.lets for k in Strs())' % CX] + xframes('%s - 1' % XN),
     allocates=True, skip_frame=True, calls={'self.ownerDocument.createElement': 'Document.createElement', 'self.parse': 'Macro.parse'},
     locals={'[]': 'list[Any]'})
P.assume('Macro.parse leaves the context stack as it found it (argument scanners are balanced: C05); the str -> Command conversion branch of '
         'addGlobal / addLocal is outside the typed contracts')
P.unverified_surrounding('that every balanced input leaves depth 1 needs the digest protocol over all macro classes (C07); MathShift.invoke, '
                         'Array.invoke, VerbatimEnvironment.invoke, TeX.input / endInput push and pop through the contracts above but are '
                         'themselves only covered by the bounded history / program checks; get_let (mixed str / Token return) is bounded only')

