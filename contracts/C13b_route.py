"""C13 (second sidecar module) -- Renderable.__str__: where the rendering of each child goes.

For every node and every list of children: each child is rendered exactly once and its output goes to exactly one place -- appended to
the node's own output, in child order, when the child produces no file; written to the child's file (once, under the child's file name,
with or without the layout wrapper) and NOT appended when it does.  Text and unicode-equivalent children are escaped by textDefault.
What a template returns for a node (RVAL), the layout wrapper (LAYOUT) and the escaping (TD) are uninterpreted: templates are not
repository Python.  Proved for the function up to the end of its loop (stop_after_loop=0); the rest is `return outputType(''.join(s))`."""
from pyvc.dsl import Prop, Loop, Mod

P = Prop('C13', 'Rendering splits the document into files without losing or repeating content')
FR = 'plasTeX/Renderers/__init__.py::'
P.optional_attrs = ('templateName', 'footnotes')
P.cls('NodeClass', fields=dict(renderer='Renderer'))
P.global_obj('Node', 'NodeClass')
P.const('Node.DOCUMENT_NODE', 9)
P.const('Node.TEXT_NODE', 3)
P.const('Node.DOCUMENT_LEVEL', -9223372036854775807)
P.cls('Func')
P.cls('File', fields=dict(name='str'))
P.cls('Renderer', fields=dict(default='Func'))
P.cls('RNode', fields={'str': 'str?', 'nodeType': 'int', 'level': 'int', 'childNodes': 'list[RNode]', 'nodeName': 'str', 'templateName': 'str?',
                       'attributes': 'dict[str,str?]?', 'config': 'dict[str,dict[str,str]]', 'footnotes': 'RNode?'},
      props={'filename': 'RNode.filename'})
P.uninterp('FN', ['RNode'], 'str?')
P.uninterp('RVAL', ['RNode'], 'str')
P.uninterp('LAYOUT', ['RNode', 'str'], 'str')
P.uninterp('TDN', ['RNode'], 'str')
P.uninterp('TDS', ['str'], 'str')
P.ghost('own_writes', 'int')
P.ghost('last_name', 'str')
P.ghost('last_text', 'str')
P.fn('RNode.filename', params=dict(self='RNode'), returns='str?', ensures=['result == FN(self)'], trusted=True, kind='property', modifies=[],
     notes='Renderable.filename: deterministic and cached per node once Renderer.cacheFilenames has run (Renderable.filename contract)')
P.fn('RNode.hasChildNodes', params=dict(self='RNode'), returns='bool', trusted=True, modifies=[])
P.fn('Renderer.textDefault/n', params=dict(self='Renderer', s='RNode'), returns='str', ensures=['result == TDN(s)'], trusted=True, modifies=[])
P.fn('Renderer.textDefault/s', params=dict(self='Renderer', s='str'), returns='str', ensures=['result == TDS(s)'], trusted=True, modifies=[])
P.fn('Renderer.outputType', params=dict(self='Renderer', s='str'), returns='str', trusted=True, modifies=[])
P.fn('Renderer.find', params=dict(self='Renderer', keys='list[str]', default='Func?=None'), returns='Func?', trusted=True, allocates=True, modifies=[],
     ensures=['implies(not isnone(default), not isnone(result))'], notes='Renderer.find: the first template registered under one of the names, else the default')
P.fn('Func.__call__', params=dict(self='Func', node='RNode'), returns='str', ensures=['result == RVAL(node)'], trusted=True, allocates=True, modifies=[],
     notes='a template applied to a node returns a string that is a function of the node (which template is chosen is outside this contract); '
           'rendering the descendants inside the template may write THEIR files: not counted in own_writes')
P.fn('StaticNode', params=dict(obj='RNode', content='str'), returns='RNode', trusted=True, allocates=True, modifies=[],
     ensures=['fresh(result)', 'RVAL(result) == LAYOUT(obj, content)'], notes='the layout template sees the child with its rendered content')
P.fn('open', params=dict(name='str', mode='str', encoding='str'), returns='File', trusted=True, allocates=True, modifies=[],
     ensures=['fresh(result)', 'result.name == name'])
P.fn('File.write', params=dict(self='File', text='str'), returns='none', trusted=True, modifies=[],
     ghost_sets={'own_writes': 'ghost("own_writes") + 1', 'last_name': 'self.name', 'last_text': 'text'})
P.fn('opaque_call', params=dict(a='opaque=0', b='opaque=0', c='opaque=0'), returns='none', trusted=True, modifies=[])
P.fn('os.path.dirname', params=dict(p='str'), returns='str', trusted=True, modifies=[])
P.fn('os.path.isdir', params=dict(p='str'), returns='bool', trusted=True, modifies=[])


@P.spec(heap=True)
def ISFILE(c: 'RNode') -> 'bool':
    """the child is an element that produces a file of its own"""
    return c.nodeType != 3 and isnone(c.str) and not isnone(FN(c)) and unopt(FN(c)) != ""


@P.spec(heap=True)
def PIECE(c: 'RNode') -> 'str':
    """what an inline child contributes to its parent's output"""
    if c.nodeType == 3:
        return TDN(c)
    if not isnone(c.str):
        return TDS(unopt(c.str))
    return RVAL(c)


@P.spec(fuel=1, heap=True)
def NINL(cn: 'seq[RNode]', j: 'int') -> 'int':
    """number of inline children among the first j of the list"""
    if j <= 0:
        return 0
    return NINL(cn, j - 1) + (0 if ISFILE(cn[j - 1]) else 1)


N = 'len(childNodes)'
BASE = ['fresh(s)', 's is not childNodes', 'all(not isnone(childNodes[j]) for j in range(%s))' % N]
P.fn(FR + 'Renderable.__str__', name='Renderable.__str__', params=dict(self='RNode'), returns='str',
     requires=['ghost("own_writes") == 0', 'all(not isnone(self.childNodes[j]) for j in range(len(self.childNodes)))'],
     stop_after_loop=0,
     end_ensures=[
         # the children rendered: all of them, or for the document node those at document level (in order)
         'implies(self.nodeType != 9, childNodes is self.childNodes)',
         # inline children: appended in child order, each exactly once (offset = number of inline children before it)
         'len(s) == NINL(seq(childNodes), %s)' % N,
         'all(implies(not ISFILE(childNodes[j]), s[NINL(seq(childNodes), j)] == PIECE(childNodes[j])) for j in range(%s))' % N,
         # file children: one write each by this call, none for the others
         'ghost("own_writes") == %s - NINL(seq(childNodes), %s)' % (N, N)],
     raises={'KeyError': 'True'},
     allocates=True, skip_frame=True, locals={'[]': 'list[str]', 'childNodes': 'list[RNode]'},
     calls={'self.hasChildNodes': 'RNode.hasChildNodes', 'r.textDefault': ['Renderer.textDefault/n', 'Renderer.textDefault/s'], 'r.outputType': 'Renderer.outputType',
            'r.find': 'Renderer.find', 'StaticNode': 'StaticNode', 'open': 'open', 'f.write': 'File.write', 'status.info': 'opaque_call',
            'log.warning': 'opaque_call', 'os.path.dirname': 'os.path.dirname', 'os.path.isdir': 'os.path.isdir', 'os.makedirs': 'opaque_call'},
     loops={0: Loop(index='i', inv=BASE + ['i <= len(childNodes)', 'len(s) == NINL(seq(childNodes), i)',
                                           'all(implies(not ISFILE(childNodes[j]), s[NINL(seq(childNodes), j)] == PIECE(childNodes[j])) for j in range(i))',
                                           'ghost("own_writes") == i - NINL(seq(childNodes), i)',
                                           'all(0 <= NINL(seq(childNodes), j) and NINL(seq(childNodes), j) + (0 if ISFILE(childNodes[j]) else 1) <= len(s) for j in range(i))'],
                    at_end=['unfold(NINL(seq(childNodes), i)) == NINL(seq(childNodes), i)',
                            # the step for a file child: written under the child's file name, the template output itself or wrapped by the layout
                            'implies(ISFILE(child), ghost("last_name") == unopt(FN(child)) and (ghost("last_text") == RVAL(child) '
                            'or ghost("last_text") == LAYOUT(child, RVAL(child))))'],
                    modifies=[Mod('list:str', 'r is s')])})
P.assume('templates return str; what a template returns is a function of the node it is applied to (RVAL), the layout wrapper of (child, content) (LAYOUT)')

# ---------------------------------------------------------------------------------------------- Renderer.find: which template renders a node
# the first of the requested names that has a template registered wins; when none has, the default is returned and registered under every
# requested name
P.cls('RDict', dictof=('str', 'Func?'))
P.fn('log.warning/f', params=dict(a='opaque=0'), returns='none', trusted=True, modifies=[])
P.fn('join/f', params=dict(x='opaque'), returns='str', trusted=True, modifies=[])
FOUND = 'any(old(keys[m] in self) for m in range(len(keys)))'
P.fn(FR + 'Renderer.find', name='Renderer.find/spec', params=dict(self='RDict', keys='list[str]', default='Func?=None'), returns='Func?',
     ensures=[
         # found: the template of the first registered name, and the table is untouched
         'all(implies(old(keys[m] in self) and all(not old(keys[q] in self) for q in range(m)), result is old(self[keys[m]])) for m in range(len(keys)))',
         'implies(%s, all((k in self) == old(k in self) and self[k] is old(self[k]) for k in Strs()))' % FOUND,
         # not found: the default, now registered under every requested name (and nothing else changes)
         'implies(not %s, result is default and all(keys[m] in self and self[keys[m]] is default for m in range(len(keys))))' % FOUND,
         'implies(not %s, all(implies(all(keys[m] != k for m in range(len(keys))), (k in self) == old(k in self) and self[k] is old(self[k])) for k in Strs()))' % FOUND],
     modifies=[Mod('dict:str,Func?', 'r is self')],
     calls={'log.warning': 'log.warning/f', "', '.join": 'join/f'},
     loops={0: Loop(index='i', inv=['i <= len(keys)', 'all(not (keys[q] in self) for q in range(i))',
                                    'all((k in self) == old(k in self) and self[k] is old(self[k]) for k in Strs())']),
            1: Loop(index='i', inv=['i <= len(keys)', 'all(not old(keys[q] in self) for q in range(len(keys)))',
                                    'all(keys[m] in self and self[keys[m]] is default for m in range(i))',
                                    'all(implies(all(keys[m] != k for m in range(len(keys))), (k in self) == old(k in self) and self[k] is old(self[k])) for k in Strs())'],
                    modifies=[Mod('dict:str,Func?', 'r is self')])})
