"""C15 -- the filename generator yields unique, clean names in template order (plasTeX/Filenames.py)."""
from pyvc.dsl import Prop, Loop, Mod

P = Prop('C15', 'The filename generator yields unique, clean names in template order')
F = 'plasTeX/Filenames.py::'
P.cls('Filenames', fields=dict(extension='str'))
P.uninterp('SPLITEXT_EXT', ['str'], 'str')     # os.path.splitext(name)[-1]: the extension including the dot, '' if none
P.fn('os.path.splitext', params=dict(p='str'), returns='list[str]', ensures=['len(result) == 2', 'result[1] == SPLITEXT_EXT(p)', 'fresh(result)'],
     allocates=True, modifies=[Mod('list:str', 'False')], trusted=True, notes='os.path.splitext (A4)')
P.fn(F + 'Filenames.addExtension', name='Filenames.addExtension', params=dict(self='Filenames', filename='str'), returns='str',
     # the extension is added exactly when the name has none
     ensures=['result == (filename + self.extension if SPLITEXT_EXT(filename) == "" else filename)'],
     allocates=True, calls={'os.path.splitext': 'os.path.splitext'})
P.unverified_surrounding('Filenames._newFilename (generator over regular expressions and string.Template) and parseFilenames: bounded native '
                         'comparison with a reference model of the template grammar (bounded/filenames), not proved')
P.assume('A4: os.path.splitext as an uninterpreted function')
