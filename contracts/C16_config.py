"""C16 -- configuration layering and conversion (plasTeX/ConfigManager.py, client.main)."""
from pyvc.dsl import Prop, Loop, Mod

P = Prop('C16', 'Configuration values come from defaults, files and command line in that order')
F = 'plasTeX/ConfigManager.py::'

P.cls('ConfigOption', fields=dict(name='str'))
for c in ('StringOption', 'IntegerOption', 'FloatOption', 'BooleanOption', 'MultiStringOption', 'DictOption'):
    P.cls(c, bases=['ConfigOption'])


# ------------------------------------------------------------------ A.12 truth words of configuration files
@P.spec
def TRUTH(w: 'str') -> 'int':
    """1 true, 0 false, -1 not a boolean word (from the property statement: yes/no, true/false, on/off; 1/0 as configparser)."""
    return 1 if (w == "yes" or w == "true" or w == "on" or w == "1") else \
        0 if (w == "no" or w == "false" or w == "off" or w == "0") else -1


# ------------------------------------------------------------------ command line read-back (absent -> unchanged)
def upd(tname, vt):
    P.fn(F + 'ConfigOption.updateFromDict', name='ConfigOption.updateFromDict/' + tname,
         params=dict(self='ConfigOption', data='dict[str,%s?]' % vt), returns='none',
         fields=dict(value=vt),
         ensures=['self.value == (unopt(data[self.name]) if (self.name in data and not isnone(data[self.name])) else old(self.value))'],
         modifies=[Mod('value', 'r is self')])


upd('str', 'str')
upd('int', 'int')
upd('bool', 'bool')
upd('float', 'real')

# ------------------------------------------------------------------ conversion from file strings
P.uninterp('str_to_int', ['str'], 'int')
P.uninterp('is_int_literal', ['str'], 'bool')
P.uninterp('str_to_float', ['str'], 'real')
P.uninterp('is_float_literal', ['str'], 'bool')
P.fn('conv_str', params=dict(x='str'), returns='str', ensures=['result == x'], trusted=True,
     notes='valueType() of a StringOption is str (ground/option-value-types)')
P.fn('conv_int', params=dict(x='str'), returns='int', ensures=['result == str_to_int(x)'],
     raises={'ValueError': 'iff:not is_int_literal(x)'}, trusted=True, notes='int(str) (A4)')
P.fn('conv_float', params=dict(x='str'), returns='real', ensures=['result == str_to_float(x)'],
     raises={'ValueError': 'iff:not is_float_literal(x)'}, trusted=True, notes='float(str) (A4)')
P.fn(F + 'ConfigOption.setFromString', name='ConfigOption.setFromString/str',
     params=dict(self='StringOption', string='str'), returns='none', fields=dict(value='str'),
     ensures=['self.value == string'], modifies=[Mod('value', 'r is self')], calls={'self.valueType()': 'conv_str'})
P.fn(F + 'ConfigOption.setFromString', name='ConfigOption.setFromString/int',
     params=dict(self='IntegerOption', string='str'), returns='none', fields=dict(value='int'),
     ensures=['self.value == str_to_int(string)'], raises={'ValueError': 'not is_int_literal(string)'},
     exc_ensures={'ValueError': ['self.value == old(self.value)']},
     modifies=[Mod('value', 'r is self')], calls={'self.valueType()': 'conv_int'})
P.fn(F + 'ConfigOption.setFromString', name='ConfigOption.setFromString/float',
     params=dict(self='FloatOption', string='str'), returns='none', fields=dict(value='real'),
     ensures=['self.value == str_to_float(string)'], raises={'ValueError': 'not is_float_literal(string)'},
     exc_ensures={'ValueError': ['self.value == old(self.value)']},
     modifies=[Mod('value', 'r is self')], calls={'self.valueType()': 'conv_float'})
P.fn(F + 'BooleanOption.setFromString', name='BooleanOption.setFromString',
     params=dict(self='BooleanOption', string='str'), returns='none', fields=dict(value='bool'),
     ensures=['TRUTH(str_lower(str_strip(string))) != -1', 'self.value == (TRUTH(str_lower(str_strip(string))) == 1)'],
     raises={'ValueError': 'TRUTH(str_lower(str_strip(string))) == -1'},
     exc_ensures={'ValueError': ['self.value == old(self.value)']},
     modifies=[Mod('value', 'r is self')])

# ------------------------------------------------------------------ list options extend
P.fn(F + 'MultiStringOption.setFromString', name='MultiStringOption.setFromString',
     params=dict(self='MultiStringOption', string='str'), returns='none', fields=dict(value='list[str]'),
     ensures=['seq(self.value) == old(seq(self.value)) + shlex_split(string)', 'self.value is old(self.value)'],
     modifies=[Mod('list:str', 'r is self.value')], calls={'shlex.split': 'shlex.split'})
P.fn('shlex.split', params=dict(s='str'), returns='list[str]', ensures=['seq(result) == shlex_split(s)', 'fresh(result)'],
     allocates=True, modifies=[Mod('list:str', 'False')], trusted=True, notes='shlex.split (A4)')


@P.spec(heap=True, fuel=1)
def FLAT(v: 'list[list[str]]', n: 'int') -> 'seq[str]':
    """Concatenation of the first n inner lists."""
    if n <= 0:
        return EMPTYSTRS()
    return FLAT(v, n - 1) + seq(v[n - 1])


P.uninterp('EMPTYSTRS', [], 'seq[str]', axioms=['len(EMPTYSTRS()) == 0'])
P.fn(F + 'MultiStringOption.updateFromDict', name='MultiStringOption.updateFromDict',
     params=dict(self='MultiStringOption', data='dict[str,list[list[str]]?]'), returns='none', fields=dict(value='list[str]'),
     requires=['len(EMPTYSTRS()) == 0',
               'implies(self.name in data and not isnone(data[self.name]), all(data[self.name][k] is not self.value and not isnone(data[self.name][k]) for k in range(len(data[self.name]))) and data[self.name] is not self.value)'],
     ensures=['self.value is old(self.value)',
              'implies(self.name in data and not isnone(data[self.name]), seq(self.value) == old(seq(self.value)) + old(FLAT(data[self.name], len(data[self.name]))))',
              'implies(not (self.name in data and not isnone(data[self.name])), seq(self.value) == old(seq(self.value)))'],
     modifies=[Mod('list:str', 'r is self.value')],
     loops={0: Loop(index='i', inv=['self.value is old(self.value)',
                                    'value is data[self.name]', 'i <= len(value)', 'seq(self.value) == old(seq(self.value)) + old(FLAT(data[self.name], i))'],
                    modifies=[Mod('list:str', 'r is self.value')])})

P.assume('A4: int(str), float(str), shlex.split, str.strip/lower are uninterpreted library functions; '
         'ConfigOption.valueType() returns the Python type matching the option class (ground/option-value-types)')
P.unverified_surrounding('argparse registration (registerArgparse): library effects only')
P.unverified_surrounding('Config.defaultConfig defaults table: documentation is not a formal source')

# ------------------------------------------------------------------ dictionary options update
P.uninterp('ENTRYOF', ['str'], 'str')      # the subclass's entryFromString (abstract classmethod), value type abstracted
P.fn('entryFromString', params=dict(entry='str'), returns='str', ensures=['result == ENTRYOF(entry)'], trusted=True,
     notes='abstract classmethod DictOption.entryFromString: any function of its argument')
DV = dict(value='dict[str,str]')
MODD = [Mod('dict:str,str', 'r is self.value')]
P.fn(F + 'DictOption.set', name='DictOption.set',
     params=dict(self='DictOption', key='str', value='str'), returns='none', fields=DV,
     ensures=['key in self.value', 'self.value[key] == ENTRYOF(value)', 'self.value is old(self.value)',
              'all(implies(k != key, (k in self.value) == old(k in self.value) and self.value[k] == old(self.value[k])) for k in Strs())'],
     modifies=MODD, calls={'self.entryFromString': 'entryFromString'})


@P.spec(fuel=0)
def EKEY(e: 'str') -> 'str':
    return str_strip(before(e, "="))


@P.spec(fuel=0)
def EVAL(e: 'str') -> 'str':
    return str_strip(after(e, "="))


P.lemma('EDEF', dict(e='str'), ensures=['unfold(EKEY(e)) == str_strip(before(e, "="))', 'unfold(EVAL(e)) == str_strip(after(e, "="))'])
P.fn(F + 'DictOption.setFromString', name='DictOption.setFromString',
     params=dict(self='DictOption', string='str'), returns='none', fields=DV,
     raises={'ValueError': 'any("=" not in str_split(string, ",")[j] for j in range(len(str_split(string, ","))))'},
     ensures=['self.value is old(self.value)',
              # keys not written keep their state (dictionary options update, defaults kept)
              'all(implies(all(EKEY(str_split(string, ",")[j]) != k for j in range(len(str_split(string, ",")))), '
              '(k in self.value) == old(k in self.value) and self.value[k] == old(self.value[k])) for k in Strs())',
              # every entry's key is bound; the last entry for a key wins
              'all(EKEY(str_split(string, ",")[j]) in self.value for j in range(len(str_split(string, ","))))',
              'all(implies(all(EKEY(str_split(string, ",")[m]) != EKEY(str_split(string, ",")[j]) for m in range(j + 1, len(str_split(string, ",")))), '
              'self.value[EKEY(str_split(string, ",")[j])] == ENTRYOF(EVAL(str_split(string, ",")[j]))) for j in range(len(str_split(string, ","))))'],
     modifies=MODD, allocates=True,
     loops={0: Loop(index='i', seq='es', inv=[
         'self.value is old(self.value)', 'es is not self.value', 'i <= len(es)', 'seq(es) == str_split(string, ",")',
         'all(implies(all(EKEY(es[j]) != k for j in range(i)), (k in self.value) == old(k in self.value) and self.value[k] == old(self.value[k])) for k in Strs())',
         'all(EKEY(es[j]) in self.value for j in range(i))',
         'all(implies(all(EKEY(es[m]) != EKEY(es[j]) for m in range(j + 1, i)), self.value[EKEY(es[j])] == ENTRYOF(EVAL(es[j]))) for j in range(i))',
     ], modifies=MODD, at_end=['EDEF(entry)'])})

P.fn(F + 'DictOption.updateFromDict', name='DictOption.updateFromDict',
     params=dict(self='DictOption', data='dict[str,list[list[str]]?]'), returns='none', fields=DV,
     requires=['implies(self.name in data and not isnone(data[self.name]), all(not isnone(data[self.name][j]) for j in range(len(data[self.name]))))'],
     raises={'ValueError': 'self.name in data and not isnone(data[self.name]) and any(len(data[self.name][j]) != 2 for j in range(len(data[self.name])))'},
     ensures=['self.value is old(self.value)',
              'implies(not old(self.name in data and not isnone(data[self.name])), '
              'all((k in self.value) == old(k in self.value) and self.value[k] == old(self.value[k]) for k in Strs()))',
              'implies(old(self.name in data and not isnone(data[self.name])), '
              'all(implies(all(data[self.name][j][0] != k for j in range(len(data[self.name]))), '
              '(k in self.value) == old(k in self.value) and self.value[k] == old(self.value[k])) for k in Strs()))',
              'implies(old(self.name in data and not isnone(data[self.name])), '
              'all(implies(all(data[self.name][m][0] != data[self.name][j][0] for m in range(j + 1, len(data[self.name]))), '
              'data[self.name][j][0] in self.value and self.value[data[self.name][j][0]] == ENTRYOF(data[self.name][j][1])) for j in range(len(data[self.name]))))'],
     modifies=MODD,
     loops={0: Loop(index='i', seq='es', inv=[
         'self.value is old(self.value)', 'i <= len(es)', 'es is data[self.name]',
         'all(implies(all(es[j][0] != k for j in range(i)), (k in self.value) == old(k in self.value) and self.value[k] == old(self.value[k])) for k in Strs())',
         'all(implies(all(es[m][0] != es[j][0] for m in range(j + 1, i)), es[j][0] in self.value and self.value[es[j][0]] == ENTRYOF(es[j][1])) for j in range(i))',
     ], modifies=MODD)})

# ------------------------------------------------------------------ sections: read-back of what was set
P.cls('ConfigSection', fields=dict(data='dict[str,ConfigOption]', parent='ConfigManager'))
P.cls('ConfigManager', fields={})
P.cls('InterpolationWrapper', fields=dict(inner='dict[str,ConfigSection]'))
for tname, vt in (('str', 'str'), ('int', 'int'), ('bool', 'bool')):
    P.fn(F + 'ConfigSection.__setitem__', name='ConfigSection.__setitem__/' + tname,
         params=dict(self='ConfigSection', key='str', value=vt), returns='none', fields=dict(value=vt),
         raises={'KeyError': 'key not in self.data'},
         ensures=['key in self.data', 'self.data[key].value == value',
                  'all((k in self.data) == old(k in self.data) and self.data[k] is old(self.data[k]) for k in Strs())'],
         modifies=[Mod('value', 'key in self.data and r is self.data[key]')])
P.fn(F + 'ConfigSection.__setitem__', name='ConfigSection.__setitem__/option',
     params=dict(self='ConfigSection', key='str', value='ConfigOption'), returns='none',
     raises={'ValueError': 'key in self.data'},
     ensures=['old(key not in self.data)', 'key in self.data', 'self.data[key] is value',
              'all(implies(k != key, (k in self.data) == old(k in self.data) and self.data[k] is old(self.data[k])) for k in Strs())'],
     modifies=[Mod('dict:str,ConfigOption', 'r is self.data')])

P.uninterp('SECITEM', ['ConfigSection', 'str'], 'int')       # abstract value of section[key] (polymorphic; token)
P.fn('ConfigSection.__getitem__', params=dict(self='ConfigSection', key='str'), returns='int',
     raises={'KeyError': 'iff:key not in self.data'}, ensures=['result == SECITEM(self, key)'], trusted=True,
     notes='interface of ConfigSection.__getitem__ as used by get() and the interpolation wrapper: KeyError iff the key is absent')
P.fn(F + 'ConfigSection.get', name='ConfigSection.get',
     params=dict(self='ConfigSection', key='str', default='int?=None'), returns='int?',
     ensures=['result == (SECITEM(self, key) if key in self.data else default)'])
P.fn(F + 'InterpolationWrapper.__getitem__', name='InterpolationWrapper.__getitem__',
     params=dict(self='InterpolationWrapper', key='str'), returns='int',
     raises={'KeyError': 'all(implies(s in self.inner, key not in self.inner[s].data) for s in Strs())'},
     ensures=['any(s in self.inner and key in self.inner[s].data for s in Strs())'],
     loops={0: Loop(index='i', seq='vs', inv=['all(key not in vs[j].data for j in range(i))'])})

# ------------------------------------------------------------------ layering order in client.main (call protocol, ghost phase)
P.ghost('phase', 'int')      # 0 nothing, 1 defaults loaded, 2 files applied, 3 command line applied
P.cls('Any')
P.cls('ArgumentParser')
P.cls('ArgGroup')
P.cls('ArgsDict')
P.fn('defaultConfig', params={}, returns='ConfigManager', requires=['ghost("phase") == 0'], ghost_sets={'phase': '1'},
     allocates=True, trusted=True, ensures=['fresh(result)'])
P.fn('collect_renderer_config', params=dict(config='ConfigManager'), returns='none', requires=['ghost("phase") == 1'],
     allocates=True, trusted=True, notes='adds renderer sections with their defaults')
P.fn('ArgumentParser.__init__', params=dict(self='ArgumentParser', prog='str'), returns='none', trusted=True)
P.fn('ArgumentParser.add_argument_group', params=dict(self='ArgumentParser', title='str'), returns='ArgGroup', allocates=True, trusted=True)
P.fn('ArgGroup.add_argument', params=dict(self='ArgGroup', a='str', b='str=""'), returns='none', trusted=True)
P.fn('ArgumentParser.add_argument', params=dict(self='ArgumentParser', a='str'), returns='none', trusted=True)
P.fn('ArgumentParser.parse_args', params=dict(self='ArgumentParser', argv='Any'), returns='Any', allocates=True, trusted=True)
P.fn('vars', params=dict(x='Any'), returns='ArgsDict', allocates=True, trusted=True)
P.uninterp('ARGITEM', ['ArgsDict', 'str'], 'Any?')
P.fn('ArgsDict.__getitem__', params=dict(self='ArgsDict', key='str'), returns='Any?', ensures=['result is ARGITEM(self, key)'], trusted=True)
P.fn('ConfigManager.registerArgparse', params=dict(self='ConfigManager', parser='ArgumentParser'), returns='none',
     requires=['ghost("phase") == 1'], trusted=True)
P.fn('ConfigManager.read', params=dict(self='ConfigManager', filenames='Any'), returns='none',
     requires=['ghost("phase") == 1'], ghost_sets={'phase': '2'}, allocates=True, trusted=True,
     notes='files are applied on top of defaults, before the command line')
P.fn('ConfigManager.updateFromDict', params=dict(self='ConfigManager', data='ArgsDict'), returns='none',
     requires=['ghost("phase") == 1 or ghost("phase") == 2'], ghost_sets={'phase': '3'}, trusted=True,
     notes='command line applied last')
P.fn('run', params=dict(filename='Any?', config='ConfigManager'), returns='none', requires=['ghost("phase") == 3'],
     allocates=True, trusted=True)
P.fn('plasTeX/client.py::main', name='client.main', params=dict(argv='Any'), returns='none',
     requires=['ghost("phase") == 0'], ensures=['ghost("phase") == 3'], allocates=True, skip_frame=True)
