"""C01 -- tokenization follows TeX's lexical rules: category tables, lookup and assignment (first part)."""
from pyvc.dsl import Prop, Loop, Mod

P = Prop('C01', "Tokenization follows TeX's lexical rules for every input and catcode table")
P.charset_mode = True     # category strings are sets of characters (A10)
FC = 'plasTeX/Context.py::'
CC = dict(ESCAPE=0, BGROUP=1, EGROUP=2, MATHSHIFT=3, ALIGNMENT=4, EOL=5, PARAMETER=6, SUPER=7, SUB=8, IGNORED=9, SPACE=10,
          LETTER=11, OTHER=12, ACTIVE=13, COMMENT=14, INVALID=15)
for k, v in CC.items():
    P.const('Token.CC_' + k, v)
LETTERS = 'abcdefghijklmnopqrstuvwxyzABCDEFGHIJKLMNOPQRSTUVWXYZ'
P.const('VERBATIM_CATEGORIES', ['', '', '', '', '', '', '', '', '', '', '', LETTERS, '', '', '', ''])
P.cls('ContextItem', fields=dict(categories='list[str]'))
P.cls('Context', fields=dict(categories='list[str]', contexts='list[ContextItem]'))

# A.1: a category table is a partition of the characters: 16 classes, pairwise disjoint as character sets; class 12 ("other")
# is implicit.  x ranges over one-character strings.
PART = ['len(%(c)s) == 16',
        'all(implies(len(x) == 1 and i != j and x in %(c)s[i], x not in %(c)s[j]) for x in Strs() for i in range(16) for j in range(16))']

P.fn(FC + 'Context.whichCode', name='Context.whichCode', params=dict(self='Context', char='str'), returns='int',
     requires=['len(char) == 1'] + [p % dict(c='self.categories') for p in PART],
     ensures=['0 <= result and result <= 15',
              # exactly one category: the class that contains the character, "other" (12) iff no explicit class does
              'implies(result != 12, char in self.categories[result])',
              'implies(result == 12, all(implies(i != 12, char not in self.categories[i]) for i in range(16)))',
              'all(implies(i != 12 and char in self.categories[i], result == i) for i in range(16))'])

NEWC = 'self.categories'
P.fn(FC + 'Context.catcode', name='Context.catcode', params=dict(self='Context', char='str', code='int'), returns='none',
     requires=['len(char) == 1', '0 <= code and code <= 15', 'len(self.contexts) >= 1', 'not isnone(self.contexts[len(self.contexts) - 1])',
               'self.categories is not self.contexts',
               'all(not isnone(self.contexts[j]) and self.contexts[j] is not self and implies(j < len(self.contexts) - 1, self.contexts[j] is not self.contexts[len(self.contexts) - 1]) for j in range(len(self.contexts)))']
     + [p % dict(c='self.categories') for p in PART],
     ensures=[
         # the assigned character has exactly the new category, every other character keeps its own
         'len(self.categories) == 16',
         'all(implies(len(x) == 1 and i != 12, (x in self.categories[i]) == ((i == code) if x == char else (x in old(seq(self.categories))[i]))) for x in Strs() for i in range(16))',
         # copy-on-write: the previous table object is untouched and the innermost frame now holds the new one
         'fresh(self.categories)', 'self.contexts[len(self.contexts) - 1].categories is self.categories',
         'all(implies(j < len(self.contexts) - 1, self.contexts[j].categories is old(self.contexts[j].categories)) for j in range(len(self.contexts)))'],
     allocates=True,
     modifies=[Mod('categories', 'r is self or r is self.contexts[len(self.contexts) - 1]'), Mod('list:str', 'False')],
     loops={0: Loop(index='i', inv=[
         'i <= 16', 'len(c) == 16', 'fresh(c)', 'c is self.categories', 'self.contexts[len(self.contexts) - 1].categories is c',
         'all(c[j] == replace(old(seq(self.categories))[j], char, "") for j in range(i))',
         'all(c[j] == old(seq(self.categories))[j] for j in range(i, 16))'],
         modifies=[Mod('list:str', 'r is c')])})

P.fn(FC + 'Context.setVerbatimCatcodes', name='Context.setVerbatimCatcodes', params=dict(self='Context'), returns='none',
     requires=['len(self.contexts) >= 1', 'not isnone(self.contexts[len(self.contexts) - 1])'],
     ensures=['len(self.categories) == 16',
              # every character is a letter (ASCII letters) or "other": no explicit class but 11 contains anything
              'all(implies(i != 11, self.categories[i] == "") for i in range(16))', 'self.categories[11] == "%s"' % LETTERS,
              'fresh(self.categories)', 'self.contexts[len(self.contexts) - 1].categories is self.categories'],
     allocates=True, modifies=[Mod('categories', 'r is self or r is self.contexts[len(self.contexts) - 1]'), Mod('list:str', 'False')])
P.assume('A10: character-set abstraction of category strings -- deleting a one-character string removes exactly that character '
         '(axiom on str.replace(c, ""), differential-tested in native/C01.py)')
