"""C20 -- cross-document label data survives a round trip and never blocks processing."""
from pyvc.dsl import Prop, Loop, Mod

P = Prop('C20', 'Cross-document label data survives a round trip and never blocks processing')
FI = 'plasTeX/__init__.py::'
FC = 'plasTeX/Context.py::'

# a node's attribute namespace as a finite map (getattr / setattr with computed names); values rendered to strings
P.cls('Macro', fields=dict(ns='dict[str,str?]'), attrmap='ns')
P.const('self.refAttributes', ['macroName', 'ref', 'title', 'captionName', 'id', 'url'])
REFA = ['macroName', 'ref', 'title', 'captionName', 'id', 'url']
ISREF = '(' + ' or '.join('k == "%s"' % a for a in REFA) + ')'

P.fn(FI + 'Macro.persist', name='Macro.persist',
     params=dict(self='Macro', attrs='dict[str,str]?=None'), returns='dict[str,str]',
     requires=['isnone(attrs) or attrs is not self.ns'],
     ensures=['implies(not isnone(attrs), result is attrs)', 'implies(isnone(attrs), fresh(result))',
              # exactly the non-None reference attributes are recorded, with their values
              'all(implies(%s and k in self.ns and not isnone(self.ns[k]), k in result and result[k] == unopt(self.ns[k])) for k in Strs())' % ISREF,
              'all(implies(not (%s and k in self.ns and not isnone(self.ns[k])), '
              '(k in result) == (not isnone(attrs) and old(k in attrs)) and implies(k in result, result[k] == old(attrs[k]))) for k in Strs())' % ISREF],
     allocates=True, modifies=[Mod('dict:str,str', 'not isnone(attrs) and r is attrs')], locals={'attrs': 'dict[str,str]?'},
     loops={0: Loop(index='i', seq='names', inv=[
         'not isnone(attrs)', 'attrs is not self.ns', 'implies(not isnone(old(attrs)), attrs is old(attrs))',
         'implies(isnone(old(attrs)), fresh(attrs))',
         'all(implies(any(names[j] == k for j in range(i)) and k in self.ns and not isnone(self.ns[k]), k in attrs and attrs[k] == unopt(self.ns[k])) for k in Strs())',
         'all(implies(not (any(names[j] == k for j in range(i)) and k in self.ns and not isnone(self.ns[k])), '
         '(k in attrs) == (not isnone(old(attrs)) and old(k in attrs)) and implies(k in attrs, attrs[k] == old(attrs[k]))) for k in Strs())'],
         modifies=[Mod('dict:str,str', 'r is attrs')])})

P.fn(FI + 'Macro.restore', name='Macro.restore',
     params=dict(self='Macro', attrs='dict[str,str]'), returns='none',
     requires=['attrs is not self.ns'],
     ensures=[
         # every recorded attribute is set again; url is reapplied as urloverride
         'all(implies(k in attrs and k != "url" and k != "urloverride", k in self.ns and self.ns[k] == attrs[k]) for k in Strs())',
         'implies("url" in attrs and "urloverride" not in attrs, "urloverride" in self.ns and self.ns["urloverride"] == attrs["url"])',
         'all(implies(k not in attrs and not (k == "urloverride" and "url" in attrs), (k in self.ns) == old(k in self.ns) and self.ns[k] == old(self.ns[k])) for k in Strs())'],
     allocates=True, modifies=[Mod('dict:str,str?', 'r is self.ns')],
     loops={0: Loop(index='i', seq='its', inv=[
         'all(implies(k != "url" and k != "urloverride" and any(its[j][0] == k for j in range(i)), k in self.ns and self.ns[k] == attrs[k]) for k in Strs())',
         'implies("url" in attrs and "urloverride" not in attrs and any(its[j][0] == "url" for j in range(i)), "urloverride" in self.ns and self.ns["urloverride"] == attrs["url"])',
         'all(implies(not any(its[j][0] == k or (k == "urloverride" and its[j][0] == "url") for j in range(i)), (k in self.ns) == old(k in self.ns) and self.ns[k] == old(self.ns[k])) for k in Strs())',
         'all((k in attrs) == old(k in attrs) and attrs[k] == old(attrs[k]) for k in Strs())'],
         modifies=[Mod('dict:str,str?', 'r is self.ns')])})

# round trip over the two contracts: restore(persist(n)) reproduces the recorded attributes
P.client('roundtrip', dict(n='Macro', m='Macro'),
         requires=['n is not m', 'n.ns is not m.ns'],
         ensures=['all(implies((%s) and k != "url" and k in n.ns and not isnone(n.ns[k]), k in m.ns and m.ns[k] == n.ns[k]) for k in Strs())' % ISREF,
                  'implies("url" in n.ns and not isnone(n.ns["url"]), "urloverride" in m.ns and m.ns["urloverride"] == n.ns["url"])'],
         body="""
a = n.persist()
m.restore(a)
""")
P.assume('attributes of a node form a finite map name -> value (getattr/setattr with computed names); Node-valued attributes are rendered '
         'to strings by str() before being recorded and are modelled as strings')

# ---------------------------------------------------------------- Context.persist / restore against arbitrary file contents
# A.14: the payload of the auxiliary file is *any* Python object (or an exception from pickle.load).  PyObj is the object
# protocol seen by the code: it is a dict (ISDICT) or not; subscripting / keys() on a non-dict raises.
P.cls('PyObj', universal=True)
P.cls('File')
P.cls('Context', fields=dict(persistentLabels='dict[str,Macro]', labels='dict[str,Macro]', warnOnUnrecognized='bool'))
P.uninterp('ISDICT', ['PyObj'], 'bool')
P.uninterp('LOADED', [], 'PyObj?')     # ghost: what pickle.load returns for the current file content (if it returns)
P.ghost('dumped', 'PyObj?')
P.ghost('loaded', 'PyObj?')
D = 'as_dict(self, "dict[str,PyObj?]")'
P.fn('PyObj.keys', params=dict(self='PyObj'), returns='list[str]',
     raises={'Exception': 'iff:not ISDICT(self)'},
     ensures=['fresh(result)', 'all((k in %s) == any(result[j] == k for j in range(len(result))) for k in Strs())' % D],
     allocates=True, modifies=[Mod('list:str', 'False')], trusted=True, notes='dict.keys(); AttributeError / TypeError on other objects')
P.fn('PyObj.__getitem__', params=dict(self='PyObj', key='str'), returns='PyObj?',
     raises={'Exception': 'iff:not ISDICT(self) or key not in %s' % D},
     ensures=['result is %s[key]' % D], trusted=True, notes='subscript: KeyError / TypeError / IndexError on anything but a dict holding the key')
P.fn('PyObj.__setitem__', params=dict(self='PyObj', key='str', value='PyObj?'), returns='none',
     raises={'Exception': 'iff:not ISDICT(self)'},
     ensures=['key in %s' % D, '%s[key] is value' % D,
              'all(implies(k != key, (k in %s) == old(k in %s) and %s[k] is old(%s[k])) for k in Strs())' % (D, D, D, D)],
     modifies=[Mod('dict:str,PyObj?', 'r is self')], trusted=True, notes='item assignment: TypeError on a non-dict')
P.uninterp('EXISTS', ['str'], 'bool')
P.fn('os.path.exists', params=dict(path='str'), returns='bool', ensures=['result == EXISTS(path)'], trusted=True)
P.fn('os.remove', params=dict(path='str'), returns='none', trusted=True,
     notes='assumed not to raise (the file was just seen to exist)')
P.fn('open', params=dict(path='str', mode='str'), returns='File', raises={'Exception': 'True'}, allocates=True, trusted=True)
P.fn('pickle.load', params=dict(fh='File'), returns='PyObj?', raises={'Exception': 'True'}, allocates=True, trusted=True,
     ghost_sets={'loaded': 'LOADED()'},
     ensures=['result is LOADED()', 'not fresh(result) or True',
              'implies(not isnone(result) and ISDICT(result), all(implies(k in as_dict(result, "dict[str,PyObj?]"), '
              'as_dict(result, "dict[str,PyObj?]")[k] is not result) for k in Strs()))'],
     notes='returns an arbitrary object or raises an arbitrary Exception (truncated / corrupted / foreign file); assumed: a dict payload does not contain itself as a value')
P.fn('pickle.dump', params=dict(obj='PyObj', fh='File'), returns='none', raises={'Exception': 'True'},
     ghost_sets={'dumped': 'obj'}, trusted=True)
P.fn('Macro.persist/any', params=dict(self='Macro'), returns='PyObj', ensures=['ISDICT(result)', 'fresh(result)'],
     allocates=True, modifies=[Mod('dict:str,str', 'False')], trusted=True,
     notes='Macro.persist() returns a new dict (proved above under the typed contract Macro.persist)')

DD = 'as_dict(ghost("dumped"), "dict[str,PyObj?]")'
LD = 'as_dict(LOADED(), "dict[str,PyObj?]")'      # the loaded object's content, read in the OLD heap via old(...)
P.fn(FC + 'Context.persist', name='Context.persist',
     params=dict(self='Context', filename='str', rtype="str='none'"), returns='none',
     requires=['isnone(ghost("dumped"))', 'isnone(ghost("loaded"))', 'all(implies(k in self.persistentLabels, not isnone(self.persistentLabels[k])) for k in Strs())'],
     # never raises for any file content; if something was written, it is a dict whose entry for this renderer is a dict
     # holding a record for every persistent label
     ensures=['implies(not isnone(ghost("dumped")), ISDICT(ghost("dumped")) and rtype in %s and not isnone(%s[rtype]) and ISDICT(%s[rtype]) and '
              'all(implies(k in self.persistentLabels, k in as_dict(%s[rtype], "dict[str,PyObj?]")) for k in Strs()))' % (DD, DD, DD, DD),
              # the entries saved earlier for OTHER renderers are kept when the old file was a dict (separately per renderer)
              'implies(not isnone(ghost("dumped")) and not isnone(ghost("loaded")) and ISDICT(ghost("loaded")) and old(EXISTS(filename)), '
              'all(implies(k != rtype and old(k in %s), k in %s and %s[k] is old(%s[k])) for k in Strs()))' % (LD, DD, DD, LD)],
     allocates=True, skip_frame=True,
     locals={'d': 'PyObj?', 'data': 'PyObj?', '{}': 'dict[str,PyObj?]'},
     calls={'os.path.exists': 'os.path.exists', 'os.remove': 'os.remove', 'open': 'open', 'pickle.load': 'pickle.load',
            'pickle.dump': 'pickle.dump', 'value.persist': 'Macro.persist/any'},
     loops={0: Loop(index='i', seq='its', inv=[
         'isnone(ghost("dumped"))', 'not isnone(d)', 'ISDICT(d)', 'rtype in as_dict(d, "dict[str,PyObj?]")',
         'data is as_dict(d, "dict[str,PyObj?]")[rtype]', 'not isnone(data)', 'ISDICT(data)', 'data is not d',
         'all(its[j][0] in as_dict(data, "dict[str,PyObj?]") for j in range(i))',
         'all((k in self.persistentLabels) == any(its[j][0] == k for j in range(len(its))) for k in Strs())',
         'all(not isnone(its[j][1]) for j in range(len(its)))',
         'implies(not isnone(ghost("loaded")) and ISDICT(ghost("loaded")) and EXISTS(filename), d is ghost("loaded") and '
         'all(implies(k != rtype and old(k in %s), k in as_dict(d, "dict[str,PyObj?]") and as_dict(d, "dict[str,PyObj?]")[k] is old(%s[k])) for k in Strs()))' % (LD, LD)],
         modifies=[Mod('dict:str,PyObj?', 'r is data')])})
P.unverified_surrounding('what pickle actually writes and reads (file system, pickle format): library; persisted attribute values of type Node')

P.fn('PyObj.items', params=dict(self='PyObj'), returns='list[tuple[str,PyObj?]]', raises={'Exception': 'iff:not ISDICT(self)'},
     allocates=True, modifies=[Mod('list:tuple[str,PyObj?]', 'False')], trusted=True)
P.fn('PyObj.get', params=dict(self='PyObj', key='str', default='str'), returns='str', raises={'Exception': 'not ISDICT(self)'}, trusted=True,
     notes='value.get(name, default); anything may come back from a foreign payload, modelled as a string or an exception')
P.fn('new_node', params={}, returns='Macro', raises={'Exception': 'True'}, allocates=True, trusted=True,
     notes="self[name]() -- context lookup + instantiation; may raise for a foreign payload")
P.fn('Macro.restore/any', params=dict(self='Macro', attrs='PyObj?'), returns='none', raises={'Exception': 'True'},
     modifies=[Mod('dict:str,str?', 'r is self.ns')], allocates=True, trusted=True,
     notes='Macro.restore on an arbitrary payload value: may raise (e.g. not a dict); the well-formed case is the typed contract Macro.restore')
P.fn(FC + 'Context.restore', name='Context.restore',
     params=dict(self='Context', filename='str', rtype="str='none'"), returns='none',
     # never raises, whatever the file holds; a missing file changes nothing
     ensures=['implies(not EXISTS(filename), all((k in self.labels) == old(k in self.labels) and self.labels[k] is old(self.labels[k]) for k in Strs()))',
              'implies(not EXISTS(filename), self.warnOnUnrecognized == old(self.warnOnUnrecognized))'],
     allocates=True, skip_frame=True, locals={'d': 'PyObj?', 'data': 'PyObj?'},
     calls={'os.path.exists': 'os.path.exists', 'open': 'open', 'pickle.load': 'pickle.load', "self[value.get('macroName', 'Macro')]": 'new_node',
            'n.restore': 'Macro.restore/any', 'value.get': 'PyObj.get'},
     loops={0: Loop(index='i', seq='its', inv=['True'], modifies=[Mod('dict:str,Macro', 'True'), Mod('dict:str,str?', 'True')])})
