"""C10 (second sidecar module) -- the grouping protocol of the cell and row separators of an array: formatting set in one cell does not
leak into the next.  `&` closes the group of the cell it ends and opens one for the next cell; `\\\\` closes the group of the last cell
BEFORE it reads its own arguments (the star and the optional space) and opens the group of the first cell of the next row afterwards.
The context depth is the ghost `depth`; `parsed_at` records the depth at which the row end read its arguments."""
from pyvc.dsl import Prop, Loop, Mod

P = Prop('C10', 'Lists and tables keep their shape: items, rows, cells and spans as written')
F = 'plasTeX/Base/LaTeX/Arrays.py::'
P.cls('Context')
P.cls('Node')
P.cls('Doc', fields=dict(context='Context'))
P.cls('TeX')
P.cls('Sep', bases=['Node'], fields=dict(ownerDocument='Doc'))
P.ghost('depth', 'int')
P.ghost('parsed_at', 'int')
P.ghost('nparse', 'int')
P.ghost('lowest', 'int')
P.fn('Context.pop', params=dict(self='Context'), returns='none', trusted=True, modifies=[],
     ghost_sets={'depth': 'ghost("depth") - 1', 'lowest': '(ghost("depth") - 1 if ghost("depth") - 1 < ghost("lowest") else ghost("lowest"))'},
     notes='Context.pop: leaves the innermost group (C04)')
P.fn('Context.push', params=dict(self='Context'), returns='none', trusted=True, modifies=[], ghost_sets={'depth': 'ghost("depth") + 1'},
     notes='Context.push: opens a group (C04)')
P.fn('Sep.parse', params=dict(self='Sep', tex='TeX'), returns='opaque', trusted=True, allocates=True, modifies=[],
     ghost_sets={'parsed_at': 'ghost("depth")', 'nparse': 'ghost("nparse") + 1'}, notes='Macro.parse: reads the declared arguments (C05)')
P.fn('Doc.createElement', params=dict(self='Doc', name='str'), returns='Node', trusted=True, allocates=True, modifies=[], ensures=['fresh(result)'])
PRE = ['ghost("lowest") == ghost("depth")', 'ghost("nparse") == 0']
P.fn(F + 'Array.CellDelimiter.invoke', name='CellDelimiter.invoke', params=dict(self='Sep', tex='TeX'), returns='list[Node]',
     requires=PRE,
     ensures=['ghost("depth") == old(ghost("depth"))', 'ghost("lowest") == old(ghost("depth")) - 1',     # the cell's group was closed, a new one is open
              'len(result) == 2', 'result[0] is self', 'fresh(result[1])'],
     allocates=True, modifies=[], locals={'[]': 'list[Node]'},
     calls={'self.ownerDocument.context.pop': 'Context.pop', 'self.ownerDocument.context.push': 'Context.push', 'self.ownerDocument.createElement': 'Doc.createElement'})
P.fn(F + 'Array.EndRow.invoke', name='EndRow.invoke', params=dict(self='Sep', tex='TeX'), returns='list[Node]',
     requires=PRE,
     ensures=['ghost("depth") == old(ghost("depth"))', 'ghost("lowest") == old(ghost("depth")) - 1',
              # its own arguments are read outside the group of the cell it ends
              'ghost("nparse") == 1', 'ghost("parsed_at") == old(ghost("depth")) - 1',
              'len(result) == 3', 'result[0] is self', 'fresh(result[1])', 'fresh(result[2])', 'result[1] is not result[2]'],
     allocates=True, modifies=[], locals={'[]': 'list[Node]'},
     calls={'self.ownerDocument.context.pop': 'Context.pop', 'self.ownerDocument.context.push': 'Context.push', 'self.parse': 'Sep.parse',
            'self.ownerDocument.createElement': 'Doc.createElement'})
P.unverified_surrounding('Array.digest / ArrayRow / ArrayCell digestion (which tokens end up in which cell): bounded native tables (bounded/table-shape)')
