"""C02 (second sidecar module) -- Definition.invoke: matching the parameter text of a \\def against the token stream.

Proved per pattern unit (one iteration of the outer loop over the parameter text), for every parameter text in the normal form and every
stream: what the unit consumes from the stream and what it appends to the actual-argument list.  The stream is the ghost sequence XS with
the read position tex.pos (the model C05 uses for the scanners); an undelimited argument is read by TeX.readArgument (C05), abstracted
here by RA_END / RA_LEN / RA_TOK (where it ends and what it returns as a function of where it starts)."""
from pyvc.dsl import Prop, Loop, Mod

P = Prop('C02', "Macro definitions expand exactly as TeX's substitution rules say")
FI = 'plasTeX/__init__.py::'
P.cls('Any', universal=True, elem='Any', fields=dict(catcode='int', nodeType='int', text='str'))
P.cls('TokIter', fields=dict(pos='int', src='list[Any]'))
P.cls('TeX', fields=dict(pos='int'))
P.cls('Macro', bases=['Any'], fields=dict(args='list[Any]', definition='list[Any]'))
P.const('Token.CC_PARAMETER', 6)
P.const('Token.CC_BGROUP', 1)
P.const('string.digits', '0123456789')
P.uninterp('XS', [], 'seq[Any]')
P.uninterp('AK', [], 'seq[int]')            # category code of each token of the parameter text
P.uninterp('RA_END', ['int'], 'int')
P.uninterp('RA_LEN', ['int'], 'int')
P.uninterp('RA_TOK', ['int', 'int'], 'Any')
P.ghost('nparams', 'int')
P.ghost('first_param_none', 'bool')
P.ghost('expanded', 'bool')


def hook_eq(ex, a, b, st):
    """Token == Token (Tokenizer.Token.__eq__): the same object, or the same category and the same characters"""
    import z3
    from pyvc import ty as T
    if isinstance(a.t, T.Ref) and isinstance(b.t, T.Ref) and a.t.cls == 'Any' and b.t.cls == 'Any':
        cat, txt = st.h(ex.eng.k_field('catcode')), st.h(ex.eng.k_field('text'))
        return z3.Or(a.z == b.z, z3.And(a.z != 0, b.z != 0, z3.Select(cat, a.z) == z3.Select(cat, b.z), z3.Select(txt, a.z) == z3.Select(txt, b.z)))
    return None


P.hook_eq = hook_eq
P.token_in_str = True          # `token in "0123456789"`: a Token is a str subclass, the test is the substring test on its characters (field text)


@P.spec(heap=True)
def TEQ(x: 'Any', y: 'Any') -> 'bool':
    """Token equality (in specifications == on nodes is identity)"""
    return x is y or (x.catcode == y.catcode and x.text == y.text)


@P.spec(fuel=1)
def SECA(j: 'int') -> 'bool':
    """token j of the parameter text is the one after a parameter character (the digit of #n)"""
    return j >= 1 and j < len(AK()) and AK()[j - 1] == 6 and not SECA(j - 1)


@P.spec(fuel=1)
def NHASH(j: 'int') -> 'int':
    """number of parameters #n that start before position j of the parameter text"""
    if j <= 0:
        return 0
    return NHASH(j - 1) + (1 if AK()[j - 1] == 6 and not SECA(j - 1) else 0)


P.fn('iter_list', params=dict(x='list[Any]'), returns='TokIter', trusted=True, allocates=True, modifies=[],
     ensures=['fresh(result)', 'result.pos == 0', 'result.src is x'], notes='iter(list): a list iterator')
P.fn('TokIter.__next__', params=dict(self='TokIter'), returns='Any', raises={'StopIteration': 'iff:self.pos >= len(self.src)'},
     ensures=['result is self.src[old(self.pos)]', 'self.pos == old(self.pos) + 1'], modifies=[Mod('pos', 'r is self')], trusted=True,
     notes='list iterator protocol')
P.fn('TeX.__next__', params=dict(self='TeX'), returns='Any', raises={'StopIteration': 'iff:self.pos >= len(XS())'},
     ensures=['result is XS()[old(self.pos)]', 'self.pos == old(self.pos) + 1'], modifies=[Mod('pos', 'r is self')], trusted=True,
     notes='TeX.itertokens as a stream view: the unexpanded tokens XS from the read position on')
P.fn('TeX.itertokens', params=dict(self='TeX'), returns='TeX', ensures=['result is self'], trusted=True)
P.fn('TeX.pushToken', params=dict(self='TeX', t='Any?'), returns='none', ensures=['self.pos == old(self.pos) - 1'], modifies=[Mod('pos', 'r is self')],
     trusted=True)
P.fn('TeX.readArgument', params=dict(self='TeX', spec='str?=None', default='Any?=None', parentNode='Any?=None', name='str?=None'), returns='list[Any]',
     trusted=True, allocates=True, requires=['0 <= self.pos', 'self.pos <= len(XS())'],
     ensures=['fresh(result)', 'self.pos == RA_END(old(self.pos))', 'old(self.pos) <= self.pos', 'self.pos <= len(XS())',
              'len(result) == RA_LEN(old(self.pos))', 'all(result[i] is RA_TOK(old(self.pos), i) for i in range(len(result)))'],
     modifies=[Mod('pos', 'r is self')],
     notes='TeX.readArgument without a type: one undelimited argument (a token or the content of a brace group): C05')
P.fn('expandDef/c', params=dict(definition='list[Any]', params='list[list[Any]?]'), returns='list[Any]', trusted=True, allocates=True, modifies=[],
     ensures=['fresh(result)'], ghost_sets={'nparams': 'len(params)', 'first_param_none': 'len(params) >= 1 and isnone(params[0])', 'expanded': 'True'},
     notes='proved in C02_macros (expandDef)')
P.fn('macroName', params=dict(m='Any'), returns='str', trusted=True, modifies=[])
P.fn('log.info', params=dict(msg='opaque'), returns='none', trusted=True, modifies=[])
P.fn('deflog.debug2', params=dict(msg='opaque', a='opaque', b='opaque'), returns='none', trusted=True, modifies=[])
P.fn('join/l', params=dict(x='opaque'), returns='str', trusted=True, modifies=[])

M = 'len(self.args)'
J = 'head(argIter.pos)'
P0 = 'head(tex.pos)'
LAST = 'params[len(params) - 1]'
A = 'self.args[%s]' % J
NORMAL = [
    'len(AK()) == %s' % M,
    'all(not isnone(self.args[j]) and AK()[j] == self.args[j].catcode and self.args[j].nodeType != 1 for j in range(%s))' % M,
    # every parameter character is followed by a digit (no ##, no #{ and no # at the end of the parameter text: known findings / TeX errors)
    'all(implies(AK()[j] == 6 and not SECA(j), j + 1 < %s and AK()[j + 1] != 6 and AK()[j + 1] != 1 and self.args[j + 1].text in "0123456789") '
    'for j in range(%s))' % (M, M),
    # delimiters are single tokens: two adjacent ordinary tokens occur only before the first parameter
    'all(implies(j >= 1 and AK()[j] != 6 and not SECA(j) and AK()[j - 1] != 6 and not SECA(j - 1), all(AK()[i] != 6 for i in range(j))) for j in range(%s))' % M,
    '0 <= tex.pos', 'tex.pos <= len(XS())', 'all(not isnone(XS()[k]) and XS()[k].nodeType != 1 for k in range(len(XS())))',
    'self.args is not self.definition', 'not ghost("expanded")']
OUTER = ['fresh(argIter)', 'argIter.src is self.args', '0 <= argIter.pos', 'argIter.pos <= %s' % M, 'not SECA(argIter.pos)',
         'fresh(params)', 'len(params) >= 1', 'isnone(params[0])', '0 <= tex.pos', 'tex.pos <= len(XS())',
         'len(params) == 1 + NHASH(argIter.pos) - (1 if inparam else 0)', 'not ghost("expanded")']
STEP = [
    # --- a parameter #n starts: an undelimited parameter that was open is read first (adjacent parameters); nothing else is consumed
    'implies(AK()[%s] == 6, argIter.pos == %s + 2 and inparam and len(params) == head(len(params)) + (1 if head(inparam) else 0) '
    'and tex.pos == (RA_END(%s) if head(inparam) else %s))' % (J, J, P0, P0),
    'implies(AK()[%s] == 6 and head(inparam), len(%s) == RA_LEN(%s) and all(%s[i] is RA_TOK(%s, i) for i in range(len(%s))))' % (J, LAST, P0, LAST, P0, LAST),
    # --- an ordinary token while a parameter is open delimits it: the parameter takes everything up to the first token equal to the delimiter,
    #     which is consumed and not part of the argument (everything that is left when the delimiter never comes)
    'implies(AK()[%s] != 6 and head(inparam), argIter.pos == %s + 1 and not inparam and len(params) == head(len(params)) + 1 and not isnone(%s))' % (J, J, LAST),
    'implies(AK()[%s] != 6 and head(inparam), all(%s[i] is XS()[%s + i] for i in range(len(%s))))' % (J, LAST, P0, LAST),
    'implies(AK()[%s] != 6 and head(inparam), all(not TEQ(XS()[%s + i], %s) for i in range(len(%s))))' % (J, P0, A, LAST),
    'implies(AK()[%s] != 6 and head(inparam), (%s + len(%s) < len(XS()) and TEQ(XS()[%s + len(%s)], %s) and tex.pos == %s + len(%s) + 1) '
    'or (%s + len(%s) == len(XS()) and tex.pos == len(XS())))' % (J, P0, LAST, P0, LAST, A, P0, LAST, P0, LAST),
    # --- an ordinary token outside a parameter is matched against exactly one token of the stream
    'implies(AK()[%s] != 6 and not head(inparam), argIter.pos == %s + 1 and not inparam and len(params) == head(len(params)) '
    'and tex.pos == (%s + 1 if %s < len(XS()) else %s))' % (J, J, P0, P0, P0),
    # --- the arguments collected before stay what and where they were
    'all(params[i] is head(seq(params))[i] for i in range(head(len(params))))']
UNF = ['unfold(SECA(argIter.pos)) == SECA(argIter.pos)', 'unfold(SECA(argIter.pos - 1)) == SECA(argIter.pos - 1)',
       'unfold(NHASH(argIter.pos)) == NHASH(argIter.pos)', 'unfold(NHASH(argIter.pos - 1)) == NHASH(argIter.pos - 1)']
J0, P00 = 'head(argIter.pos, 0)', 'head(tex.pos, 0)'
P.fn(FI + 'Definition.invoke', name='Definition.invoke', params=dict(self='Macro', tex='TeX'), returns='list[Any]',
     requires=NORMAL,
     ensures=['ghost("expanded")', 'ghost("first_param_none")',
              # one actual argument per parameter of the pattern (and the unused entry 0)
              'ghost("nparams") == 1 + NHASH(%s)' % M],
     allocates=True, skip_frame=True, locals={'[]': 'list[Any]', 'params': 'list[list[Any]?]', '[None]': 'list[list[Any]?]'},
     calls={'iter': 'iter_list', 'tex.readArgument': 'TeX.readArgument', 'tex.itertokens': 'TeX.itertokens', 'tex.pushToken': 'TeX.pushToken',
            'expandDef': 'expandDef/c', 'macroName': 'macroName', 'log.info': 'log.info', 'deflog.debug2': 'deflog.debug2', "''.join": 'join/l'},
     loops={0: Loop(inv=OUTER, at_end=UNF + STEP,
                    modifies=[Mod('pos', 'r is argIter or r is tex'), Mod('list:list[Any]?', 'r is params'), Mod('list:Any', 'fresh(r)')]),
            # the inner loop takes the token after the parameter character: it runs once (every path of its body ends in break; ## is outside the normal form)
            1: Loop(inv=['fresh(argIter)', 'argIter.src is self.args', 'argIter.pos == %s + 1' % J0, 'inparam == head(inparam, 0)'],
                    at_head=['AK()[%s] == 6 and not SECA(%s)' % (J0, J0), 'argIter.pos < %s' % M, 'AK()[argIter.pos] != 6 and AK()[argIter.pos] != 1',
                             'self.args[argIter.pos].text in "0123456789"'],
                    modifies=[Mod('pos', 'r is argIter')]),
            2: Loop(inv=[], modifies=[Mod('pos', 'r is tex'), Mod('list:Any', 'r is param')]),
            3: Loop(inv=['fresh(param)', 'param is not self.args', '%s <= tex.pos' % P00, 'tex.pos <= len(XS())', 'len(param) == tex.pos - %s' % P00,
                         'all(param[i] is XS()[%s + i] for i in range(len(param)))' % P00,
                         'all(not TEQ(XS()[%s + i], a) for i in range(len(param)))' % P00],
                    at_exit=['(%s + len(param) < len(XS()) and TEQ(XS()[%s + len(param)], a) and tex.pos == %s + len(param) + 1) '
                             'or (%s + len(param) == len(XS()) and tex.pos == len(XS()))' % (P00, P00, P00, P00)],
                    modifies=[Mod('pos', 'r is tex'), Mod('list:Any', 'r is param')]),
            4: Loop(inv=['tex.pos == %s' % P00], modifies=[Mod('pos', 'r is tex')])})
P.assume('the stream seen by Definition.invoke is the sequence of unexpanded tokens from the read position on (TeX.itertokens; pushToken un-reads); '
         'TeX.readArgument (undelimited argument) is a function of the read position')
P.unverified_surrounding('composition of the per-unit steps over a whole parameter text and DefCommand.invoke / Context.newdef (how the parameter text is stored): '
                         'bounded native comparison with an independent evaluator (C02 bounded/programs)')
