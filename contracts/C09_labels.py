"""C09 -- every reference resolves to the object its label names (plasTeX/Context.py label / ref)."""
from pyvc.dsl import Prop, Loop, Mod

P = Prop('C09', 'Every reference resolves to the object its label names, wherever the label is')
F = 'plasTeX/Context.py::'
P.cls('Node', fields=dict(id='str', idref='dict[str,Node]'), elem='Node')   # a node is falsy when it has no children (__len__)
P.cls('Context', fields=dict(labels='dict[str,Node]', persistentLabels='dict[str,Node]', refs='dict[str,list[Node]]',
                             currentlabel='Node?'))

# fresh placeholder node created by  self['Macro']()  (Context.__getitem__ + class instantiation)
P.fn('new_macro', params={}, returns='Node',
     ensures=['fresh(result)', 'fresh(result.idref)', 'all(k not in result.idref for k in Strs())',
              'all(implies(allocated(x) and fresh(x), x is result) for x in Refs("Node"))'], allocates=True,
     modifies=[Mod('id', 'False'), Mod('idref', 'False'), Mod('dict:str,Node', 'False')], trusted=True,
     notes="self['Macro']() creates one new Macro node with its own (new, empty) idref dictionary")

# separation: the context's three tables and every node's idref dictionary are pairwise different objects
SEP = ['self.labels is not self.persistentLabels', 'self.labels is not self.refs', 'self.persistentLabels is not self.refs',
       'all(implies(allocated(x), x.idref is not self.labels and x.idref is not self.persistentLabels and x.idref is not self.refs) for x in Refs("Node"))',
       'all(implies(allocated(x) and allocated(y) and x is not y, x.idref is not y.idref) for x in Refs("Node") for y in Refs("Node"))',
       'all(implies(k in self.refs, not isnone(self.refs[k]) and self.refs[k] is not self.labels and self.refs[k] is not self.refs) for k in Strs())']

L = 'str_strip(label)'


def same_idref(o):
    return 'all((k in %s.idref) == old(k in %s.idref) and %s.idref[k] is old(%s.idref[k]) for k in Strs())' % (o, o, o, o)


# the representation invariant the two operations keep (label: as long as no node gets a second label)
WF = SEP + ['all(implies(k in self.refs, all(isinstance(self.refs[k][j], Node) for j in range(len(self.refs[k])))) for k in Strs())',
            'all(implies(allocated(x), all(implies(k in x.idref, not isnone(x.idref[k])) for k in Strs())) for x in Refs("Node"))',
            'all(implies(k in self.labels, not isnone(self.labels[k])) for k in Strs())']
IDC = 'all(implies(k in self.labels, not isnone(self.labels[k]) and self.labels[k].id == k) for k in Strs())'
UNCH_REFS = 'all((k in self.refs) == old(k in self.refs) and self.refs[k] is old(self.refs[k]) for k in Strs())'
P.fn(F + 'Context.ref', name='Context.ref',
     params=dict(self='Context', obj='Node', name='str', label='str'), returns='none',
     requires=WF,
     ensures=WF + [
         # empty label: nothing happens
         'implies(%s == "", all((k in obj.idref) == old(k in obj.idref) and obj.idref[k] is old(obj.idref[k]) for k in Strs()))' % L,
         # known label: resolved to exactly the labelled object
         'implies(%s != "" and old(%s in self.labels), name in obj.idref and obj.idref[name] is old(self.labels[%s]))' % (L, L, L),
         # unknown label: a fresh placeholder carrying the label, and obj is queued under it
         'implies(%s != "" and not old(%s in self.labels), name in obj.idref and fresh(obj.idref[name]) and obj.idref[name].id == %s '
         'and %s in self.refs and len(self.refs[%s]) >= 1 and self.refs[%s][len(self.refs[%s]) - 1] is obj)' % (L, L, L, L, L, L, L),
         # the queue under this label grows by exactly obj at its end; the other queues stay
         'implies(%s != "" and not old(%s in self.labels) and old(%s in self.refs), len(self.refs[%s]) == old(len(self.refs[%s])) + 1 and '
         'all(self.refs[%s][j] is old(seq(self.refs[%s]))[j] for j in range(len(self.refs[%s]) - 1)))' % (L, L, L, L, L, L, L, L),
         'implies(%s != "" and not old(%s in self.labels) and not old(%s in self.refs), len(self.refs[%s]) == 1)' % (L, L, L, L),
         'all(implies(k != %s, (k in self.refs) == old(k in self.refs) and self.refs[k] is old(self.refs[k])) for k in Strs())' % L,
         # the idref of every other object is untouched
         'all(implies(allocated(x) and not fresh(x) and x is not obj, %s) for x in Refs("Node"))' % same_idref('x'),
         # the other entries of obj.idref and the label table are untouched
         'all(implies(k != name, (k in obj.idref) == old(k in obj.idref) and obj.idref[k] is old(obj.idref[k])) for k in Strs())',
         'all((k in self.labels) == old(k in self.labels) and self.labels[k] is old(self.labels[k]) for k in Strs())',
     ],
     allocates=True,
     modifies=[Mod('dict:str,Node', 'r is obj.idref or r is self.refs'), Mod('list:Node', '%s in self.refs and r is self.refs[%s]' % (L, L)),
               Mod('id', 'False')],
     calls={"self['Macro']": 'new_macro'}, locals={'[]': 'list[Node]'})

N = '(node if not isnone(node) else old(self.currentlabel))'
HASN = '(not isnone(node) or not isnone(old(self.currentlabel)))'
PEND = 'old(%s in self.refs)' % L
RESOLVE = '%s != "" and %s and (%s in self.labels)' % (L, PEND, L)      # the back-patching branch runs


def final_idref(o):
    """Entries of o.idref after back-patching: placeholders for the label (by their id) now point at labels[label]."""
    return ('all((k in %s.idref) == old(k in %s.idref) and implies(old(k in %s.idref), %s.idref[k] is '
            '(self.labels[%s] if old(%s.idref[k]).id == %s else old(%s.idref[k]))) for k in Strs())'
            % (o, o, o, o, L, o, L, o))


def FIN(x):
    """inside the loops (label is the stripped local): x.idref after back-patching"""
    return ('all((k in %s.idref) == old(k in %s.idref) and implies(old(k in %s.idref), %s.idref[k] is '
            '(self.labels[label] if old(%s.idref[k]).id == label else old(%s.idref[k]))) for k in Strs())'
            % (x, x, x, x, x, x))


def SAME(x):
    return 'all((k in %s.idref) == old(k in %s.idref) and %s.idref[k] is old(%s.idref[k]) for k in Strs())' % (x, x, x, x)


def PATCH(v):
    return '(self.labels[label] if %s.id == label else %s)' % (v, v)


def FINVAL(x, k):
    return '(self.labels[label] if old(%s.idref[%s]).id == label else old(%s.idref[%s]))' % (x, k, x, k)


INLIST = 'any(0 <= j and j < len(old(seq(self.refs[%s]))) and old(seq(self.refs[%s]))[j] is x for j in Ints())' % (L, L)
P.fn(F + 'Context.label', name='Context.label',
     params=dict(self='Context', label='str', node='Node?=None'), returns='none',
     requires=WF + [IDC],
     ensures=WF + [
         # the label names the node and becomes its identifier
         'implies(%s != "" and %s, %s in self.labels and self.labels[%s] is %s and self.persistentLabels[%s] is %s and %s.id == %s)'
         % (L, HASN, L, L, N, L, N, N, L),
         # no other label changes
         'all(implies(k != %s or %s == "" or not %s, (k in self.labels) == old(k in self.labels) and self.labels[k] is old(self.labels[k])) for k in Strs())' % (L, L, HASN),
         # pending references to this label are resolved and the queue entry disappears
         'implies(%s, %s not in self.refs)' % (RESOLVE, L),
         'all(implies(allocated(x), not fresh(x)) for x in Refs("Node"))',      # no node is created
         # back-patching: in every object queued under this label, each entry whose placeholder carries the label now points at the labelled node
         # (the other entries stay); the idref of every object that was not queued is untouched -- however often an object was queued
         'implies(%s, all(%s for j in range(len(old(seq(self.refs[%s]))))))' % (RESOLVE, final_idref('old(seq(self.refs[%s]))[j]' % L), L),
         'implies(%s, all(implies(allocated(x) and all(old(seq(self.refs[%s]))[j] is not x for j in range(len(old(seq(self.refs[%s]))))), %s) for x in Refs("Node")))'
         % (RESOLVE, L, L, same_idref('x')),
         'implies(not (%s), all(implies(allocated(x), %s) for x in Refs("Node")))' % (RESOLVE, same_idref('x')),
         # nothing else is touched: other queues, and idref of every object not queued under this label
         'all(implies(k != %s or not (%s), (k in self.refs) == old(k in self.refs) and self.refs[k] is old(self.refs[k])) for k in Strs())' % (L, RESOLVE),
     ],
     allocates=True,
     modifies=[Mod('dict:str,Node', 'r is self.labels or r is self.persistentLabels or r is self.refs or '
                   'any(allocated(x) and r is x.idref for x in Refs("Node"))'),
               Mod('id', 'r is %s' % N)],
     loops={
         0: Loop(index='i', seq='rs', inv=[
             'all(implies(allocated(x), not fresh(x)) for x in Refs("Node"))', 'label == old(%s)' % L, 'label in self.labels', 'label in self.refs', 'rs is self.refs[label]', 'i <= len(rs)',
             'seq(rs) == old(seq(self.refs[%s]))' % L,
             'self.labels[label].id == label',
             'all(allocated(rs[j]) and rs[j].idref is not self.refs and rs[j].idref is not self.labels and rs[j].idref is not self.persistentLabels for j in range(len(rs)))',
             'all(%s for j in range(i))' % FIN('rs[j]'),
             'all(implies(allocated(x) and all(rs[j] is not x for j in range(i)), %s) for x in Refs("Node"))' % SAME('x'),
         ], modifies=[Mod('dict:str,Node', 'any(allocated(x) and r is x.idref for x in Refs("Node"))')]),
         1: Loop(index='m', seq='its', inv=[
             'all(implies(allocated(x), not fresh(x)) for x in Refs("Node"))', 'label == old(%s)' % L, 'label in self.labels', 'label in self.refs', 'rs is self.refs[label]', 'i <= len(rs)', 'i >= 1', 'obj is rs[i - 1]',
             'seq(rs) == old(seq(self.refs[%s]))' % L, 'self.labels[label].id == label',
             'allocated(obj)', 'obj.idref is not self.refs', 'obj.idref is not self.labels', 'obj.idref is not self.persistentLabels',
             'all((k in obj.idref) == any(its[j][0] == k for j in range(len(its))) for k in Strs())',
             'all(obj.idref[its[j][0]] is (self.labels[label] if its[j][1].id == label else its[j][1]) for j in range(m))',
             'all(obj.idref[its[j][0]] is its[j][1] for j in range(m, len(its)))',
             'all(implies(rs[j] is not obj, %s) for j in range(i - 1))' % FIN('rs[j]'),
             'all(implies(allocated(x) and x is not obj and all(rs[j] is not x for j in range(i - 1)), %s) for x in Refs("Node"))' % SAME('x'),
             'all((k in obj.idref) == old(k in obj.idref) for k in Strs())',
             'all(%s is %s for t in range(len(its)))' % (PATCH('its[t][1]'), FINVAL('obj', 'its[t][0]')),
         ], at_exit=[FIN('obj')], modifies=[Mod('dict:str,Node', 'r is obj.idref')]),
     })

P.unverified_surrounding('castLabel / castRef argument plumbing (TeX.py), Crossref.py label/ref/pageref, Macro.refstepcounter setting currentlabel, bibliography keys: '
                         'bounded native documents with labels and references in every order (bounded/label-ref-orders)')
P.assume('Macro.id and Macro.idref behave as stored attributes for nodes whose id has been set (property getters/setters, ground/id-property)')

# ---------------------------------------------------------------- lifting lemmas over the two contracts
LREQ = [r.replace('self', 'ctx') for r in P.contracts['Context.label'].requires]
P.client('L1a_label_then_ref', dict(ctx='Context', l='str', n='Node', o='Node', k='str'),
        requires=LREQ + ['str_strip(l) != ""'],
        ensures=['k in o.idref', 'o.idref[k] is n', 'n.id == str_strip(l)'],
        body="""
ctx.label(l, n)
ctx.ref(o, k, l)
""")
P.client('L2_dangling', dict(ctx='Context', l='str', o='Node', k='str'),
        requires=[r.replace('self', 'ctx') for r in WF] + ['str_strip(l) != ""', 'str_strip(l) not in ctx.labels'],
        ensures=['k in o.idref', 'all(implies(q in ctx.labels, ctx.labels[q] is not o.idref[k]) for q in Strs())',
                 'o.idref[k].id == str_strip(l)'],
        body="""
ctx.ref(o, k, l)
""")
# forward reference: the reference comes first (placeholder, queued), the label later -- the reference ends up at the labelled node
P.client('L1b_ref_then_label', dict(ctx='Context', l='str', n='Node', o='Node', k='str'),
        requires=LREQ + ['str_strip(l) != ""', 'str_strip(l) not in ctx.labels', 'str_strip(l) not in ctx.refs'],
        ensures=['k in o.idref', 'o.idref[k] is n', 'n.id == str_strip(l)', 'str_strip(l) not in ctx.refs'],
        body="""
ctx.ref(o, k, l)
ctx.label(l, n)
""")
# two forward references (possibly from the same object, possibly queued twice) and then the label: both end up at the labelled node
P.client('L1c_two_refs_then_label', dict(ctx='Context', l='str', n='Node', o1='Node', k1='str', o2='Node', k2='str'),
        requires=LREQ + ['str_strip(l) != ""', 'str_strip(l) not in ctx.labels', 'str_strip(l) not in ctx.refs', 'o1 is not o2 or k1 != k2'],
        ensures=['k1 in o1.idref', 'o1.idref[k1] is n', 'k2 in o2.idref', 'o2.idref[k2] is n'],
        body="""
ctx.ref(o1, k1, l)
ctx.ref(o2, k2, l)
ctx.label(l, n)
""")
