"""C07 -- parsing loses, duplicates or reorders no text: the conservation law of the digest protocol.

View: `tokens` is a buffered iterator over the items handed to THIS node's digest loop (XS, position pos); what a nested
item.digest(tokens) absorbs is hidden below this view (it becomes that item's descendants: its own DIGEST contract).  Every item the
loop reads is either appended to self (exactly once, in order) or pushed back (the one that stops the loop)."""
from pyvc.dsl import Prop, Loop, Mod

P = Prop('C07', 'Parsing loses, duplicates or reorders no text and yields a well-formed tree')
FT = 'plasTeX/TeX.py::'
FI = 'plasTeX/__init__.py::'
FS = 'plasTeX/Base/LaTeX/Sectioning.py::'
FX = 'plasTeX/Base/TeX/Text.py::'
P.cls('Any', universal=True, elem='Any', fields=dict(nodeType='int', level='int', contextDepth='int', parentNode='Any?', macroMode='int'))
P.const('Node.ELEMENT_NODE', 1)
P.const('Command.ELEMENT_NODE', 1)
P.const('Node.PAR_LEVEL', 10)
P.const('Node.DOCUMENT_LEVEL', -1000000)
P.const('Macro.MODE_END', 2)

# ---------------------------------------------------------------------------------------------- bufferediter: LIFO buffer in front of an iterator
P.cls('Source', fields=dict(spos='int'))
P.uninterp('SRC', [], 'seq[Any]')
P.cls('bufferediter', fields=dict(_buffer='list[Any]', _next='Source'))
P.fn('Source.__call__', params=dict(self='Source'), returns='Any', raises={'StopIteration': 'iff:self.spos >= len(SRC())'},
     ensures=['result is SRC()[old(self.spos)]', 'self.spos == old(self.spos) + 1'], modifies=[Mod('spos', 'r is self')], trusted=True,
     notes='the underlying iterator\'s __next__ (bound method stored in _next)')
P.fn(FT + 'bufferediter.__next__', name='bufferediter.__next__', params=dict(self='bufferediter'), returns='Any',
     # the most recently pushed value comes first; only an empty buffer advances the underlying iterator
     ensures=['implies(old(len(self._buffer)) > 0, result is old(self._buffer[len(self._buffer) - 1]) and len(self._buffer) == old(len(self._buffer)) - 1 '
              'and self._next.spos == old(self._next.spos))',
              'implies(old(len(self._buffer)) == 0, result is SRC()[old(self._next.spos)] and self._next.spos == old(self._next.spos) + 1 and len(self._buffer) == 0)',
              'all(self._buffer[i] is old(seq(self._buffer))[i] for i in range(len(self._buffer)))'],
     raises={'StopIteration': 'iff:len(self._buffer) == 0 and self._next.spos >= len(SRC())'},
     modifies=[Mod('list:Any', 'r is self._buffer'), Mod('spos', 'r is self._next')])
P.fn(FT + 'bufferediter.push', name='bufferediter.push', params=dict(self='bufferediter', value='Any'), returns='none',
     ensures=['len(self._buffer) == old(len(self._buffer)) + 1', 'self._buffer[len(self._buffer) - 1] is value',
              'all(self._buffer[i] is old(seq(self._buffer))[i] for i in range(len(self._buffer) - 1))'],
     modifies=[Mod('list:Any', 'r is self._buffer')])
P.client('push_then_next', dict(it='bufferediter', v='Any'), requires=['it._buffer is not it'],
         ensures=['it._next.spos == old(it._next.spos)', 'len(it._buffer) == old(len(it._buffer))',
                  'all(it._buffer[i] is old(seq(it._buffer))[i] for i in range(len(it._buffer)))'],
         body="""
it.push(v)
w = it.__next__()
assert w is v
""")

# ---------------------------------------------------------------------------------------------- digest loops
P.uninterp('XS', [], 'seq[Any]')
P.cls('Tokens', fields=dict(pos='int'))
P.cls('Macro', bases=['Any'], fields=dict(kids='list[Any]', forcePars='bool', endit='bool'))
P.fn('Tokens.__next__', params=dict(self='Tokens'), returns='Any', raises={'StopIteration': 'iff:self.pos >= len(XS())'},
     ensures=['result is XS()[old(self.pos)]', 'self.pos == old(self.pos) + 1'], modifies=[Mod('pos', 'r is self')], trusted=True,
     notes='the items handed to this digest loop, as a sequence view (bufferediter.__next__ proved above)')
P.fn('Tokens.push', params=dict(self='Tokens', value='Any'), returns='none', requires=['self.pos >= 1', 'value is XS()[self.pos - 1]'],
     ensures=['self.pos == old(self.pos) - 1'], modifies=[Mod('pos', 'r is self')], trusted=True,
     notes='pushing back the item just read un-reads it (bufferediter.push / __next__ proved above)')
P.fn('Any.digest', params=dict(self='Any', tokens='Tokens'), returns='none', trusted=True, allocates=True,
     ensures=['tokens.pos == old(tokens.pos)', 'self.level == old(self.level)', 'self.contextDepth == old(self.contextDepth)', 'self.nodeType == old(self.nodeType)'],
     modifies=[Mod('list:Any', 'r is not OWNER().kids'), Mod('parentNode', 'r is not self')],
     notes='DIGEST of a nested item: what it absorbs is hidden below this view (it becomes the item\'s descendants); it does not touch the '
           'child list of the node whose loop is being verified')
P.uninterp('OWNER', [], 'Macro')
P.fn('Macro.appendChild', params=dict(self='Macro', node='Any'), returns='none', trusted=True,
     ensures=['len(self.kids) == old(len(self.kids)) + 1', 'self.kids[len(self.kids) - 1] is node',
              'all(self.kids[i] is old(seq(self.kids))[i] for i in range(len(self.kids) - 1))'],
     modifies=[Mod('list:Any', 'r is self.kids')], notes='Node.appendChild (C06)')
P.fn('Macro.paragraphs', params=dict(self='Macro', force='bool=True'), returns='none', trusted=True, modifies=[],
     notes='paragraph grouping happens after the loop; the postconditions below describe the child list handed to it (paragraphs itself: bounded)')
P0, K0 = 'old(tokens.pos)', 'old(len(self.kids))'
REQ = ['self is OWNER()', '0 <= tokens.pos', 'tokens.pos <= len(XS())', 'all(not isnone(XS()[k]) for k in range(len(XS())))', 'self.kids is not tokens']


def appended(upto, extra=''):
    """the child list is the old one followed by the items XS[P0 .. upto), in order"""
    return ['len(self.kids) == %s + (%s) - %s' % (K0, upto, P0),
            'all(self.kids[i] is old(seq(self.kids))[i] for i in range(%s))' % K0,
            'all(self.kids[%s + m] is XS()[%s + m] for m in range((%s) - %s))' % (K0, P0, upto, P0)]


LOOPBASE = ['%s <= tokens.pos' % P0, 'tokens.pos <= len(XS())', 'self.kids is old(self.kids)']
LOOPMOD = [Mod('pos', 'r is tokens'), Mod('list:Any', 'True'), Mod('parentNode', 'True')]

# Macro.digestUntil: stops at the first element of the end class (pushed back, returned) or at an item of a shallower context (pushed back)
P.uninterp('ISEND', ['Any'], 'bool')
P.fn('isinstance_end', params=dict(x='Any', cls='opaque'), returns='bool', ensures=['result == ISEND(x)'], trusted=True, modifies=[],
     notes='isinstance(tok, endclass) for the class (or tuple of classes) given by the caller')
STOP_U = '(XS()[%s].nodeType == 1 and ISEND(XS()[%s]))'
SHALLOW = '(XS()[%s].contextDepth < self.contextDepth)'
P.fn(FI + 'Macro.digestUntil', name='Macro.digestUntil', params=dict(self='Macro', tokens='Tokens', endclass='opaque'), returns='Any?',
     requires=REQ,
     ensures=appended('tokens.pos') + [
         'all(not %s and not %s for q in range(%s, tokens.pos))' % (STOP_U % ('q', 'q'), SHALLOW % 'q', P0),
         'implies(not isnone(result), tokens.pos < len(XS()) and result is XS()[tokens.pos] and %s)' % (STOP_U % ('tokens.pos', 'tokens.pos')),
         'implies(isnone(result), tokens.pos == len(XS()) or (not %s and %s))' % (STOP_U % ('tokens.pos', 'tokens.pos'), SHALLOW % 'tokens.pos')],
     allocates=True, skip_frame=True, calls={'tok.digest': 'Any.digest', 'self.appendChild': 'Macro.appendChild', 'tokens.push': 'Tokens.push', 'isinstance': 'isinstance_end'},
     loops={0: Loop(inv=LOOPBASE + appended('tokens.pos') + ['all(not %s and not %s for q in range(%s, tokens.pos))' % (STOP_U % ('q', 'q'), SHALLOW % 'q', P0),
                                                          'self.contextDepth == old(self.contextDepth)'],
                    modifies=LOOPMOD)})

# SectionUtils.digest: a sectioning unit absorbs everything up to the first item whose level is not strictly deeper than its own
SEC_STOP = '(XS()[%s].level <= self.level)'
P.fn(FS + 'SectionUtils.digest', name='SectionUtils.digest', params=dict(self='Macro', tokens='Tokens'), returns='none',
     requires=REQ,
     ensures=appended('tokens.pos') + [
         'all(not %s for q in range(%s, tokens.pos))' % (SEC_STOP % 'q', P0),
         'tokens.pos == len(XS()) or %s' % (SEC_STOP % 'tokens.pos')],
     allocates=True, skip_frame=True,
     calls={'item.digest': 'Any.digest', 'self.appendChild': 'Macro.appendChild', 'tokens.push': 'Tokens.push', 'self.paragraphs': 'Macro.paragraphs'},
     loops={0: Loop(inv=LOOPBASE + appended('tokens.pos') + ['all(not %s for q in range(%s, tokens.pos))' % (SEC_STOP % 'q', P0), 'self.level == old(self.level)'],
                    modifies=LOOPMOD)})

# Environment.digest: paragraphs breaks are kept, an item of higher precedence or of a shallower context stops the loop and is pushed back,
# the environment's own \\end stops it and is consumed without becoming a child
E_PAR = '(XS()[%s].level == 10)'
E_HI = '(XS()[%s].level != 10 and XS()[%s].level < self.level)'
E_END = '(XS()[%s].level != 10 and XS()[%s].level >= self.level and XS()[%s].nodeType == 1 and XS()[%s].macroMode == 2 and (type(XS()[%s]) is type(self)))'
E_SH = ('(XS()[%s].level != 10 and XS()[%s].level >= self.level and not (XS()[%s].nodeType == 1 and XS()[%s].macroMode == 2 and (type(XS()[%s]) is type(self))) '
        'and self.level > -1000000 and XS()[%s].contextDepth < self.contextDepth)')


def e(q, t):
    return t % tuple([q] * t.count('%s'))


ENDED = '(tokens.pos > %s and %s)' % (P0, e('tokens.pos - 1', E_END))
P.fn(FI + 'Environment.digest', name='Environment.digest', params=dict(self='Macro', tokens='Tokens'), returns='none',
     requires=REQ + ['self.macroMode != 2'],
     ensures=[
         'all(not %s and not %s and not %s for q in range(%s, tokens.pos - (1 if %s else 0)))' % (e('q', E_HI), e('q', E_END), e('q', E_SH), P0, ENDED),
         'tokens.pos == len(XS()) or %s or %s or %s' % (ENDED, e('tokens.pos', E_HI), e('tokens.pos', E_SH)),
         ] + appended('tokens.pos - (1 if %s else 0)' % ENDED),
     allocates=True, skip_frame=True,
     calls={'item.digest': 'Any.digest', 'self.appendChild': 'Macro.appendChild', 'tokens.push': 'Tokens.push', 'self.paragraphs': 'Macro.paragraphs',
            },
     loops={0: Loop(inv=LOOPBASE + appended('tokens.pos') + [
         'all(not %s and not %s and not %s for q in range(%s, tokens.pos))' % (e('q', E_HI), e('q', E_END), e('q', E_SH), P0),
         'self.level == old(self.level)', 'self.contextDepth == old(self.contextDepth)'], modifies=LOOPMOD)})

# bgroup.digest: a brace group absorbs up to its closing brace (consumed, not a child), or stops before a sectioning unit / an item of a
# shallower context (pushed back)
P.const('self.ENDSECTIONS_LEVEL', -90000)
P.uninterp('ISCLOSE', ['Any'], 'bool')
P.fn('isinstance_close', params=dict(x='Any', cls='opaque'), returns='bool', ensures=['result == ISCLOSE(x)'], trusted=True, modifies=[],
     notes='isinstance(item, (egroup, endgroup))')
B_SEC = '(XS()[%s].nodeType == 1 and XS()[%s].level < -90000)'
B_CLOSE = '(XS()[%s].nodeType == 1 and XS()[%s].level >= -90000 and ISCLOSE(XS()[%s]))'
B_SH = '(XS()[%s].nodeType == 1 and XS()[%s].level >= -90000 and not ISCLOSE(XS()[%s]) and XS()[%s].contextDepth < self.contextDepth)'
CLOSED = '(tokens.pos > %s and %s)' % (P0, e('tokens.pos - 1', B_CLOSE))
P.fn(FX + 'bgroup.digest', name='bgroup.digest', params=dict(self='Macro', tokens='Tokens'), returns='none',
     requires=REQ,
     ensures=['all(not %s and not %s and not %s for q in range(%s, tokens.pos - (1 if %s else 0)))' % (e('q', B_SEC), e('q', B_CLOSE), e('q', B_SH), P0, CLOSED),
              'tokens.pos == len(XS()) or %s or %s or %s' % (CLOSED, e('tokens.pos', B_SEC), e('tokens.pos', B_SH))]
     + appended('tokens.pos - (1 if %s else 0)' % CLOSED),
     allocates=True, skip_frame=True,
     calls={'item.digest': 'Any.digest', 'self.appendChild': 'Macro.appendChild', 'tokens.push': 'Tokens.push', 'self.paragraphs': 'Macro.paragraphs',
            'isinstance': 'isinstance_close'},
     loops={0: Loop(inv=LOOPBASE + appended('tokens.pos') + [
         'all(not %s and not %s and not %s for q in range(%s, tokens.pos))' % (e('q', B_SEC), e('q', B_CLOSE), e('q', B_SH), P0),
         'self.contextDepth == old(self.contextDepth)'], modifies=LOOPMOD + [Mod('endit', 'r is self')])})
P.assume('layered stream view: the items handed to a digest loop form a sequence XS; what a nested item.digest absorbs is below this view and is '
         'covered by that item\'s own DIGEST contract (behavioural subtyping over all macro classes is assumed, A8)')
P.unverified_surrounding('Macro.paragraphs (paragraph grouping), TeX.parse, List.item / ArrayRow / ArrayCell digests, reachability and uniqueness of every '
                         'node in the final tree, "every word exactly once" for whole documents: bounded native check over generated documents (bounded/documents)')
