"""C01 (second sidecar module) -- the character reader Tokenizer.iterchars and the token state machine Tokenizer.__iter__, verified one
step (one loop iteration) at a time: what a step delivers and consumes is TeX's lexical rule (A.2 / A.3) applied at the position where the
step began, under the category table in force during that step.  What the consumer does between two steps (category changes,
pushed-back characters) is outside a step."""
from pyvc.dsl import Prop, Loop, Mod

P = Prop("C01", "Tokenization follows TeX's lexical rules for every input and catcode table")
FK = 'plasTeX/Tokenizer.py::'
for k, v in dict(SUPER=7, IGNORED=9, INVALID=15).items():
    P.const('Token.CC_' + k, v)
P.cls('Context')
P.cls('Stream', fields=dict(pos='int'))
P.global_obj('INPUT', 'Stream')
P.cls('Tokenizer', fields=dict(_charBuffer='opaque', read='opaque', context='Context', lineNumber='int'))
P.uninterp('CS', [], 'seq[str]')        # the characters still to be read (buffer followed by the file), as one-character strings
P.uninterp('CODE', ['str'], 'int')      # the category table in force during this step
P.ghost('nyield', 'int')
P.fn('read1', params={}, returns='str', trusted=True,
     ensures=['result == (CS()[old(INPUT.pos)] if old(INPUT.pos) < len(CS()) else "")', 'INPUT.pos == old(INPUT.pos) + (1 if old(INPUT.pos) < len(CS()) else 0)'],
     modifies=[Mod('pos', 'r is INPUT')], notes='_read1(): next character from the push-back buffer, else from the file; "" at the end')
P.fn('Tokenizer.pushChar', params=dict(self='Tokenizer', char='str'), returns='none', trusted=True,
     requires=['char == "" or (INPUT.pos >= 1 and char == CS()[INPUT.pos - 1])'],
     ensures=['INPUT.pos == old(INPUT.pos) - (0 if char == "" else 1)'], modifies=[Mod('pos', 'r is INPUT'), Mod('lineNumber', 'r is self')],
     notes='pushing back the character just read un-reads it')
P.fn('Context.whichCode', params=dict(self='Context', char='str'), returns='int', trusted=True, modifies=[], notes='proved in C01_tokenizer')
P.fn('whichCode', params=dict(ch='str'), returns='int', trusted=True, ensures=['result == CODE(ch)', '0 <= result and result <= 15'], modifies=[],
     notes='Context.whichCode under the table in force (proved separately: Context.whichCode)')
H = 'head(INPUT.pos)'
TRI = '(CODE(CS()[%s]) == 7 and %s + 2 < len(CS()) and CS()[%s + 1] == CS()[%s] and ord(CS()[%s + 2]) < 128)' % (H, H, H, H, H)
DEC = '(chr(ord(CS()[%s + 2]) - 64) if ord(CS()[%s + 2]) >= 64 else chr(ord(CS()[%s + 2]) + 64))' % (H, H, H)
UNIT = '(%s if %s else CS()[%s])' % (DEC, TRI, H)
P.fn(FK + 'Tokenizer.iterchars', name='Tokenizer.iterchars', params=dict(self='Tokenizer'), returns='none', kind='function',
     requires=['0 <= INPUT.pos', 'INPUT.pos <= len(CS())', 'all(len(CS()[k]) == 1 for k in range(len(CS())))'],
     yield_type='tuple[int,str]', yield_counter='nyield',
     yields=[
         # each delivered pair is the next unit of the input: ^^X (X < 128) decodes to the character 64 away, anything else is itself;
         # with its category under the table in force; the reader has consumed exactly that unit
         'value[1] == %s' % UNIT, 'value[0] == CODE(value[1])', 'value[0] != 9 and value[0] != 15',
         'INPUT.pos == %s + (3 if %s else 1)' % (H, TRI), '%s < len(CS())' % H],
     allocates=True, skip_frame=True,
     calls={'_read1': 'read1', 'whichCode': 'whichCode', 'self.pushChar': 'Tokenizer.pushChar'},
     loops={0: Loop(inv=['0 <= INPUT.pos', 'INPUT.pos <= len(CS())'],
                    # every iteration consumes exactly one unit, and skips it only when its category is "ignored" or "invalid"
                    at_end=['INPUT.pos == %s + (3 if %s else 1)' % (H, TRI),
                            'ghost("nyield") == head(ghost("nyield")) + (0 if (CODE(%s) == 9 or CODE(%s) == 15) else 1)' % (UNIT, UNIT)],
                    modifies=[Mod('pos', 'r is INPUT'), Mod('lineNumber', 'r is self')])})

# ---------------------------------------------------------------------------------------------- Tokenizer.__iter__: one token per step (A.2 / A.3)
for k, v in dict(ESCAPE=0, EOL=5, SPACE=10, LETTER=11, OTHER=12, ACTIVE=13, COMMENT=14).items():
    P.const('Token.CC_' + k, v)
P.const('Node.ELEMENT_NODE', 1)
P.const('self.STATE_N', 0)
P.const('self.STATE_M', 1)
P.const('self.STATE_S', 2)
P.const('Space', 0)
P.const('EscapeSequence', 0)
P.cls('Tok', fields=dict(cat='int', text='str', catcode='int'))
P.cls('PairIter', fields=dict(ppos='int'))
P.classes['Tokenizer'].fields.update(state='int', _tokBuffer='list[Tok]', tokenClasses='opaque')
for f, t in (('state', 'int'), ('_tokBuffer', 'list[Tok]'), ('tokenClasses', 'opaque')):
    P.fields.setdefault(f, t)
    P.field_variants.setdefault(f, {})['Tokenizer'] = t
P.uninterp('PS', [], 'seq[tuple[int,str]]')     # the (category, character) pairs delivered by iterchars during this step
P.uninterp('EOLPOS', ['int'], 'int')            # position after the rest of the current line has been dropped
P.global_obj('PAIRS', 'PairIter')


def hook_eq(ex, a, b, st):
    """Token == Token: same category and same text (Token.__eq__)."""
    import z3
    from pyvc import ty as T
    if isinstance(a.t, T.Ref) and isinstance(b.t, T.Ref) and a.t.cls == 'Tok' and b.t.cls == 'Tok':
        tx, cc = (st.h(ex.eng.k_field(f)) for f in ('text', 'cat'))
        return z3.Or(a.z == b.z, z3.And(a.z != 0, b.z != 0, z3.Select(tx, a.z) == z3.Select(tx, b.z), z3.Select(cc, a.z) == z3.Select(cc, b.z)))
    return None


P.hook_eq = hook_eq
P.fn('Tokenizer.iterchars/c', params=dict(self='Tokenizer'), returns='PairIter', ensures=['result is PAIRS'], trusted=True, modifies=[],
     notes='the pairs delivered by iterchars (proved above), as a sequence view for one step')
P.fn('PairIter.__next__', params=dict(self='PairIter'), returns='tuple[int,str]', raises={'StopIteration': 'iff:self.ppos >= len(PS())'},
     ensures=['result == PS()[old(self.ppos)]', 'self.ppos == old(self.ppos) + 1'], modifies=[Mod('ppos', 'r is self')], trusted=True)
P.fn('pushChar_', params=dict(char='str'), returns='none', trusted=True, requires=['PAIRS.ppos >= 1', 'char == PS()[PAIRS.ppos - 1][1]'],
     ensures=['PAIRS.ppos == old(PAIRS.ppos) - 1'], modifies=[Mod('ppos', 'r is PAIRS')], notes='pushChar of the character just delivered un-reads its pair')
P.fn('mk_token', params=dict(code='int', ch='str'), returns='Tok', trusted=True, allocates=True, modifies=[],
     ensures=['fresh(result)', 'result.cat == code', 'result.text == ch'], notes='tokenClasses[code](char): the token class of that category')
P.fn('Space_', params=dict(ch='str'), returns='Tok', trusted=True, allocates=True, modifies=[], ensures=['fresh(result)', 'result.cat == 10', 'result.text == ch'])
P.fn('EscapeSequence_', params=dict(name='str=""'), returns='Tok', trusted=True, allocates=True, modifies=[],
     ensures=['fresh(result)', 'result.cat == 0', 'result.text == name'])
P.fn('Context.get_let', params=dict(self='Context', tok='Tok'), returns='Tok', trusted=True, modifies=[], ensures=['result is tok'],
     notes='no \\let alias is in force for this token (aliases: C04)')
P.fn('Tokenizer.readline', params=dict(self='Tokenizer'), returns='opaque', trusted=True, ensures=['PAIRS.ppos == EOLPOS(old(PAIRS.ppos))', 'PAIRS.ppos >= old(PAIRS.ppos)', 'PAIRS.ppos <= len(PS())'],
     modifies=[Mod('ppos', 'r is PAIRS')], notes='drops the rest of the current input line')
HP = 'head(PAIRS.ppos, 0)'
S0 = 'head(self.state, 0)'
C0, CH0 = 'PS()[%s][0]' % HP, 'PS()[%s][1]' % HP
C1, CH1 = 'PS()[%s + 1][0]' % HP, 'PS()[%s + 1][1]' % HP
HAS1 = '(%s + 1 < len(PS()))' % HP
# the end of the maximal run of letters that starts at HP + 1 (ghost, fixed by the two clauses below)
P.uninterp('RUNEND', ['int'], 'int')
P.uninterp('CHAT', ['str', 'int'], 'str')      # CHAT(s, q) stands for s[q:q+1] (the q-th character of s)
RUN = ['all(implies(0 <= p and p + 1 < len(PS()) and PS()[p + 1][0] == 11, p + 1 < RUNEND(p) and RUNEND(p) <= len(PS()) and '
       'all(PS()[q][0] == 11 for q in range(p + 1, RUNEND(p))) and (RUNEND(p) == len(PS()) or PS()[RUNEND(p)][0] != 11)) for p in range(len(PS())))']
YIELD_MAIN = [
    '%s < len(PS())' % HP,
    # letters and other characters: the token of that category, state M
    'implies(%s == 11 or %s == 12, value.cat == %s and value.text == %s and self.state == 1 and PAIRS.ppos == %s + 1)' % (C0, C0, C0, CH0, HP),
    # a blank in state M: one space token, state S
    'implies(%s == 10, %s == 1 and value.cat == 10 and value.text == " " and self.state == 2 and PAIRS.ppos == %s + 1)' % (C0, S0, HP),
    # end of line: in state M a space token, in state N a \\par
    'implies(%s == 5 and %s == 1, value.cat == 10 and value.text == " " and self.state == 0 and PAIRS.ppos == %s + 1)' % (C0, S0, HP),
    'implies(%s == 5 and %s == 0, value.cat == 0 and value.text == "par" and self.state == 0)' % (C0, S0),
    'implies(%s == 5, %s != 2)' % (C0, S0),
    # escape character: control word (maximal run of letters, then state S), control symbol (state M), or the end-of-line case
    'implies(%s == 0 and not %s, value.cat == 0 and value.text == "" and self.state == 1)' % (C0, HAS1),
    'implies(%s == 0 and %s and %s == 11, value.cat == 0 and self.state == 2)' % (C0, HAS1, C1),
    'implies(%s == 0 and %s and %s == 11, PAIRS.ppos == RUNEND(%s))' % (C0, HAS1, C1, HP),
    'implies(%s == 0 and %s and %s == 11, len(value.text) == PAIRS.ppos - %s - 1)' % (C0, HAS1, C1, HP),
    'implies(%s == 0 and %s and %s == 11, all(CHAT(value.text, q) == PS()[%s + 1 + q][1] for q in range(len(value.text))))' % (C0, HAS1, C1, HP),
    'implies(%s == 0 and %s and %s == 5, value.cat == 10 and value.text == " " and self.state == 2 and PAIRS.ppos == %s + 2)' % (C0, HAS1, C1, HP),
    'implies(%s == 0 and %s and %s != 11 and %s != 5, value.cat == 0 and value.text == %s and self.state == 1 and PAIRS.ppos == %s + 2)' % (C0, HAS1, C1, C1, CH1, HP),
    # active character
    'implies(%s == 13, value.cat == 0 and value.text == "active::" + %s and self.state == 1 and PAIRS.ppos == %s + 1)' % (C0, CH0, HP),
    # every other category: the token of that category, state M
    'implies(%s != 11 and %s != 12 and %s != 10 and %s != 5 and %s != 0 and %s != 14 and %s != 13, value.cat == %s and value.text == %s and self.state == 1 '
    'and PAIRS.ppos == %s + 1)' % (C0, C0, C0, C0, C0, C0, C0, C0, CH0, HP),
    '%s != 14' % C0]
SKIP = '((%s == 10 and %s != 1) or (%s == 5 and %s == 2) or (%s == 5 and %s == 0 and not isnone(head(prev, 0)) and head(prev, 0).cat == 0 and head(prev, 0).text == "par") or %s == 14)' % (C0, S0, C0, S0, C0, S0, C0)
P.fn(FK + 'Tokenizer.__iter__', name='Tokenizer.__iter__', params=dict(self='Tokenizer'), returns='none',
     requires=['0 <= PAIRS.ppos', 'PAIRS.ppos <= len(PS())', 'all(len(PS()[k][1]) == 1 and 0 <= PS()[k][0] and PS()[k][0] <= 15 for k in range(len(PS())))',
               '0 <= self.state and self.state <= 2'] + RUN,
     yields={0: [], 1: YIELD_MAIN}, yield_counter='nyield',
     allocates=True, skip_frame=True, heap_consts=True,
     calls={'self.iterchars': 'Tokenizer.iterchars/c', 'next': 'PairIter.__next__', 'pushChar': 'pushChar_', 'tokenClasses[code]': 'mk_token',
            'Space': 'Space_', 'EscapeSequence': 'EscapeSequence_', "''.join": 'join_'},
     locals={'prev': 'Tok?', 'token': 'Tok', '[]': 'list[str]'},
     loops={0: Loop(inv=['0 <= PAIRS.ppos', 'PAIRS.ppos <= len(PS())', '0 <= self.state and self.state <= 2', 'charIter is PAIRS', 'mybuffer is self._tokBuffer'],
                    # a step delivers the pushed-back tokens, then exactly one token - or none, precisely in TeX's skipping cases: a blank
                    # in state S / N, an end of line in state S, a second consecutive \\par, a comment (rest of the line dropped, state N)
                    at_end=['ghost("nyield") == head(ghost("nyield"), 0) + head(len(self._tokBuffer), 0) + (0 if %s else 1)' % SKIP,
                            'implies(%s == 14, self.state == 0 and PAIRS.ppos == EOLPOS(%s + 1))' % (C0, HP),
                            'implies(%s == 10 and %s != 1, self.state == %s and PAIRS.ppos == %s + 1)' % (C0, S0, S0, HP),
                            'implies(%s == 5 and %s == 2, self.state == 0 and PAIRS.ppos == %s + 1)' % (C0, S0, HP)],
                    modifies=[Mod('ppos', 'r is PAIRS'), Mod('state', 'r is self'), Mod('lineNumber', 'r is self'), Mod('list:Tok', 'r is self._tokBuffer')]),
            1: Loop(inv=['0 <= PAIRS.ppos', 'PAIRS.ppos <= len(PS())', '0 <= self.state and self.state <= 2', 'charIter is PAIRS', 'mybuffer is self._tokBuffer',
                         'PAIRS.ppos == %s' % HP, 'self.state == %s' % S0, 'prev is head(prev, 0)',
                         'ghost("nyield") == head(ghost("nyield"), 0) + head(len(self._tokBuffer), 0) - len(self._tokBuffer)'],
                    modifies=[Mod('list:Tok', 'r is self._tokBuffer')]),
            2: Loop(inv=['PAIRS.ppos == %s + 1' % HP, 'self.state == 1', '%s == 0' % C0, 'charIter is PAIRS'], modifies=[Mod('ppos', 'r is PAIRS'), Mod('state', 'r is self')]),
            3: Loop(inv=['%s + 2 <= PAIRS.ppos' % HP, 'PAIRS.ppos <= RUNEND(%s)' % HP, 'self.state == 1', 'fresh(word)', 'len(word) == PAIRS.ppos - %s - 1' % HP,
                         'all(word[q] == PS()[%s + 1 + q][1] for q in range(len(word)))' % HP, '%s == 0' % C0, '%s and %s == 11' % (HAS1, C1), 'charIter is PAIRS',
                         'next_code == 11'],
                    modifies=[Mod('ppos', 'r is PAIRS'), Mod('list:str', 'r is word')])})
P.fn('join_', params=dict(parts='list[str]'), returns='str', trusted=True, requires=['all(len(parts[q]) == 1 for q in range(len(parts)))'],
     ensures=['len(result) == len(parts)', 'all(CHAT(result, q) == parts[q] for q in range(len(parts)))'], modifies=[],
     notes="''.join of one-character strings: the string made of those characters")
P.assume('per-step view: during one step the input is a fixed sequence (CS / PS), the category table is fixed (CODE), pushChar un-reads the '
         'character just read; \\let aliases are not in force for the delivered token (C04); CHAT(s, q) stands for s[q:q+1]')
P.unverified_surrounding('Tokenizer.readline, pushChar, _read1 bodies; the ^^hh form (recorded finding C01-caret-hex): the step contract states the '
                         'single-character ^^X rule that the code implements')
