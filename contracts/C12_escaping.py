"""C12 -- rendered HTML never turns text into markup: the text-escaping hook and the high-character escaper."""
from pyvc.dsl import Prop, Loop, Mod

P = Prop('C12', 'Rendered HTML never turns document text into markup')
P.cls('PageTemplate', fields={})
P.cls('Document', fields={})


@P.spec
def ESC1(c: 'str') -> 'str':
    """A.10: the escaping map on single characters (from the property statement: <, >, & displayed as text)."""
    return "&amp;" if c == "&" else "&lt;" if c == "<" else "&gt;" if c == ">" else c


P.uninterp('strattr_isMarkup', ['str'], 'bool')          # getattr(node, 'isMarkup', None) of a Text node
P.fn('outputType', params=dict(x='str'), returns='str', ensures=['result == x'], trusted=True,
     notes='PageTemplate.outputType is the builtin str (ground obligation ground/outputType)')

# textDefault on a single character; lifted to all strings by AX-str-4 (single-character str.replace is a monoid
# homomorphism, hence so is the composition; a homomorphism is determined by its values on single characters).
P.fn('plasTeX/Renderers/PageTemplate/__init__.py::PageTemplate.textDefault', name='textDefault',
     params=dict(self='PageTemplate', node='str'), returns='str',
     requires=['len(node) == 1'],
     ensures=['result == (node if strattr_isMarkup(node) else ESC1(node))',
              'implies(not strattr_isMarkup(node), "<" not in result and ">" not in result)',
              'implies(not strattr_isMarkup(node), implies("&" in result, result == "&amp;" or result == "&lt;" or result == "&gt;"))'],
     calls={'self.outputType': 'outputType'})
P.fn('plasTeX/Renderers/PageTemplate/__init__.py::PageTemplate.textDefault', name='textDefault/empty',
     params=dict(self='PageTemplate', node='str'), returns='str',
     requires=['len(node) == 0'], ensures=['result == ""'],
     calls={'self.outputType': 'outputType'})

P.uninterp('BASEPFC', ['str'], 'str')
P.fn('BaseRenderer.processFileContent', params=dict(self='PageTemplate', document='Document', s='str'), returns='str',
     ensures=['result == BASEPFC(s)'], trusted=True, notes='base-class post-processing, outside C12 kernel')

# the escape-high-chars loop of processFileContent (segment: from the loop to the end of the function)
P.fn('plasTeX/Renderers/PageTemplate/__init__.py::PageTemplate.processFileContent', name='processFileContent/escape-loop',
     params=dict(self='PageTemplate', document='Document', s='list[str]'), returns='str',
     start_loop=0, locals={},
     start_assume=['all(len(s[k]) == 1 for k in range(len(s)))'],
     ensures=['len(s) == old(len(s))',
              'all(s[k] == (old(s[k]) if ord(old(s[k])) <= 127 else "&#" + fmt_03d(ord(old(s[k]))) + ";") for k in range(len(s)))',
              'result == BASEPFC(str_join("", seq(s)))'],
     loops={0: Loop(index='i', inv=[
         'len(s) == old(len(s))',
         'all(s[k] == (old(s[k]) if ord(old(s[k])) <= 127 else "&#" + fmt_03d(ord(old(s[k]))) + ";") for k in range(i))',
         'all(s[k] == old(s[k]) for k in range(i, len(s)))'],
         modifies=[Mod('list:str', 'r is s')])},
     modifies=[Mod('list:str', 'r is s')],
     calls={'BaseRenderer.processFileContent': 'BaseRenderer.processFileContent'})

P.assume('AX-str-4: str.replace with a one-character pattern is a monoid homomorphism on strings (CPython); textDefault is '
         'therefore determined by its values on the empty string and on single characters (differential-tested in native/C12.py)')
P.assume('A4: "%.3d" % n is the decimal representation of n (uninterpreted fmt_03d); "".join is concatenation')
P.unverified_surrounding('templates (*.jinja2s, *.zpts, layouts) and the simpleTAL / Jinja2 engines: not Python functions of the repository')
P.unverified_surrounding('HTML5.processFileContent regular-expression clean-ups; setImageData')
