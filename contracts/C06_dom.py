"""C06 -- the document tree stays a consistent tree under DOM edits (plasTeX/DOM/__init__.py).

List model: the children of a node are the sequence seq(node); every editing operation is specified by what Python's
list would do (A.6), plus the parent / owner links of the inserted nodes; fragments are transparent."""
from pyvc.dsl import Prop, Loop, Mod

P = Prop('C06', 'The document tree stays a consistent tree under any sequence of DOM edits')
F = 'plasTeX/DOM/__init__.py::'
P.cls('Document')
P.cls('Node', elem='Node', fields=dict(parentNode='Node?', ownerDocument='Document?', nodeType='int'),
      props={'childNodes': 'Node.childNodes'}, consts={'DOCUMENT_FRAGMENT_NODE': 11})
P.const('Node.DOCUMENT_FRAGMENT_NODE', 11)
P.fn('Node.childNodes', params=dict(self='Node'), returns='list[Node]', ensures=['result is self'], trusted=True, kind='property',
     notes="a node's child list is the node's own list (the attributes['self'] aliasing of childNodes is excluded)")

def hook_eq(ex, a, b, st):
    """Node.__eq__ is structural (and Text nodes compare as strings): `==` on two nodes holds for identical nodes and is
    otherwise an uninterpreted relation -- code that must find a node by identity cannot use it."""
    import z3
    from pyvc import ty as T
    if isinstance(a.t, T.Ref) and isinstance(b.t, T.Ref):
        f = ex.uf('NODE_EQ', [T.Ref('Node'), T.Ref('Node')], T.Bool)
        return z3.Or(a.z == b.z, f(a.z, b.z))
    return None


P.hook_eq = hook_eq
FRAG = '(%s.nodeType == 11)'
NOSELF = ['newChild is not self']
WFN = ['all(not isnone(self[j]) for j in range(len(self)))']
# what the links of an inserted node must be
LINKS = ('%(x)s.ownerDocument is self.ownerDocument and implies(setParent, %(x)s.parentNode is (self.parentNode if self.nodeType == 11 else self))'
         ' and implies(not setParent, %(x)s.parentNode is old(%(x)s.parentNode))')
MODL = [Mod('list:Node', 'r is self'), Mod('parentNode', 'r is newChild or (newChild.nodeType == 11 and any(0 <= j and j < len(newChild) and r is newChild[j] for j in Ints()))'),
        Mod('ownerDocument', 'r is newChild or (newChild.nodeType == 11 and any(0 <= j and j < len(newChild) and r is newChild[j] for j in Ints()))')]
FLATFRAG = ['implies(newChild.nodeType == 11, all(not isnone(newChild[j]) and newChild[j].nodeType != 11 and newChild[j] is not self and newChild[j] is not newChild for j in range(len(newChild))))',
            'implies(newChild.nodeType == 11, all(implies(j != m, newChild[j] is not newChild[m]) for j in range(len(newChild)) for m in range(len(newChild))))']

P.fn(F + 'Node.pop', name='Node.pop', params=dict(self='Node', index='int=-1'), returns='Node',
     requires=WFN,
     raises={'IndexError': 'len(self) == 0 or index >= len(self) or index < -len(self)'},
     exc_ensures={'IndexError': ['seq(self) == old(seq(self))']},
     ensures=['result is old(seq(self))[index + len(old(seq(self))) if index < 0 else index]',
              'seq(self) == old(seq(self))[:(index + len(old(seq(self))) if index < 0 else index)] + old(seq(self))[(index + len(old(seq(self))) if index < 0 else index) + 1:]'],
     modifies=[Mod('list:Node', 'r is self')])

P.fn(F + 'Node.append', name='Node.append', params=dict(self='Node', newChild='Node', setParent='bool=True'), returns='Node',
     requires=NOSELF + FLATFRAG,
     ensures=['result is newChild',
              'implies(newChild.nodeType != 11, seq(self) == old(seq(self)) + [newChild])',
              'implies(newChild.nodeType == 11, seq(self) == old(seq(self)) + old(seq(newChild)))',
              LINKS % dict(x='newChild'),
              'implies(newChild.nodeType == 11, all(' + LINKS % dict(x='newChild[j]') + ' for j in range(len(newChild))))',
              'seq(newChild) == old(seq(newChild))'],
     modifies=MODL, decreases='1 if newChild.nodeType == 11 else 0',
     loops={0: Loop(index='i', inv=[
         'i <= len(newChild)', 'newChild.nodeType == 11', 'seq(newChild) == old(seq(newChild))',
         'seq(self) == old(seq(self)) + old(seq(newChild))[:i]',
         'all(' + LINKS % dict(x='newChild[j]') + ' for j in range(i))',
         'all(newChild[j].parentNode is old(newChild[j].parentNode) and newChild[j].ownerDocument is old(newChild[j].ownerDocument) for j in range(i, len(newChild)))',
         'newChild.parentNode is old(newChild.parentNode)', 'newChild.ownerDocument is old(newChild.ownerDocument)',
     ])})

# Python's list.insert position rule (A.6): negative counts from the end, then clamped into [0, len]
def jpos(i):
    n = 'len(old(seq(self)))'
    r = '(%s + %s if %s < 0 else %s)' % (i, n, i, i)
    return '(0 if %s < 0 else (%s if %s > %s else %s))' % (r, n, r, n, r)


JPOS = jpos('i')
P.fn(F + 'Node.insert', name='Node.insert', params=dict(self='Node', i='int', newChild='Node', setParent='bool=True'), returns='Node',
     requires=NOSELF + FLATFRAG,
     ensures=['result is newChild',
              'implies(newChild.nodeType != 11, seq(self) == old(seq(self))[:%s] + [newChild] + old(seq(self))[%s:])' % (JPOS, JPOS),
              'implies(newChild.nodeType == 11, seq(self) == old(seq(self))[:%s] + old(seq(newChild)) + old(seq(self))[%s:])' % (JPOS, JPOS),
              LINKS % dict(x='newChild'),
              'implies(newChild.nodeType == 11, all(' + LINKS % dict(x='newChild[j]') + ' for j in range(len(newChild))))',
              'seq(newChild) == old(seq(newChild))'],
     modifies=MODL, decreases='1 if newChild.nodeType == 11 else 0',
     loops={0: Loop(index='m', inv=[
         'm <= len(newChild)', 'newChild.nodeType == 11', 'seq(newChild) == old(seq(newChild))',
         'i == ((0 if old(i) + len(old(seq(self))) < 0 else old(i) + len(old(seq(self)))) if old(i) < 0 else old(i)) + m',
         'seq(self) == old(seq(self))[:%s] + old(seq(newChild))[:m] + old(seq(self))[%s:]' % (jpos('old(i)'), jpos('old(i)')),
         'all(' + LINKS % dict(x='newChild[j]') + ' for j in range(m))',
         'all(newChild[j].parentNode is old(newChild[j].parentNode) and newChild[j].ownerDocument is old(newChild[j].ownerDocument) for j in range(m, len(newChild)))',
         'newChild.parentNode is old(newChild.parentNode)', 'newChild.ownerDocument is old(newChild.ownerDocument)',
     ])})

P.cls('NotFoundErr')
ISCHILD = 'any(self[j] is %s for j in range(len(self)))'
NOCHILD = 'all(self[j] is not %s for j in range(len(self)))'


@P.spec(fuel=1)
def FIRST(s: 'seq[Node]', x: 'Node', k: 'int') -> 'int':
    """Index of the first occurrence (by identity) of x in s at or after k; len(s) if there is none."""
    if k >= len(s) or k < 0:
        return len(s) if k >= len(s) else 0 - 1
    if s[k] is x:
        return k
    return FIRST(s, x, k + 1)


PIDX = 'FIRST(old(seq(self)), oldChild, 0)'
P.fn(F + 'Node.removeChild', name='Node.removeChild', params=dict(self='Node', oldChild='Node'), returns='Node',
     requires=WFN,
     raises={'NotFoundErr': NOCHILD % 'oldChild'},
     exc_ensures={'NotFoundErr': ['seq(self) == old(seq(self))']},
     ensures=['result is oldChild',
              # the first occurrence (by identity) is removed, everything else keeps its order
              '0 <= %s and %s < len(old(seq(self)))' % (PIDX, PIDX),
              'old(seq(self))[%s] is oldChild' % PIDX, 'all(old(seq(self))[q] is not oldChild for q in range(%s))' % PIDX,
              'seq(self) == old(seq(self))[:%s] + old(seq(self))[%s + 1:]' % (PIDX, PIDX),
              'len(self) == old(len(self)) - 1',
              'all((implies(q < %s, self[q] is old(seq(self))[q])) and (implies(q > %s, self[q - 1] is old(seq(self))[q])) for q in range(len(old(seq(self)))))' % (PIDX, PIDX)],
     modifies=[Mod('list:Node', 'r is self')],
     loops={0: Loop(index='k', inv=['seq(self) == old(seq(self))', 'all(self[q] is not oldChild for q in range(k))', 'k <= len(self)',
                                    'FIRST(old(seq(self)), oldChild, k) == FIRST(old(seq(self)), oldChild, 0)'])})

def idx(i):
    return '(%s + len(old(seq(self))) if %s < 0 else %s)' % (i, i, i)


IDX = idx('i')
MODS = [Mod('list:Node', 'r is self'), Mod('parentNode', 'r is node or (node.nodeType == 11 and any(0 <= j and j < len(node) and r is node[j] for j in Ints()))'),
        Mod('ownerDocument', 'r is node or (node.nodeType == 11 and any(0 <= j and j < len(node) and r is node[j] for j in Ints()))')]
FLATN = [x.replace('newChild', 'node') for x in FLATFRAG]
P.fn(F + 'Node.__setitem__', name='Node.__setitem__', params=dict(self='Node', i='int', node='Node'), returns='none',
     requires=['node is not self'] + FLATN + WFN,
     raises={'IndexError': 'i >= len(self) or i < -len(self)'},
     exc_ensures={'IndexError': ['seq(self) == old(seq(self))']},
     ensures=['implies(node.nodeType != 11, seq(self) == old(seq(self))[:%s] + [node] + old(seq(self))[%s + 1:])' % (IDX, IDX),
              'implies(node.nodeType == 11, seq(self) == old(seq(self))[:%s] + old(seq(node)) + old(seq(self))[%s + 1:])' % (IDX, IDX),
              'implies(node.nodeType != 11, node.ownerDocument is self.ownerDocument and node.parentNode is (self.parentNode if self.nodeType == 11 else self))',
              ],
     modifies=MODS,
     loops={0: Loop(index='m', inv=[
         'm <= len(node)', 'node.nodeType == 11', 'seq(node) == old(seq(node))', 'i == %s + m' % idx('old(i)'),
         '0 <= %s and %s < len(old(seq(self)))' % (idx('old(i)'), idx('old(i)')),
         'seq(self) == old(seq(self))[:i - m] + old(seq(node))[:m] + old(seq(self))[i - m:]',
         'all(not isnone(self[j]) for j in range(len(self)))'])})

for nm, off in (('insertBefore', 0), ('insertAfter', 1)):
    P.fn(F + 'Node.' + nm, name='Node.' + nm, params=dict(self='Node', newChild='Node', refChild='Node'), returns='Node',
         requires=NOSELF + WFN + ['newChild.nodeType != 11', 'newChild is not refChild',
                                  'all(implies(j != m, self[j] is not self[m]) for j in range(len(self)) for m in range(len(self)))'],
         raises={'NotFoundErr': NOCHILD % 'refChild'},
         ensures=['result is newChild',
                  # newChild sits directly before / after refChild; the other children keep their relative order
                  'any(self[p] is refChild and self[p + (%d)] is newChild for p in range(len(self)))' % (1 if off else -1),
                  'len(self) == old(len(self)) + (0 if old(' + ISCHILD % 'newChild' + ') else 1)',
                  'newChild.parentNode is (self.parentNode if self.nodeType == 11 else self)', 'newChild.ownerDocument is self.ownerDocument'],
         modifies=[Mod('list:Node', 'r is self'), Mod('parentNode', 'r is newChild'), Mod('ownerDocument', 'r is newChild')],
         # witness for the existential postcondition: the loop index at the return
         at_exit=['self[i + %d] is refChild and self[i + %d] is newChild and 0 <= i and i + 1 < len(self)' % ((1, 0) if nm == 'insertBefore' else (0, 1))],
         loops={0: Loop(index='k', inv=['k <= len(self)', 'all(self[q] is not refChild for q in range(k))',
                                        'all(not isnone(self[j]) for j in range(len(self)))',
                                        'all(self[j] is not newChild for j in range(len(self)))',
                                        'len(self) == old(len(self)) - (1 if old(' + ISCHILD % 'newChild' + ') else 0)',
                                        'implies(' + NOCHILD % 'refChild' + ', old(' + NOCHILD % 'refChild' + '))'],
                        modifies=[])})

PO = 'FIRST(old(seq(self)), oldChild, 0)'
P.fn(F + 'Node.replaceChild', name='Node.replaceChild', params=dict(self='Node', newChild='Node', oldChild='Node'), returns='Node',
     requires=NOSELF + WFN + FLATFRAG + ['implies(newChild.nodeType == 11, all(self[j] is not newChild for j in range(len(self))) and newChild is not oldChild)'],
     raises={'NotFoundErr': 'all(self[j] is not oldChild for j in range(len(self)))'},
     ensures=['result is oldChild',
              'implies(newChild is oldChild, seq(self) == old(seq(self)))',
              # a fragment is replaced by its children, in order
              'implies(newChild.nodeType == 11, seq(self) == old(seq(self))[:%s] + old(seq(newChild)) + old(seq(self))[%s + 1:])' % (PO, PO),
              # a new child that was not yet a child takes exactly the slot of the (first occurrence of the) old one
              'implies(newChild.nodeType != 11 and newChild is not oldChild and old(all(self[j] is not newChild for j in range(len(self)))), '
              'seq(self) == old(seq(self))[:%s] + [newChild] + old(seq(self))[%s + 1:])' % (PO, PO),
              'implies(newChild.nodeType != 11, any(self[p] is newChild for p in range(len(self))))',
              'newChild.parentNode is (self.parentNode if self.nodeType == 11 else self)', 'newChild.ownerDocument is self.ownerDocument'],
     modifies=MODL,
     at_exit=['implies(newChild.nodeType != 11, self[i] is newChild and 0 <= i and i < len(self))'],
     loops={0: Loop(index='k', inv=['k <= len(self)', 'all(self[q] is not oldChild for q in range(k))',
                                    'all(not isnone(self[j]) for j in range(len(self)))',
                                    'implies(newChild is oldChild or old(all(self[j] is not newChild for j in range(len(self)))), seq(self) == old(seq(self)))',
                                    'implies(all(self[j] is not oldChild for j in range(len(self))), old(all(self[j] is not oldChild for j in range(len(self)))))',
                                    'implies(newChild is oldChild or old(all(self[j] is not newChild for j in range(len(self)))), '
                                    'FIRST(old(seq(self)), oldChild, k) == FIRST(old(seq(self)), oldChild, 0))'],
                    modifies=[])})

P.fn(F + 'Node.extend', name='Node.extend', params=dict(self='Node', other='list[Node]', setParent='bool=True'), returns='Node',
     requires=['other is not self', 'all(not isnone(other[j]) and other[j].nodeType != 11 and other[j] is not self for j in range(len(other)))'],
     ensures=['result is self', 'seq(self) == old(seq(self)) + old(seq(other))',
              'all(other[j].ownerDocument is self.ownerDocument and implies(setParent, other[j].parentNode is (self.parentNode if self.nodeType == 11 else self)) for j in range(len(other)))'],
     modifies=[Mod('list:Node', 'r is self'), Mod('parentNode', 'any(0 <= j and j < len(other) and r is other[j] for j in Ints())'),
               Mod('ownerDocument', 'any(0 <= j and j < len(other) and r is other[j] for j in Ints())')],
     loops={0: Loop(index='i', inv=['i <= len(other)', 'seq(other) == old(seq(other))', 'seq(self) == old(seq(self)) + old(seq(other))[:i]',
                                    'all(other[j].ownerDocument is self.ownerDocument and implies(setParent, other[j].parentNode is (self.parentNode if self.nodeType == 11 else self)) for j in range(i))'])})

# ---- derived views agree with the list model
P.fn('Node.hasChildNodes', params=dict(self='Node'), returns='bool', ensures=['implies(len(self) > 0, result)'], trusted=True,
     notes='hasChildNodes() is true whenever the child list is non-empty')
PS = 'FIRST(seq(self.parentNode), self, 0)'
P.fn(F + '_previousSibling', name='_previousSibling', params=dict(self='Node'), returns='Node?',
     requires=['implies(not isnone(self.parentNode), all(not isnone(self.parentNode[j]) for j in range(len(self.parentNode))))'],
     ensures=['implies(isnone(self.parentNode) or len(self.parentNode) == 0, isnone(result))',
              'implies(not isnone(self.parentNode) and len(self.parentNode) > 0 and %s >= 1 and %s < len(self.parentNode), result is self.parentNode[%s - 1])' % (PS, PS, PS),
              'implies(not isnone(self.parentNode) and len(self.parentNode) > 0 and (%s == 0 or %s >= len(self.parentNode)), isnone(result))' % (PS, PS)],
     loops={0: Loop(index='k', inv=['k <= len(self.parentNode)', 'all(self.parentNode[q] is not self for q in range(k))',
                                    'FIRST(seq(self.parentNode), self, k) == FIRST(seq(self.parentNode), self, 0)',
                                    'implies(k == 0, isnone(previous))', 'implies(k > 0, previous is self.parentNode[k - 1])'],
                    locals={'previous': 'Node?'})}, locals={'previous': 'Node?'})
P.fn(F + '_nextSibling', name='_nextSibling', params=dict(self='Node'), returns='Node?',
     requires=['implies(not isnone(self.parentNode), all(not isnone(self.parentNode[j]) for j in range(len(self.parentNode))))'],
     ensures=['implies(isnone(self.parentNode) or len(self.parentNode) == 0, isnone(result))',
              'implies(not isnone(self.parentNode) and len(self.parentNode) > 0 and %s + 1 < len(self.parentNode), result is self.parentNode[%s + 1])' % (PS, PS),
              'implies(not isnone(self.parentNode) and len(self.parentNode) > 0 and %s + 1 >= len(self.parentNode), isnone(result))' % PS],
     loops={0: Loop(index='k', inv=['k <= len(self.parentNode)',
                                    'implies(not next, all(self.parentNode[q] is not self for q in range(k)) and FIRST(seq(self.parentNode), self, k) == FIRST(seq(self.parentNode), self, 0))',
                                    'implies(next, k >= 1 and %s == k - 1)' % PS])})
P.fn(F + 'Node.firstChild', name='Node.firstChild', params=dict(self='Node'), returns='Node?', kind='property',
     requires=WFN, ensures=['implies(len(self) > 0, result is self[0])', 'implies(len(self) == 0, isnone(result))'],
     calls={'self.hasChildNodes': 'Node.hasChildNodes'})
P.fn(F + 'Node.lastChild', name='Node.lastChild', params=dict(self='Node'), returns='Node?', kind='property',
     requires=WFN, ensures=['implies(len(self) > 0, result is self[len(self) - 1])', 'implies(len(self) == 0, isnone(result))'],
     calls={'self.hasChildNodes': 'Node.hasChildNodes'})
P.assume("a node's childNodes is its own child list (the aliasing of childNodes with attributes['self'] is excluded)")
P.unverified_surrounding('normalize / appendText, cloneNode, textContent, getElementsByTagName, compareDocumentPosition, NamedNodeMap re-parenting: covered by the bounded native model check only')
