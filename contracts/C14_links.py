"""C14 -- every internal link lands on an existing target: the URL of a node (plasTeX/Renderers/__init__.py Renderable.url)."""
from pyvc.dsl import Prop, Loop, Mod

P = Prop('C14', 'Every internal link in the rendered output lands on an existing target')
FR = 'plasTeX/Renderers/__init__.py::'
P.always_attrs = ('urloverride',)
P.cls('RNode', fields=dict(parentNode='RNode?', urloverride='str?', config='dict[str,dict[str,str]]', id='str'),
      props={'filename': 'Renderable.filename'})
P.uninterp('FN', ['RNode'], 'str?')          # the (cached, deterministic) output file of a node, None if it has none (C13)
P.uninterp('DEPTH', ['RNode'], 'int')        # ghost: distance to the root; parent links form a tree (C06)
P.fn('Renderable.filename', params=dict(self='RNode'), returns='str?', ensures=['result == FN(self)'], trusted=True, kind='property',
     notes='Renderable.filename is deterministic and cached per node (C13 contract)')
P.fn('URL', params=dict(x='str'), returns='str', ensures=['result == x'], trusted=True, notes='URL is a str subclass; URL(s) == s')


@P.spec(heap=True, fuel=1)
def NEARFILE(n: 'RNode?') -> 'RNode?':
    """The nearest node, starting at n and going up, that produces a file; None if there is none."""
    if isnone(n):
        return n
    if not isnone(FN(unopt(n))):
        return n
    return NEARFILE(unopt(n).parentNode)


BASE = 'self.config["document"]["base-url"]'
B = '(%s[:len(%s) - 1] if (%s != "" and %s[len(%s) - 1:] == "/") else %s)' % (BASE, BASE, BASE, BASE, BASE, BASE)
NF = 'NEARFILE(self.parentNode)'
FNAME = '("" if isnone(%s) else unopt(FN(unopt(%s))))' % (NF, NF)
P.fn(FR + 'Renderable.url', name='Renderable.url', params=dict(self='RNode'), returns='str', kind='property',
     requires=['"document" in self.config', '"base-url" in self.config["document"]', 'not isnone(self.config["document"])',
               # parent links form a tree: going up strictly decreases the depth
               'all(implies(allocated(x) and not isnone(x.parentNode), DEPTH(unopt(x.parentNode)) < DEPTH(x)) for x in Refs("RNode"))',
               'all(DEPTH(x) >= 0 for x in Refs("RNode"))'],
     ensures=[
         'implies(not isnone(self.urloverride), result == unopt(self.urloverride))',
         # a node with its own (non-empty) file: that file; otherwise the file of the NEAREST file-producing ancestor + #id
         'implies(isnone(self.urloverride) and not isnone(FN(self)) and unopt(FN(self)) != "", '
         'result == ((%s + "/" + unopt(FN(self))) if %s != "" else unopt(FN(self))))' % (B, B),
         'implies(isnone(self.urloverride) and (isnone(FN(self)) or unopt(FN(self)) == ""), '
         'result == ((%s + "/" + %s + "#" + self.id) if %s != "" else (%s + "#" + self.id)))' % (B, FNAME, B, FNAME)],
     calls={'URL': 'URL'},
     loops={0: Loop(inv=['NEARFILE(node) is NEARFILE(self.parentNode)'], decreases='(-1 if isnone(node) else DEPTH(unopt(node)))')})
P.unverified_surrounding('templates emitting href / id attributes; uniqueness of identifiers per file; table-of-contents reachability: '
                         'not Python functions of the repository or document-level (DESIGN section 7)')
