"""C17 -- a document's result does not depend on what was processed before it: ownership / frame reading.

Every store to an interpreter-wide location found by the syntactic inventory (native/inventory.py, ground obligation) must be
reviewed in contracts/C17_inventory.json; the locations classified `balanced` carry the proof obligations below."""
from pyvc.dsl import Prop, Loop, Mod

P = Prop('C17', "A document's result does not depend on what was processed before it")
FI = 'plasTeX/__init__.py::'
P.cls('PCClass', fields=dict(_enablelevel='int', enabled='bool'))
P.global_obj('ParameterCommand', 'PCClass')
P.cls('MathSwitch', fields=dict(disableMath='bool'))
P.global_obj('BeginMath', 'MathSwitch')
P.global_obj('EndMath', 'MathSwitch')
P.cls('Any', universal=True, elem='Any')
P.cls('TeX')
P.cls('PCInst', fields={})
P.cls('type', fields=dict(value='Any'))
LVL = 'ParameterCommand._enablelevel'
WFPC = 'ParameterCommand.enabled == (ParameterCommand._enablelevel >= 0)'
MODPC = [Mod('_enablelevel', 'r is ParameterCommand'), Mod('enabled', 'r is ParameterCommand')]
P.fn(FI + 'ParameterCommand.enable', name='PCClass.enable', params=dict(cls='PCClass'), returns='none',
     ensures=['%s == old(%s) + 1' % (LVL, LVL), WFPC], modifies=MODPC)
P.fn(FI + 'ParameterCommand.disable', name='PCClass.disable', params=dict(cls='PCClass'), returns='none',
     ensures=['%s == old(%s) - 1' % (LVL, LVL), WFPC], modifies=MODPC)
# enable after disable is the identity on the switch (two-call lemma)
P.client('enable_disable_inverse', dict(),
         requires=[WFPC], ensures=['%s == old(%s)' % (LVL, LVL), 'ParameterCommand.enabled == old(ParameterCommand.enabled)'],
         body="""
ParameterCommand.disable()
ParameterCommand.enable()
""")
P.fn('PCInst.parse', params=dict(self='PCInst', tex='TeX'), returns='dict[str,Any]', ensures=['"value" in result', 'ParameterCommand.enabled == old(ParameterCommand.enabled)',
     '%s == old(%s)' % (LVL, LVL)], allocates=True, trusted=True,
     notes='Macro.parse of a parameter: scanners are balanced (C05); nested parameters do not invoke while the switch is off')
P.fn('set_class_value', params={}, returns='none', trusted=True)
P.fn(FI + 'ParameterCommand.invoke', name='ParameterCommand.invoke', params=dict(self='PCInst', tex='TeX'), returns='none',
     # the switch is switched off only for the duration of the argument scan and is back on afterwards
     ensures=['ParameterCommand.enabled == old(ParameterCommand.enabled)', '%s == old(%s)' % (LVL, LVL)],
     allocates=True, skip_frame=True, calls={'self.parse': 'PCInst.parse'}, fields={'value': 'Any'})

P.cls('ifthenelse', fields={})
P.cls('TeXFragment', bases=['Any'])
P.fn('ifthenelse.parse', params=dict(self='ifthenelse', tex='TeX'), returns='dict[str,Any]',
     ensures=['"test" in result', '"then" in result', '"else" in result', 'BeginMath.disableMath == old(BeginMath.disableMath)',
              'EndMath.disableMath == old(EndMath.disableMath)'], allocates=True, trusted=True)
P.cls('BoolTok', fields=dict(state='bool'))
P.fn('ifthenelse.evaluate', params=dict(self='ifthenelse', tex='TeX', test='opaque'), returns='BoolTok', allocates=True, trusted=True,
     notes='proved under C19')
P.fn('plasTeX/Packages/ifthen.py::ifthenelse.invoke', name='ifthenelse.invoke', params=dict(self='ifthenelse', tex='TeX'), returns='Any',
     # \\( and \\) are re-enabled after the test has been parsed: both switches are back at their initial value False
     ensures=['not BeginMath.disableMath', 'not EndMath.disableMath'],
     allocates=True, skip_frame=True, calls={'self.parse': 'ifthenelse.parse', 'self.evaluate': 'ifthenelse.evaluate'}, locals={'[]': 'list[Any]'})
P.assume('Macro.parse of a parameter / of ifthenelse does not itself change the switches (scanners balanced, C05)')
P.unverified_surrounding('equality of the whole tree / rendered files of B after A1..Ak: bounded native comparison (bounded/isolation)')
