"""C03 -- conditionals process exactly the branch TeX would select (plasTeX/TeX.py processIfContent and test primitives)."""
from pyvc.dsl import Prop, Loop, Mod

P = Prop('C03', 'Conditionals process exactly the branch TeX would select')
FT = 'plasTeX/TeX.py::'
P.always_attrs = ('macroName',)
P.cls('Tok', fields=dict(macroName='str?'))
P.cls('TokIter', fields=dict(pos='int'))
P.cls('TeX')
P.uninterp('STREAM', [], 'seq[Tok]')          # ghost: the unexpanded token stream in front of the conditional (A5)
P.ghost('pushed', 'seq[Tok]')
P.ghost('npush', 'int')
P.fn('TokIter.__next__', params=dict(self='TokIter'), returns='Tok',
     raises={'StopIteration': 'iff:self.pos >= len(STREAM())'},
     ensures=['result is STREAM()[old(self.pos)]', 'self.pos == old(self.pos) + 1'],
     modifies=[Mod('pos', 'r is self')], trusted=True, notes='TeX.itertokens(): the token stream view (A5)')
P.fn('TeX.itertokens', params=dict(self='TeX'), returns='TokIter', ensures=['fresh(result)', 'result.pos == 0'],
     allocates=True, modifies=[Mod('pos', 'False')], trusted=True)
P.fn('TeX.pushTokens', params=dict(self='TeX', tokens='list[Tok]'), returns='none',
     ghost_sets={'pushed': 'seq(tokens)', 'npush': 'ghost("npush") + 1'}, trusted=True,
     notes='pushes the tokens back in front of the stream (C02 stream contracts)')

P.fn(FT + 'TeX.processIfContent', name='TeX.processIfContent',
     params=dict(self='TeX', which='int', debug='bool=False'), returns='none',
     requires=['all(not isnone(STREAM()[k]) for k in range(len(STREAM())))', 'ghost("npush") == 0'],
     # no-raise for EVERY integer selector (IndexError before the fix); the only exception allowed is the iterator running dry
     # right after a \\newif (normal form: every \\newif is followed by a token)
     raises={'StopIteration': 'any(STREAM()[k].macroName == "newif" and k == len(STREAM()) - 1 for k in range(len(STREAM())))'},
     ensures=['ghost("npush") == 1'],     # exactly one case is pushed back
     allocates=True, skip_frame=True, locals={'cases': 'list[list[Tok]]', '[]': 'list[Tok]'},
     calls={'self.itertokens': 'TeX.itertokens', 'self.pushTokens': 'TeX.pushTokens'},
     loops={0: Loop(inv=['len(cases) >= 1', 'all(not isnone(cases[j]) for j in range(len(cases)))', 'nesting >= 0',
                         'ghost("npush") == 0', 'iterator.pos <= len(STREAM())', 'iterator.pos >= 0', 'cases is not None',
                         'all(cases[j] is not cases for j in range(len(cases)))'],
                    modifies=[Mod('list:Tok', 'True'), Mod('list:list[Tok]', 'True'), Mod('pos', 'r is iterator')])})

# ---------------------------------------------------------------- test primitives: exactly one branch selection, by TeX's rule
FP = 'plasTeX/Base/TeX/Primitives.py::'
P.ghost('branch', 'int')      # 0 = "true" text, 1 = \else text (what processIfContent is asked to select)
P.ghost('ncalls', 'int')
P.cls('IfCommand', fields=dict(attributes='dict[str,int]'))
P.fn('TeX.processIfContent/bool', params=dict(self='TeX', which='bool'), returns='none',
     ghost_sets={'branch': '0 if which else 1', 'ncalls': 'ghost("ncalls") + 1'}, trusted=True,
     notes='interface of processIfContent for boolean selectors: True selects case 0, False the else part (proved above: isinstance(which, bool) mapping)')
P.fn('IfCommand.parse', params=dict(self='IfCommand', tex='TeX'), returns='none', trusted=True, notes='Macro.parse binds a, rel (C05)')
P.uninterp('ARG_A', ['IfCommand'], 'int')
P.uninterp('ARG_B', [], 'int')
P.uninterp('ARG_REL', ['IfCommand'], 'str')
P.fn('get_rel', params={}, returns='str', trusted=True)
P.fn('TeX.readNumber', params=dict(self='TeX'), returns='int', ensures=['result == ARG_B()'], trusted=True, notes='number scanning (C05)')
ONE = ['ghost("ncalls") == 1']
for cname in ('ifnum', 'ifdim'):
    P.cls(cname, bases=['IfCommand'])
    P.fn(FP + cname + '.invoke', name=cname + '.invoke', params=dict(self=cname, tex='TeX'), returns='list[Tok]',
         requires=['ghost("ncalls") == 0', '"a" in self.attributes', 'implies("%s" == "ifdim", "b" in self.attributes)' % cname],
         raises={'ValueError': 'True'},
         ensures=ONE + ['len(result) == 0',
                        # the true text is selected iff the relation written holds between the two operands
                        'any((rel == "<" and ghost("branch") == (0 if self.attributes["a"] < self.attributes["b"] else 1)) or '
                        '(rel == ">" and ghost("branch") == (0 if self.attributes["a"] > self.attributes["b"] else 1)) or '
                        '(rel == "=" and ghost("branch") == (0 if self.attributes["a"] == self.attributes["b"] else 1)) for rel in Strs())',
                        'all(implies(k != "b", (k in self.attributes) == old(k in self.attributes) and self.attributes[k] == old(self.attributes[k])) for k in Strs())'],
         allocates=True, skip_frame=True, locals={'[]': 'list[Tok]'},
         calls={'self.parse': 'IfCommand.parse', 'tex.processIfContent': 'TeX.processIfContent/bool', "attrs['rel']": 'get_rel',
                'tex.readNumber': 'TeX.readNumber'})
P.cls('ifodd', bases=['IfCommand'])
P.fn(FP + 'ifodd.invoke', name='ifodd.invoke', params=dict(self='ifodd', tex='TeX'), returns='list[Tok]',
     requires=['ghost("ncalls") == 0'],
     ensures=ONE + ['ghost("branch") == (0 if ARG_B() % 2 == 1 else 1)'],     # TeX: odd iff the remainder modulo 2 is 1 (also for negatives)
     allocates=True, skip_frame=True, locals={'[]': 'list[Tok]'},
     calls={'tex.processIfContent': 'TeX.processIfContent/bool', 'tex.readNumber': 'TeX.readNumber'})
for cname, val in (('ifvmode', 1), ('ifhmode', 0), ('ifinner', 1)):
    P.cls(cname, bases=['IfCommand'])
    P.fn(FP + cname + '.invoke', name=cname + '.invoke', params=dict(self=cname, tex='TeX'), returns='list[Tok]',
         requires=['ghost("ncalls") == 0'], ensures=ONE + ['ghost("branch") == %d' % val],
         allocates=True, skip_frame=True, locals={'[]': 'list[Tok]'}, calls={'tex.processIfContent': 'TeX.processIfContent/bool'})
# \iftrue / \iffalse (and the switches \newif derives from them): always the true text / always the else part
for cname, val in (('iftrue', 0), ('iffalse', 1)):
    P.cls(cname, bases=['IfCommand'])
    P.fn(FP + cname + '.invoke', name=cname + '.invoke', params=dict(self=cname, tex='TeX'), returns='list[Tok]',
         requires=['ghost("ncalls") == 0'], ensures=ONE + ['ghost("branch") == %d' % val, 'len(result) == 0'],
         allocates=True, skip_frame=True, locals={'[]': 'list[Tok]'}, calls={'tex.processIfContent': 'TeX.processIfContent/bool'})
# \ifcat: the true text iff the two tokens read have the same category code
P.cls('CatTok', fields=dict(catcode='int'))
P.cls('ifcat', fields=dict(attributes='dict[str,CatTok]'))
P.fn('ifcat.parse', params=dict(self='ifcat', tex='TeX'), returns='none', trusted=True, notes='Macro.parse binds a, b to the two tokens read (C05)')
P.fn(FP + 'ifcat.invoke', name='ifcat.invoke', params=dict(self='ifcat', tex='TeX'), returns='list[Tok]',
     requires=['ghost("ncalls") == 0', '"a" in self.attributes', '"b" in self.attributes'],
     ensures=ONE + ['ghost("branch") == (0 if self.attributes["a"].catcode == self.attributes["b"].catcode else 1)', 'len(result) == 0'],
     allocates=True, skip_frame=True, locals={'[]': 'list[Tok]'},
     calls={'self.parse': 'ifcat.parse', 'tex.processIfContent': 'TeX.processIfContent/bool'})
# \ifmmode: the true text iff the context reports math mode (Context.isMathMode: proved in C04 to be the mode declared by the innermost
# frame that declares one)
P.cls('Ctx')
P.cls('Doc', fields=dict(context='Ctx'))
P.uninterp('MATHMODE', ['Ctx'], 'bool')
P.fn('Ctx.isMathMode', params=dict(self='Ctx'), returns='bool', ensures=['result == MATHMODE(self)'], trusted=True, modifies=[],
     notes='Context.isMathMode (contract proved in C04)')
P.cls('ifmmode', bases=['IfCommand'], fields=dict(ownerDocument='Doc'))
P.fn(FP + 'ifmmode.invoke', name='ifmmode.invoke', params=dict(self='ifmmode', tex='TeX'), returns='list[Tok]',
     requires=['ghost("ncalls") == 0'],
     ensures=ONE + ['ghost("branch") == (0 if MATHMODE(self.ownerDocument.context) else 1)', 'len(result) == 0'],
     allocates=True, skip_frame=True, locals={'[]': 'list[Tok]'},
     calls={'self.ownerDocument.context.isMathMode': 'Ctx.isMathMode', 'tex.processIfContent': 'TeX.processIfContent/bool'})
# \ifcase: exactly one selection, the selector being the number read (what an integer selector selects is TeX.processIfContent/select)
P.ghost('selector', 'int')
P.fn('TeX.processIfContent/int', params=dict(self='TeX', which='int'), returns='none',
     ghost_sets={'selector': 'which', 'ncalls': 'ghost("ncalls") + 1'}, trusted=True,
     notes='interface of processIfContent for integer selectors (case number; proved in TeX.processIfContent/select)')
P.cls('ifcase', bases=['IfCommand'])
P.fn(FP + 'ifcase.invoke', name='ifcase.invoke', params=dict(self='ifcase', tex='TeX'), returns='list[Tok]',
     requires=['ghost("ncalls") == 0'],
     ensures=ONE + ['ghost("selector") == ARG_B()', 'len(result) == 0'],
     allocates=True, skip_frame=True, locals={'[]': 'list[Tok]'},
     calls={'tex.processIfContent': 'TeX.processIfContent/int', 'tex.readNumber': 'TeX.readNumber'})
# \ifdefined: the true text iff the name of the token read is defined in the context (Context.__contains__: chained lookup, C04)
P.cls('NameTok', fields=dict(macroName='str'))
P.cls('DCtx', dictof=('str', 'int'))
P.cls('DDoc', fields=dict(context='DCtx'))
P.cls('ifdefined', fields=dict(ownerDocument='DDoc'))
P.uninterp('ARG_NAME', ['ifdefined'], 'str')
P.fn('ifdefined.parse', params=dict(self='ifdefined', tex='TeX'), returns='dict[str,NameTok]', trusted=True, modifies=[],
     ensures=['"name" in result', 'result["name"].macroName == ARG_NAME(self)'],
     notes='Macro.parse returns the attributes; name is bound to the token read, unexpanded (C05); ARG_NAME: ghost name of that token')
P.fn('str_', params=dict(s='str'), returns='str', ensures=['result == s'], trusted=True, modifies=[], notes='str() of a str')
P.fn(FP + 'ifdefined.invoke', name='ifdefined.invoke', params=dict(self='ifdefined', tex='TeX'), returns='list[Tok]',
     requires=['ghost("ncalls") == 0'],
     ensures=ONE + ['ghost("branch") == (0 if ARG_NAME(self) in self.ownerDocument.context else 1)', 'len(result) == 0'],
     allocates=True, skip_frame=True, locals={'[]': 'list[Tok]'},
     calls={'self.parse': 'ifdefined.parse', 'str': 'str_', 'tex.processIfContent': 'TeX.processIfContent/bool'})
P.unverified_surrounding("functional selection of processIfContent (which tokens are pushed back) against TeX's skipping machine: "
                         "bounded native comparison (bounded/ifcontent); if / ifx token comparison (Token.__eq__ hook), ifcsname / box tests: not under contract")

# ---------------------------------------------------------------------------------------------- which tokens are pushed back
# TeX's skipping machine, stated over a ghost classification K of the stream tokens (0 other, 1 \if..., 2 \fi, 3 \else, 4 \or,
# 5 \newif): S(k) token k is the argument of a \newif; D(k) nesting depth before token k; a separator is a top-level \else / \or,
# the end is the first top-level \fi; C(k) number of separators before k; IDX(k) position of token k inside its case.
P.uninterp('K', [], 'seq[int]')


@P.spec(fuel=1)
def S(k: 'int') -> 'bool':
    return k >= 1 and k <= len(K()) and K()[k - 1] == 5 and not S(k - 1)


@P.spec(fuel=1)
def D(k: 'int') -> 'int':
    if k <= 0:
        return 0
    return D(k - 1) + (1 if (K()[k - 1] == 1 and not S(k - 1)) else 0) - (1 if (K()[k - 1] == 2 and not S(k - 1) and D(k - 1) > 0) else 0)


@P.spec
def SEP(k: 'int') -> 'bool':
    return (not S(k)) and D(k) == 0 and (K()[k] == 3 or K()[k] == 4)


@P.spec
def END(k: 'int') -> 'bool':
    return (not S(k)) and D(k) == 0 and K()[k] == 2


@P.spec(fuel=1)
def C(k: 'int') -> 'int':
    if k <= 0:
        return 0
    return C(k - 1) + (1 if SEP(k - 1) else 0)


@P.spec(fuel=1)
def IDX(k: 'int') -> 'int':
    if k <= 0:
        return 0
    return 0 if SEP(k - 1) else IDX(k - 1) + 1


@P.spec(fuel=1)
def HE(k: 'int') -> 'bool':
    """a top-level \\else occurs before position k"""
    return k > 0 and (HE(k - 1) or (SEP(k - 1) and K()[k - 1] == 3))


NAME = '("" if isnone(STREAM()[k].macroName) else unopt(STREAM()[k].macroName))'
KREQ = ['len(K()) == len(STREAM())',
        'all(not isnone(STREAM()[k]) and K()[k] == (5 if %s == "newif" else 1 if %s.startswith("if") else 2 if %s == "fi" else 3 if %s == "else" '
        'else 4 if %s == "or" else 0) for k in range(len(STREAM())))' % (NAME, NAME, NAME, NAME, NAME)]
POS = 'iterator.pos'
INV_SEL = ['0 <= %s' % POS, '%s <= len(STREAM())' % POS, 'not S(%s)' % POS, 'nesting == D(%s)' % POS, 'nesting >= 0',
           'all(not END(k) for k in range(%s))' % POS,
           'len(cases) == C(%s) + 1' % POS, 'len(cases[len(cases) - 1]) == IDX(%s)' % POS,
           'all(implies(not SEP(k), cases[C(k)][IDX(k)] is STREAM()[k]) for k in range(%s))' % POS,
           'all(implies(SEP(k), len(cases[C(k)]) == IDX(k)) for k in range(%s))' % POS,
           'all(0 <= C(k) and C(k) <= C(%s) and 0 <= IDX(k) for k in range(%s + 1))' % (POS, POS),
           'all(implies(not SEP(k), IDX(k) < len(cases[C(k)])) for k in range(%s))' % POS,
           'elsefound == HE(%s)' % POS, 'all(implies(SEP(k), C(k) < C(%s)) for k in range(%s))' % (POS, POS),
           'fresh(cases)', 'all(fresh(cases[j]) and cases[j] is not cases for j in range(len(cases)))',
           'all(cases[a] is not cases[b] for a in range(len(cases)) for b in range(a + 1, len(cases)))',
           'ghost("npush") == 0', 'not correctly_terminated']
P.fn(FT + 'TeX.processIfContent', name='TeX.processIfContent/select',
     params=dict(self='TeX', which='int', debug='bool=False'), returns='none',
     requires=['ghost("npush") == 0'] + KREQ,
     raises={'StopIteration': 'True'},
     ensures=['ghost("npush") == 1',
              # the pushed tokens are exactly the tokens of the selected case, in order: every non-separator token k before the closing
              # \\fi whose case number is the selector (or the last case when the selector is out of range) sits at position IDX(k)
              'all(implies(not SEP(k) and C(k) == (which if (0 <= which and which < (C((iterator.pos - 1 if correctly_terminated else iterator.pos)) + 1 + (0 if HE((iterator.pos - 1 if correctly_terminated else iterator.pos)) else 1))) else (C((iterator.pos - 1 if correctly_terminated else iterator.pos)) + 1 + (0 if HE((iterator.pos - 1 if correctly_terminated else iterator.pos)) else 1)) - 1), IDX(k) < len(ghost("pushed")) and ghost("pushed")[IDX(k)] is STREAM()[k]) '
              'for k in range((iterator.pos - 1 if correctly_terminated else iterator.pos)))',
              # and nothing else: its length is the length of that case
              'all(implies(SEP(k) and C(k) == (which if (0 <= which and which < (C((iterator.pos - 1 if correctly_terminated else iterator.pos)) + 1 + (0 if HE((iterator.pos - 1 if correctly_terminated else iterator.pos)) else 1))) else (C((iterator.pos - 1 if correctly_terminated else iterator.pos)) + 1 + (0 if HE((iterator.pos - 1 if correctly_terminated else iterator.pos)) else 1)) - 1), len(ghost("pushed")) == IDX(k)) for k in range((iterator.pos - 1 if correctly_terminated else iterator.pos)))',
              'implies((which if (0 <= which and which < (C((iterator.pos - 1 if correctly_terminated else iterator.pos)) + 1 + (0 if HE((iterator.pos - 1 if correctly_terminated else iterator.pos)) else 1))) else (C((iterator.pos - 1 if correctly_terminated else iterator.pos)) + 1 + (0 if HE((iterator.pos - 1 if correctly_terminated else iterator.pos)) else 1)) - 1) == C((iterator.pos - 1 if correctly_terminated else iterator.pos)), len(ghost("pushed")) == IDX((iterator.pos - 1 if correctly_terminated else iterator.pos)))',
              'implies((which if (0 <= which and which < (C((iterator.pos - 1 if correctly_terminated else iterator.pos)) + 1 + (0 if HE((iterator.pos - 1 if correctly_terminated else iterator.pos)) else 1))) else (C((iterator.pos - 1 if correctly_terminated else iterator.pos)) + 1 + (0 if HE((iterator.pos - 1 if correctly_terminated else iterator.pos)) else 1)) - 1) > C((iterator.pos - 1 if correctly_terminated else iterator.pos)), len(ghost("pushed")) == 0)'],
     allocates=True, skip_frame=True, heap_consts=True, solver_ms=90000, locals={'cases': 'list[list[Tok]]', '[]': 'list[Tok]'},
     calls={'self.itertokens': 'TeX.itertokens', 'self.pushTokens': 'TeX.pushTokens', 'next': 'TokIter.__next__'},
     loops={0: Loop(inv=INV_SEL, at_end=['unfold(%s(iterator.pos%s)) == %s(iterator.pos%s)' % (f, d, f, d) for f in ('S', 'HE', 'D', 'C', 'IDX') for d in ('', ' - 1')],
                    modifies=[Mod('list:Tok', 'fresh(r)'), Mod('list:list[Tok]', 'fresh(r)'), Mod('pos', 'r is iterator')])})
