"""C03 -- conditionals process exactly the branch TeX would select (plasTeX/TeX.py processIfContent and test primitives)."""
from pyvc.dsl import Prop, Loop, Mod

P = Prop('C03', 'Conditionals process exactly the branch TeX would select')
FT = 'plasTeX/TeX.py::'
P.always_attrs = ('macroName',)
P.cls('Tok', fields=dict(macroName='str?'))
P.cls('TokIter', fields=dict(pos='int'))
P.cls('TeX')
P.uninterp('STREAM', [], 'seq[Tok]')          # ghost: the unexpanded token stream in front of the conditional (A5)
P.ghost('pushed', 'seq[Tok]')
P.ghost('npush', 'int')
P.fn('TokIter.__next__', params=dict(self='TokIter'), returns='Tok',
     raises={'StopIteration': 'iff:self.pos >= len(STREAM())'},
     ensures=['result is STREAM()[old(self.pos)]', 'self.pos == old(self.pos) + 1'],
     modifies=[Mod('pos', 'r is self')], trusted=True, notes='TeX.itertokens(): the token stream view (A5)')
P.fn('TeX.itertokens', params=dict(self='TeX'), returns='TokIter', ensures=['fresh(result)', 'result.pos == 0'],
     allocates=True, modifies=[Mod('pos', 'False')], trusted=True)
P.fn('TeX.pushTokens', params=dict(self='TeX', tokens='list[Tok]'), returns='none',
     ghost_sets={'pushed': 'seq(tokens)', 'npush': 'ghost("npush") + 1'}, trusted=True,
     notes='pushes the tokens back in front of the stream (C02 stream contracts)')

P.fn(FT + 'TeX.processIfContent', name='TeX.processIfContent',
     params=dict(self='TeX', which='int', debug='bool=False'), returns='none',
     requires=['all(not isnone(STREAM()[k]) for k in range(len(STREAM())))', 'ghost("npush") == 0'],
     # no-raise for EVERY integer selector (IndexError before the fix); the only exception allowed is the iterator running dry
     # right after a \\newif (normal form: every \\newif is followed by a token)
     raises={'StopIteration': 'any(STREAM()[k].macroName == "newif" and k == len(STREAM()) - 1 for k in range(len(STREAM())))'},
     ensures=['ghost("npush") == 1'],     # exactly one case is pushed back
     allocates=True, skip_frame=True, locals={'cases': 'list[list[Tok]]', '[]': 'list[Tok]'},
     calls={'self.itertokens': 'TeX.itertokens', 'self.pushTokens': 'TeX.pushTokens'},
     loops={0: Loop(inv=['len(cases) >= 1', 'all(not isnone(cases[j]) for j in range(len(cases)))', 'nesting >= 0',
                         'ghost("npush") == 0', 'iterator.pos <= len(STREAM())', 'iterator.pos >= 0', 'cases is not None',
                         'all(cases[j] is not cases for j in range(len(cases)))'],
                    modifies=[Mod('list:Tok', 'True'), Mod('list:list[Tok]', 'True'), Mod('pos', 'r is iterator')])})

# ---------------------------------------------------------------- test primitives: exactly one branch selection, by TeX's rule
FP = 'plasTeX/Base/TeX/Primitives.py::'
P.ghost('branch', 'int')      # 0 = "true" text, 1 = \else text (what processIfContent is asked to select)
P.ghost('ncalls', 'int')
P.cls('IfCommand', fields=dict(attributes='dict[str,int]'))
P.fn('TeX.processIfContent/bool', params=dict(self='TeX', which='bool'), returns='none',
     ghost_sets={'branch': '0 if which else 1', 'ncalls': 'ghost("ncalls") + 1'}, trusted=True,
     notes='interface of processIfContent for boolean selectors: True selects case 0, False the else part (proved above: isinstance(which, bool) mapping)')
P.fn('IfCommand.parse', params=dict(self='IfCommand', tex='TeX'), returns='none', trusted=True, notes='Macro.parse binds a, rel (C05)')
P.uninterp('ARG_A', ['IfCommand'], 'int')
P.uninterp('ARG_B', [], 'int')
P.uninterp('ARG_REL', ['IfCommand'], 'str')
P.fn('get_rel', params={}, returns='str', trusted=True)
P.fn('TeX.readNumber', params=dict(self='TeX'), returns='int', ensures=['result == ARG_B()'], trusted=True, notes='number scanning (C05)')
ONE = ['ghost("ncalls") == 1']
for cname in ('ifnum', 'ifdim'):
    P.cls(cname, bases=['IfCommand'])
    P.fn(FP + cname + '.invoke', name=cname + '.invoke', params=dict(self=cname, tex='TeX'), returns='list[Tok]',
         requires=['ghost("ncalls") == 0', '"a" in self.attributes', 'implies("%s" == "ifdim", "b" in self.attributes)' % cname],
         raises={'ValueError': 'True'},
         ensures=ONE + ['len(result) == 0',
                        # the true text is selected iff the relation written holds between the two operands
                        'any((rel == "<" and ghost("branch") == (0 if self.attributes["a"] < self.attributes["b"] else 1)) or '
                        '(rel == ">" and ghost("branch") == (0 if self.attributes["a"] > self.attributes["b"] else 1)) or '
                        '(rel == "=" and ghost("branch") == (0 if self.attributes["a"] == self.attributes["b"] else 1)) for rel in Strs())',
                        'all(implies(k != "b", (k in self.attributes) == old(k in self.attributes) and self.attributes[k] == old(self.attributes[k])) for k in Strs())'],
         allocates=True, skip_frame=True, locals={'[]': 'list[Tok]'},
         calls={'self.parse': 'IfCommand.parse', 'tex.processIfContent': 'TeX.processIfContent/bool', "attrs['rel']": 'get_rel',
                'tex.readNumber': 'TeX.readNumber'})
P.cls('ifodd', bases=['IfCommand'])
P.fn(FP + 'ifodd.invoke', name='ifodd.invoke', params=dict(self='ifodd', tex='TeX'), returns='list[Tok]',
     requires=['ghost("ncalls") == 0'],
     ensures=ONE + ['ghost("branch") == (0 if ARG_B() % 2 == 1 else 1)'],     # TeX: odd iff the remainder modulo 2 is 1 (also for negatives)
     allocates=True, skip_frame=True, locals={'[]': 'list[Tok]'},
     calls={'tex.processIfContent': 'TeX.processIfContent/bool', 'tex.readNumber': 'TeX.readNumber'})
for cname, val in (('ifvmode', 1), ('ifhmode', 0), ('ifinner', 1)):
    P.cls(cname, bases=['IfCommand'])
    P.fn(FP + cname + '.invoke', name=cname + '.invoke', params=dict(self=cname, tex='TeX'), returns='list[Tok]',
         requires=['ghost("ncalls") == 0'], ensures=ONE + ['ghost("branch") == %d' % val],
         allocates=True, skip_frame=True, locals={'[]': 'list[Tok]'}, calls={'tex.processIfContent': 'TeX.processIfContent/bool'})
P.unverified_surrounding("functional selection of processIfContent (which tokens are pushed back) against TeX's skipping machine: "
                         "bounded native comparison (bounded/ifcontent); if / ifx / ifcat token comparison and newif switches: not under contract")
