"""C03 (second sidecar module) -- \\newif: the switch \\ifNAME and its two setters \\NAMEtrue / \\NAMEfalse (plasTeX/Context.py Context.newif).
The setter names are the switch name without its leading `if` -- exactly two characters are removed, whatever follows them."""
from pyvc.dsl import Prop, Loop, Mod

P = Prop('C03', 'Conditionals process exactly the branch TeX would select')
FC = 'plasTeX/Context.py::'
P.cls('Cls')
P.cls('Context')
P.ghost('nadd', 'int')
P.ghost('n0', 'str')
P.ghost('n1', 'str')
P.ghost('n2', 'str')
P.uninterp('DEFINED', ['str'], 'bool')
P.fn('Context.keys', params=dict(self='Context'), returns='list[str]', trusted=True, allocates=True, modifies=[],
     ensures=['all(any(result[i] == k for i in range(len(result))) == DEFINED(k) for k in Strs())'], notes='the names visible in the context')
P.fn('type3', params=dict(name='str', bases='opaque', ns='opaque'), returns='Cls', trusted=True, allocates=True, modifies=[], ensures=['fresh(result)'],
     notes='type(name, bases, dict): a new macro class')
P.fn('Context.addGlobal', params=dict(self='Context', key='str', value='Cls'), returns='none', trusted=True, modifies=[],
     ghost_sets={'nadd': 'ghost("nadd") + 1', 'n0': '(key if ghost("nadd") == 0 else ghost("n0"))', 'n1': '(key if ghost("nadd") == 1 else ghost("n1"))',
                 'n2': '(key if ghost("nadd") == 2 else ghost("n2"))'}, notes='Context.addGlobal (C04)')
P.fn('macrolog.debug', params=dict(a='opaque=0', b='opaque=0'), returns='none', trusted=True, modifies=[])
P.fn(FC + 'Context.newif', name='Context.newif', params=dict(self='Context', name='str', initial='bool=False'), returns='none',
     requires=['ghost("nadd") == 0', 'len(name) >= 2'],
     ensures=['implies(DEFINED(name), ghost("nadd") == 0)',                      # an existing switch is left alone
              'implies(not DEFINED(name), ghost("nadd") == 3 and ghost("n0") == name and ghost("n1") == name[2:] + "true" and ghost("n2") == name[2:] + "false")'],
     allocates=True, modifies=[], calls={'self.keys': 'Context.keys', 'type': 'type3', 'self.addGlobal': 'Context.addGlobal', 'macrolog.debug': 'macrolog.debug'})
