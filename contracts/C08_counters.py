"""C08 -- counters and automatic numbers."""
from pyvc.dsl import Prop, Loop, Mod

P = Prop('C08', 'Counters and automatic numbers follow LaTeX\'s numbering rules')


# ---- positional roman numerals (spec from the property statement: "the standard ones"), A.7
@P.spec
def HUN(k: 'int') -> 'str':
    return "" if k == 0 else "C" if k == 1 else "CC" if k == 2 else "CCC" if k == 3 else "CD" if k == 4 \
        else "D" if k == 5 else "DC" if k == 6 else "DCC" if k == 7 else "DCCC" if k == 8 else "CM"


@P.spec
def TEN(k: 'int') -> 'str':
    return "" if k == 0 else "X" if k == 1 else "XX" if k == 2 else "XXX" if k == 3 else "XL" if k == 4 \
        else "L" if k == 5 else "LX" if k == 6 else "LXX" if k == 7 else "LXXX" if k == 8 else "XC"


@P.spec
def ONE(k: 'int') -> 'str':
    return "" if k == 0 else "I" if k == 1 else "II" if k == 2 else "III" if k == 3 else "IV" if k == 4 \
        else "V" if k == 5 else "VI" if k == 6 else "VII" if k == 7 else "VIII" if k == 8 else "IX"


@P.spec
def R3(v: 'int') -> 'str':
    return HUN(v // 100) + TEN((v // 10) % 10) + ONE(v % 10)


@P.spec
def ROMAN(x: 'int') -> 'str':
    return rep("M", x // 1000) + R3(x % 1000)


def _lemma(name, lo, hi, d, sym):
    """R3(v) == sym + R3(v - d) for lo <= v < hi; proof steps are digit facts the solver checks one by one."""
    if d >= 100:
        steps = ['(v - %d) // 100 == v // 100 - %d' % (d, d // 100), '((v - %d) // 10) %% 10 == (v // 10) %% 10' % d,
                 '(v - %d) %% 10 == v %% 10' % d, 'HUN(v // 100) == "%s" + HUN(v // 100 - %d)' % (sym, d // 100)]
    elif d >= 10:
        steps = ['v // 100 == 0', '(v - %d) // 100 == 0' % d, '((v - %d) // 10) %% 10 == (v // 10) %% 10 - %d' % (d, d // 10),
                 '(v - %d) %% 10 == v %% 10' % d, 'TEN((v // 10) %% 10) == "%s" + TEN((v // 10) %% 10 - %d)' % (sym, d // 10)]
    else:
        steps = ['v // 100 == 0', '(v - %d) // 100 == 0' % d, '(v // 10) %% 10 == 0', '((v - %d) // 10) %% 10 == 0' % d,
                 '(v - %d) %% 10 == v %% 10 - %d' % (d, d), 'ONE(v %% 10) == "%s" + ONE(v %% 10 - %d)' % (sym, d)]
    P.lemma(name, dict(v='int'), requires=['%d <= v' % lo, 'v < %d' % hi],
            ensures=['R3(v) == "%s" + R3(v - %d)' % (sym, d)],
            body='\n'.join('assert ' + x.replace('%%', '%') for x in steps))


_lemma('L900', 900, 1000, 900, 'CM')
_lemma('L500', 500, 900, 500, 'D')
_lemma('L400', 400, 500, 400, 'CD')
_lemma('L100', 100, 400, 100, 'C')
_lemma('L90', 90, 100, 90, 'XC')
_lemma('L50', 50, 90, 50, 'L')
_lemma('L40', 40, 50, 40, 'XL')
_lemma('L10', 10, 40, 10, 'X')
_lemma('L9', 9, 10, 9, 'IX')
_lemma('L5', 5, 9, 5, 'V')
_lemma('L4', 4, 5, 4, 'IV')
_lemma('L1', 1, 4, 1, 'I')
P.lemma('L0', dict(v='int'), requires=['v == 0'], ensures=['R3(v) == ""'])

INV = "roman + R3(number) == rep('M', x // 1000) + R3(x % 1000)"
LEM = ' and '.join('L%s(number)' % k for k in (900, 500, 400, 100, 90, 50, 40, 10, 9, 5, 4, 1, 0))
P.fn('plasTeX/__init__.py::numToRoman',
     params=dict(x='int'), returns='str',
     requires=['x >= 0'],
     ensures=['L0(0)', 'result == ROMAN(x)'],
     loops={
         0: Loop(inv=['0 <= number', 'number < 900', 'L900(x % 1000)', LEM, INV], decreases='number'),
         1: Loop(inv=['0 <= number', 'number < 400', LEM, INV], decreases='number'),
         2: Loop(inv=['0 <= number', 'number < 90', LEM, INV], decreases='number'),
         3: Loop(inv=['0 <= number', 'number < 40', LEM, INV], decreases='number'),
         4: Loop(inv=['0 <= number', 'number < 9', LEM, INV], decreases='number'),
         5: Loop(inv=['0 <= number', 'number < 4', LEM, INV], decreases='number'),
     })
