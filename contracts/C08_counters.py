"""C08 -- counters and automatic numbers."""
from pyvc.dsl import Prop, Loop, Mod

P = Prop('C08', 'Counters and automatic numbers follow LaTeX\'s numbering rules')


# ---- positional roman numerals (spec from the property statement: "the standard ones"), A.7
@P.spec
def HUN(k: 'int') -> 'str':
    return "" if k == 0 else "C" if k == 1 else "CC" if k == 2 else "CCC" if k == 3 else "CD" if k == 4 \
        else "D" if k == 5 else "DC" if k == 6 else "DCC" if k == 7 else "DCCC" if k == 8 else "CM"


@P.spec
def TEN(k: 'int') -> 'str':
    return "" if k == 0 else "X" if k == 1 else "XX" if k == 2 else "XXX" if k == 3 else "XL" if k == 4 \
        else "L" if k == 5 else "LX" if k == 6 else "LXX" if k == 7 else "LXXX" if k == 8 else "XC"


@P.spec
def ONE(k: 'int') -> 'str':
    return "" if k == 0 else "I" if k == 1 else "II" if k == 2 else "III" if k == 3 else "IV" if k == 4 \
        else "V" if k == 5 else "VI" if k == 6 else "VII" if k == 7 else "VIII" if k == 8 else "IX"


@P.spec
def R3(v: 'int') -> 'str':
    return HUN(v // 100) + TEN((v // 10) % 10) + ONE(v % 10)


@P.spec
def ROMAN(x: 'int') -> 'str':
    return rep("M", x // 1000) + R3(x % 1000)


def _lemma(name, lo, hi, d, sym):
    """R3(v) == sym + R3(v - d) for lo <= v < hi; proof steps are digit facts the solver checks one by one."""
    if d >= 100:
        steps = ['(v - %d) // 100 == v // 100 - %d' % (d, d // 100), '((v - %d) // 10) %% 10 == (v // 10) %% 10' % d,
                 '(v - %d) %% 10 == v %% 10' % d, 'HUN(v // 100) == "%s" + HUN(v // 100 - %d)' % (sym, d // 100)]
    elif d >= 10:
        steps = ['v // 100 == 0', '(v - %d) // 100 == 0' % d, '((v - %d) // 10) %% 10 == (v // 10) %% 10 - %d' % (d, d // 10),
                 '(v - %d) %% 10 == v %% 10' % d, 'TEN((v // 10) %% 10) == "%s" + TEN((v // 10) %% 10 - %d)' % (sym, d // 10)]
    else:
        steps = ['v // 100 == 0', '(v - %d) // 100 == 0' % d, '(v // 10) %% 10 == 0', '((v - %d) // 10) %% 10 == 0' % d,
                 '(v - %d) %% 10 == v %% 10 - %d' % (d, d), 'ONE(v %% 10) == "%s" + ONE(v %% 10 - %d)' % (sym, d)]
    P.lemma(name, dict(v='int'), requires=['%d <= v' % lo, 'v < %d' % hi],
            ensures=['R3(v) == "%s" + R3(v - %d)' % (sym, d)],
            body='\n'.join('assert ' + x.replace('%%', '%') for x in steps))


_lemma('L900', 900, 1000, 900, 'CM')
_lemma('L500', 500, 900, 500, 'D')
_lemma('L400', 400, 500, 400, 'CD')
_lemma('L100', 100, 400, 100, 'C')
_lemma('L90', 90, 100, 90, 'XC')
_lemma('L50', 50, 90, 50, 'L')
_lemma('L40', 40, 50, 40, 'XL')
_lemma('L10', 10, 40, 10, 'X')
_lemma('L9', 9, 10, 9, 'IX')
_lemma('L5', 5, 9, 5, 'V')
_lemma('L4', 4, 5, 4, 'IV')
_lemma('L1', 1, 4, 1, 'I')
P.lemma('L0', dict(v='int'), requires=['v == 0'], ensures=['R3(v) == ""'])

INV = "roman + R3(number) == rep('M', x // 1000) + R3(x % 1000)"
LEM = ' and '.join('L%s(number)' % k for k in (900, 500, 400, 100, 90, 50, 40, 10, 9, 5, 4, 1, 0))
P.fn('plasTeX/__init__.py::numToRoman',
     params=dict(x='int'), returns='str',
     requires=['x >= 0'],
     ensures=['L0(0)', 'result == ROMAN(x)'],
     loops={
         0: Loop(inv=['0 <= number', 'number < 900', 'L900(x % 1000)', LEM, INV], decreases='number'),
         1: Loop(inv=['0 <= number', 'number < 400', LEM, INV], decreases='number'),
         2: Loop(inv=['0 <= number', 'number < 90', LEM, INV], decreases='number'),
         3: Loop(inv=['0 <= number', 'number < 40', LEM, INV], decreases='number'),
         4: Loop(inv=['0 <= number', 'number < 9', LEM, INV], decreases='number'),
         5: Loop(inv=['0 <= number', 'number < 4', LEM, INV], decreases='number'),
     })

# ------------------------------------------------------------------ Counter objects
P.cls('Counter', fields=dict(name='str', resetby='str?', value='int', counters='dict[str,Counter]'),
      props={'arabic': 'Counter.arabic', 'Roman': 'Counter.Roman', 'roman': 'Counter.roman',
             'Alph': 'Counter.Alph', 'alph': 'Counter.alph', 'fnsymbol': 'Counter.fnsymbol'})
P.const('encoding.stringletters()', 'abcdefghijklmnopqrstuvwxyzABCDEFGHIJKLMNOPQRSTUVWXYZ')
P.uninterp('RANKN', ['str'], 'int')   # ghost: rank of a counter name in the (acyclic) within-relation
P.uninterp('MAXR', [], 'int')


@P.spec(heap=True, fuel=1)
def WITHIN(c: 'Counter', top: 'str', cs: 'dict[str,Counter]') -> 'bool':
    """Stepping the counter named `top` resets c: c's reset-by chain reaches `top` (LaTeX: declared within, transitively)."""
    if not c.resetby:
        return False
    if c.resetby == top:
        return True
    if c.resetby not in cs:
        return False
    return WITHIN(cs[unopt(c.resetby)], top, cs)


@P.spec(heap=True, fuel=1)
def DANC(c: 'Counter', top: 'str', cs: 'dict[str,Counter]') -> 'Counter':
    """The ancestor of c (or c itself) that is directly within `top`."""
    if c.resetby == top:
        return c
    return DANC(cs[unopt(c.resetby)], top, cs)


# well-formed counter table: keyed by name, all counters share the table, within-relation acyclic (ranked)
WF = ['all(implies(k in cs, cs[k].name == k and cs[k].counters is cs) for k in Strs())',
      'all(implies(k in cs and cs[k].resetby, RANKN(unopt(cs[k].resetby)) > RANKN(k)) for k in Strs())',
      'all(0 <= RANKN(k) and RANKN(k) <= MAXR() for k in Strs())']
WFS = [w.replace('cs', 'self.counters') for w in WF]

RESET_POST = ('all(implies(k in self.counters, self.counters[k].value == '
              '(0 if (self.name != "" and WITHIN(self.counters[k], self.name, self.counters)) else old(self.counters[k].value)))'
              ' for k in Strs())')
MODV = [Mod('value', 'any(k in self.counters and r is self.counters[k] for k in Strs())')]

INDICT = 'c.name in cs and cs[c.name] is c'
P.lemma('UP', dict(c='Counter', dname='str', top='str', cs='dict[str,Counter]'),
        requires=WF + [INDICT, 'top != ""', 'dname in cs', 'cs[dname].resetby == top', 'WITHIN(c, dname, cs)'],
        ensures=['WITHIN(c, top, cs)'],
        decreases='MAXR() - RANKN(c.name)',
        body="""
assert WITHIN(cs[dname], top, cs)
if c.resetby == dname:
    pass
else:
    p = cs[c.resetby]
    UP(p, dname, top, cs)
""")
P.lemma('DOWN', dict(c='Counter', top='str', cs='dict[str,Counter]'),
        requires=WF + [INDICT, 'WITHIN(c, top, cs)'],
        ensures=['DANC(c, top, cs).name in cs', 'cs[DANC(c, top, cs).name] is DANC(c, top, cs)',
                 'DANC(c, top, cs).resetby == top',
                 'c is DANC(c, top, cs) or WITHIN(c, DANC(c, top, cs).name, cs)'],
        decreases='MAXR() - RANKN(c.name)',
        body="""
if c.resetby == top:
    pass
else:
    p = cs[c.resetby]
    DOWN(p, top, cs)
    d = DANC(p, top, cs)
    assert DANC(c, top, cs) is d
    if p is d:
        assert WITHIN(c, d.name, cs)
    else:
        assert WITHIN(p, d.name, cs)
        assert WITHIN(c, d.name, cs)
""")

P.lemma('NOEMPTY', dict(c='Counter', cs='dict[str,Counter]'),
        requires=WF + [INDICT], ensures=['not WITHIN(c, "", cs)'],
        decreases='MAXR() - RANKN(c.name)',
        body="""
if not c.resetby:
    pass
elif c.resetby not in cs:
    pass
else:
    NOEMPTY(cs[c.resetby], cs)
""")

DIRECT = '(bool(%s.resetby) and self.name != "" and %s.resetby == self.name)'
P.fn('plasTeX/__init__.py::Counter.resetcounters', name='Counter.resetcounters',
     params=dict(self='Counter'), returns='none',
     requires=WFS, ensures=[RESET_POST], modifies=MODV, allocates=True, decreases='RANKN(self.name)',
     loops={0: Loop(index='i', seq='vs', inv=[
         'all(vs[j].name in self.counters and self.counters[vs[j].name] is vs[j] for j in range(len(vs)))',
         'all(implies(k in self.counters, any(vs[j] is self.counters[k] for j in range(len(vs)))) for k in Strs())',
         'all(implies(k in self.counters, self.counters[k].value == 0 or self.counters[k].value == old(self.counters[k].value)) for k in Strs())',
         'all(implies(k in self.counters and not (self.name != "" and WITHIN(self.counters[k], self.name, self.counters)),'
         ' self.counters[k].value == old(self.counters[k].value)) for k in Strs())',
         'all(implies(' + DIRECT % ('vs[j]', 'vs[j]') + ', vs[j].value == 0) for j in range(i))',
         'all(implies(' + DIRECT % ('vs[j]', 'vs[j]') + ' and k in self.counters and WITHIN(self.counters[k], vs[j].name, self.counters), '
         'self.counters[k].value == 0) for j in range(i) for k in Strs())',
     ], at_end=['all(implies(k in self.counters, UP(self.counters[k], counter.name, self.name, self.counters)) for k in Strs())',
              'all(implies(k in self.counters, NOEMPTY(self.counters[k], self.counters)) for k in Strs())'])},
     at_exit=['all(implies(k in self.counters, DOWN(self.counters[k], self.name, self.counters)) for k in Strs())'])
# LaTeX: \\stepcounter (and \\refstepcounter) reset the counters declared within the stepped one; \\setcounter and \\addtocounter are
# plain assignments (latex.ltx: \\global\\c@x=..., \\global\\advance) and reset nothing
for nm, delta in (('stepcounter', 'old(self.value) + 1'), ('setcounter', 'other'), ('addtocounter', 'old(self.value) + other')):
    P.fn('plasTeX/__init__.py::Counter.%s' % nm, name='Counter.%s' % nm,
         params=dict(self='Counter', other='int') if nm != 'stepcounter' else dict(self='Counter'), returns='none',
         requires=WFS + ['not WITHIN(self, self.name, self.counters)'],
         ensures=['self.value == ' + delta,
                  ('all(implies(k in self.counters and self.counters[k] is not self, self.counters[k].value == '
                   '(0 if (self.name != "" and WITHIN(self.counters[k], self.name, self.counters)) else old(self.counters[k].value)))'
                   ' for k in Strs())') if nm == 'stepcounter' else
                  'all(implies(k in self.counters and self.counters[k] is not self, self.counters[k].value == old(self.counters[k].value)) for k in Strs())'],
         modifies=MODV + [Mod('value', 'r is self')], allocates=True)

P.fn('plasTeX/__init__.py::Counter.arabic', name='Counter.arabic', params=dict(self='Counter'), returns='str',
     ensures=['result == int_to_str(self.value)'], kind='property')
P.fn('plasTeX/__init__.py::Counter.Roman', name='Counter.Roman', params=dict(self='Counter'), returns='str',
     requires=['self.value >= 0'], ensures=['result == ROMAN(self.value)'], kind='property',
     calls={'numToRoman': 'numToRoman'})
P.fn('plasTeX/__init__.py::Counter.roman', name='Counter.roman', params=dict(self='Counter'), returns='str',
     requires=['self.value >= 0'], ensures=['result == str_lower(ROMAN(self.value))'], kind='property')
P.fn('plasTeX/__init__.py::Counter.Alph', name='Counter.Alph', params=dict(self='Counter'), returns='str',
     requires=['1 <= self.value', 'self.value <= 26'], ensures=['result == chr(64 + self.value)'], kind='property')
P.fn('plasTeX/__init__.py::Counter.alph', name='Counter.alph', params=dict(self='Counter'), returns='str',
     requires=['1 <= self.value', 'self.value <= 26'], ensures=['result == chr(96 + self.value)'], kind='property')
P.fn('plasTeX/__init__.py::Counter.fnsymbol', name='Counter.fnsymbol', params=dict(self='Counter'), returns='str',
     ensures=['result == rep("*", self.value)'], kind='property')

# ------------------------------------------------------------------ list environments: item counters per nesting depth
P.cls('ListClass', fields=dict(depth='int', counters='list[str]'))
P.global_obj('List', 'ListClass')
P.cls('ListEnv', fields=dict(macroMode='int', ownerDocument='Document'))
P.cls('Document', fields=dict(context='Context'))
P.cls('Context', fields=dict(counters='dict[str,Counter]'))
P.cls('TeX')
P.cls('Any')
P.const('Environment.MODE_END', 2)
P.fn('Environment.invoke', params=dict(self='ListEnv', tex='TeX'), returns='Any?', allocates=True, trusted=True,
     notes='base-class invoke (context push/pop, argument parsing): assumed not to write counter values or List.depth')

CS = 'self.ownerDocument.context.counters'
WFL = [w.replace('cs', CS) for w in WF]
NAMES = ['len(List.counters) == 4', 'List.counters is not None'][:1] + \
        ['all(List.counters[i] in %s and %s[List.counters[i]].name != "" and not WITHIN(%s[List.counters[i]], List.counters[i], %s) for i in range(4))' % (CS, CS, CS, CS)]
P.fn('plasTeX/Base/LaTeX/Lists.py::List.invoke', name='List.invoke',
     params=dict(self='ListEnv', tex='TeX'), returns='Any?',
     requires=WFL + NAMES + ['0 <= List.depth', 'implies(self.macroMode == 2, List.depth >= 1)'],
     ensures=['List.depth == old(List.depth) + (1 if self.macroMode != 2 else -1)',
              # entering or leaving a list zeroes the item counters of the new depth and deeper
              'all(%s[List.counters[i]].value == 0 for i in range(List.depth, 4))' % CS],
     allocates=True, skip_frame=True,
     modifies=[Mod('depth', 'r is List'), Mod('value', 'any(k in %s and r is %s[k] for k in Strs())' % (CS, CS))],
     calls={'Environment.invoke': 'Environment.invoke'},
     loops={0: Loop(index='i', inv=['List.depth == old(List.depth) + (1 if self.macroMode != 2 else -1)',
                                    'all(%s[List.counters[j]].value == 0 for j in range(List.depth, i))' % CS],
                    modifies=[Mod('value', 'any(k in %s and r is %s[k] for k in Strs())' % (CS, CS))])})
