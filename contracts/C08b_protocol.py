"""C08 (second sidecar module) -- the counter protocol of Macro.parse: every numbered object advances its counter exactly once per
invocation (before its first real argument is read, so that labels inside the arguments attach to it), a starred invocation advances
nothing, and the number is printed (self.ref) only down to the configured numbering depth.

`adv` counts the counter advances made by this invocation itself (Counter.stepcounter on an existing counter, or creation at 1 of a missing
one); what the macros inside the arguments do while they are read is their own invocation."""
from pyvc.dsl import Prop, Loop, Mod

P = Prop('C08', "Counters and automatic numbers follow LaTeX's numbering rules")
FI = 'plasTeX/__init__.py::'
P.cls('Val', elem='Val')                                   # an argument value: falsy when None or empty
P.cls('Arg', fields=dict(index='int', name='str', options='opaque'))
P.cls('Counter')
P.cls('Context', fields=dict(counters='dict[str,Counter]', currentlabel='Macro?'))
P.cls('Frag', fields=dict(of='str'))
P.cls('Elem', fields=dict(name='str'))
P.cls('Doc', fields=dict(context='Context'))
P.cls('TeX')
P.cls('Macro', fields=dict(counter='str?', ownerDocument='Doc', args='str', macroMode='int', attributes='dict[str,Val?]', argSource='str',
                           config='dict[str,dict[str,int]]', level='int', ref='Frag?', captionName='Frag?'),
      props={'arguments': 'Macro.arguments'})
P.const('Macro.MODE_END', 2)
P.const('self.ENDSECTIONS_LEVEL', 100)
P.ghost('adv', 'int')
P.ghost('which', 'str')
P.fn('Counter.stepcounter', params=dict(self='Counter'), returns='none', trusted=True, modifies=[],
     ghost_sets={'adv': 'ghost("adv") + 1'}, notes='Counter.stepcounter (C08 counter operations): +1 and reset of the dependent counters')
P.fn('Context.newcounter', params=dict(self='Context', name='str', initial='int=0'), returns='none', trusted=True, allocates=True,
     requires=['initial == 1'], ghost_sets={'adv': 'ghost("adv") + 1'}, modifies=[Mod('dict:str,Counter', 'r is self.counters')],
     notes='Context.newcounter(name, initial=1): a missing counter is created with the value the step would have given')
P.fn('log.warning', params=dict(a='opaque=0', b='opaque=0'), returns='none', trusted=True, modifies=[])
P.fn('log.error', params=dict(a='opaque=0'), returns='none', trusted=True, modifies=[])
NUM = '(not isnone(self.counter) and self.counter != "")'
OLDNUM = 'old(not isnone(self.counter) and self.counter != "")'
CTX = 'self.ownerDocument.context'
KEEP = ['self.counter == old(self.counter)', 'isnone(self.counter) == old(isnone(self.counter))']
STEP_MOD = [Mod('dict:str,Counter', 'r is %s.counters' % CTX)]
P.fn(FI + 'Macro.stepcounter', name='Macro.stepcounter', params=dict(self='Macro', tex='TeX'), returns='none',
     ensures=KEEP + ['ghost("adv") == old(ghost("adv")) + (1 if %s else 0)' % NUM, '%s.currentlabel is old(%s.currentlabel)' % (CTX, CTX)],
     modifies=STEP_MOD, allocates=True,
     calls={'self.ownerDocument.context.counters[self.counter].stepcounter': 'Counter.stepcounter', 'self.ownerDocument.context.newcounter': 'Context.newcounter',
            'log.warning': 'log.warning'})
REF_ENS = KEEP + ['ghost("adv") == old(ghost("adv")) + (1 if %s else 0)' % NUM,
                  # the object becomes the one a following \\label names -- also for a starred (counter == "") invocation
                  'implies(not isnone(self.counter), %s.currentlabel is self)' % CTX,
                  'implies(isnone(self.counter), %s.currentlabel is old(%s.currentlabel))' % (CTX, CTX)]
REF_MOD = STEP_MOD + [Mod('currentlabel', 'r is %s' % CTX)]
P.fn(FI + 'Macro.refstepcounter', name='Macro.refstepcounter', params=dict(self='Macro', tex='TeX'), returns='none',
     ensures=REF_ENS, modifies=REF_MOD, allocates=True, calls={'self.stepcounter': 'Macro.stepcounter'})
NOTHING = KEEP + ['ghost("adv") == old(ghost("adv"))', '%s.currentlabel is old(%s.currentlabel)' % (CTX, CTX)]


def when(cond, ens):
    return ['implies(%s, %s)' % (cond, e) for e in ens]


P.fn(FI + 'Macro.preParse', name='Macro.preParse', params=dict(self='Macro', tex='TeX'), returns='none',
     ensures=when('self.args == ""', REF_ENS) + when('self.args != ""', NOTHING), modifies=REF_MOD, allocates=True,
     calls={'self.refstepcounter': 'Macro.refstepcounter'})
FIRST = '(arg.index == 0 and arg.name != "*modifier*")'
P.fn(FI + 'Macro.preArgument', name='Macro.preArgument', params=dict(self='Macro', arg='Arg', tex='TeX'), returns='none',
     ensures=when(FIRST, REF_ENS) + when('not %s' % FIRST, NOTHING), modifies=REF_MOD, allocates=True,
     calls={'self.refstepcounter': 'Macro.refstepcounter'})
STAR = '(arg.index == 0 and arg.name == "*modifier*")'
STARRED = '(not isnone(value) and len(value) > 0)'
P.fn(FI + 'Macro.postArgument', name='Macro.postArgument', params=dict(self='Macro', arg='Arg', value='Val?', tex='TeX'), returns='none',
     ensures=when('not %s' % STAR, NOTHING) +
     # the star clears the counter of this instance BEFORE the step: nothing advances, but the object is still the current label
     when('%s and %s' % (STAR, STARRED), ['self.counter == ""', 'ghost("adv") == old(ghost("adv"))', '%s.currentlabel is self' % CTX]) +
     when('%s and not %s' % (STAR, STARRED), REF_ENS),
     modifies=REF_MOD + [Mod('counter', 'r is self')], allocates=True, calls={'self.refstepcounter': 'Macro.refstepcounter'})

# ---------------------------------------------------------------------------------------------- Macro.parse
P.uninterp('ARGS', ['Macro'], 'seq[Arg]')
P.uninterp('VALUE', ['Macro', 'int'], 'Val?')
P.fn('Macro.arguments', params=dict(self='Macro'), returns='list[Arg]', kind='property', trusted=True, allocates=True, modifies=[],
     ensures=['len(result) == len(ARGS(self))', 'all(result[i] is ARGS(self)[i] and not isnone(result[i]) for i in range(len(result)))'],
     notes='Macro.arguments: the compiled argument descriptions (cached per class); descriptor i has index i')
P.fn('TeX.readArgumentAndSource', params=dict(self='TeX', parentNode='Macro', name='str'), returns='tuple[Val?,str]', trusted=True, allocates=True,
     modifies=[Mod('currentlabel', 'True')],
     notes='reading one argument: macros inside it run their own invocations (they may become the current label); this invocation\'s counter '
           'field and its own advance count are not touched')
HASSTAR = '(len(ARGS(self)) > 0 and ARGS(self)[0].name == "*modifier*")'
P.fn(FI + 'Macro.parse', name='Macro.parse', params=dict(self='Macro', tex='TeX'), returns='opaque',
     requires=['all(not isnone(ARGS(self)[i]) and ARGS(self)[i].index == i for i in range(len(ARGS(self))))',
               '(self.args == "") == (len(ARGS(self)) == 0)', 'self.attributes is not %s.counters' % CTX],
     ensures=[
         # the closing half of an environment parses nothing and advances nothing
         'implies(self.macroMode == 2, ghost("adv") == old(ghost("adv")) and self.counter == old(self.counter))',
         # otherwise exactly one advance iff the object (still) has a counter; the counter field changes only by a star (-> "")
         'implies(self.macroMode != 2, ghost("adv") == old(ghost("adv")) + (1 if %s else 0))' % NUM,
         'implies(self.macroMode != 2 and not %s, self.counter == old(self.counter) and isnone(self.counter) == old(isnone(self.counter)))' % HASSTAR,
         'implies(self.macroMode != 2, self.counter == old(self.counter) or self.counter == "")'],
     raises={'Exception': 'True'},
     allocates=True, skip_frame=True,
     calls={'self.preParse': 'Macro.preParse', 'self.postParse': 'Macro.postParse/c', 'self.preArgument': 'Macro.preArgument',
            'self.postArgument': 'Macro.postArgument', 'tex.readArgumentAndSource': 'TeX.readArgumentAndSource', 'log.error': 'log.error'},
     loops={0: Loop(index='i', inv=['i <= len(ARGS(self))', 'len(ARGS(self)) > 0', 'arg is (ARGS(self)[i - 1] if i > 0 else None)',
                                    'self.counter == old(self.counter) or (self.counter == "" and i >= 1 and %s)' % HASSTAR,
                                    'implies(not %s, isnone(self.counter) == old(isnone(self.counter)))' % HASSTAR,
                                    'ghost("adv") == old(ghost("adv")) + (1 if (i >= 1 and %s) else 0)' % NUM,
                                    'self.attributes is not %s.counters' % CTX],
                    modifies=REF_MOD + [Mod('counter', 'r is self'), Mod('argSource', 'r is self'), Mod('dict:str,Val?', 'r is self.attributes'), Mod('currentlabel', 'True')])})
P.fn('Macro.postParse/c', params=dict(self='Macro', tex='TeX'), returns='none', trusted=True, allocates=True,
     modifies=[Mod('ref', 'r is self'), Mod('captionName', 'r is self')], notes='proved below (Macro.postParse)')

# ---------------------------------------------------------------------------------------------- Macro.postParse: is the number printed
P.fn('Doc.createElement', params=dict(self='Doc', name='str'), returns='Elem', trusted=True, allocates=True, modifies=[],
     ensures=['fresh(result)', 'result.name == name'])
P.fn('Elem.expand', params=dict(self='Elem', tex='TeX'), returns='Frag', trusted=True, allocates=True, modifies=[],
     ensures=['fresh(result)', 'result.of == self.name'], notes='expansion of \\\\the<counter> / \\\\<counter>name in the current context')
DEPTH = '(self.config["document"]["sec-num-depth"] if ("document" in self.config and "sec-num-depth" in self.config["document"]) else 10)'
PRINTS = '(%s and (%s >= self.level or self.level > 100))' % (NUM, DEPTH)
P.fn(FI + 'Macro.postParse', name='Macro.postParse', params=dict(self='Macro', tex='TeX'), returns='none',
     requires=['all(implies(k in self.config, not isnone(self.config[k])) for k in Strs())'],
     ensures=[
         # a number is attached iff the object has a counter and is not deeper than the numbering depth (10 when not configured);
         # non-sectioning objects (level above ENDSECTIONS_LEVEL) are always numbered
         'implies(%s, not isnone(self.ref) and fresh(self.ref) and self.ref.of == "the" + self.counter '
         'and not isnone(self.captionName) and self.captionName.of == self.counter + "name")' % PRINTS,
         'implies(not %s, self.ref is old(self.ref) and self.captionName is old(self.captionName))' % PRINTS,
         'self.counter == old(self.counter)'],
     modifies=[Mod('ref', 'r is self'), Mod('captionName', 'r is self')], allocates=True,
     calls={'self.ownerDocument.createElement': 'Doc.createElement'})
P.assume('a macro inside an argument runs its own invocation: it does not write THIS object\'s counter attribute, and its counter advances are not counted in adv')
P.unverified_surrounding('which objects have a counter and at what level (class attributes of the LaTeX packages), \\\\nonumber, eqnarray rows, theorem declarations: '
                         'bounded native documents (bounded/numbering)')
