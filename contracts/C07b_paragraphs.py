"""C07 (second sidecar module) -- Macro.paragraphs, first phase (the `while self` loop that regroups the children):
conservation and shape of the grouping, stated chain-style over a ghost labelling IPOS of the original children by their index.

A child list is modelled as a list (Node.pop / append / appendChild / insert are the list operations; their parent-link bookkeeping is C06)."""
from pyvc.dsl import Prop, Loop, Mod

P = Prop('C07', 'Parsing loses, duplicates or reorders no text and yields a well-formed tree')
FI = 'plasTeX/__init__.py::'
P.cls('PDoc', fields=dict(charsubs='opaque'))
P.cls('PNode', elem='PNode', fields=dict(level='int', blockType='bool', nodeName='str', isElementContentWhitespace='bool', parentNode='PNode?', ownerDocument='PDoc'))
P.const('Node.PAR_LEVEL', 10)
P.uninterp('IPOS', ['PNode'], 'int')
P.uninterp('ORIG', [], 'seq[PNode]')       # the children at entry
P.fn('PDoc.createElement', params=dict(self='PDoc', name='str'), returns='PNode', trusted=True, allocates=True, modifies=[],
     ensures=['fresh(result)', 'len(result) == 0', 'result.level == 10', 'not result.blockType'],
     notes='createElement(parname): a new, empty paragraph node (PAR_LEVEL)')
P.fn('PNode.appendChild', params=dict(self='PNode', node='PNode'), returns='none', trusted=True,
     ensures=['len(self) == old(len(self)) + 1', 'self[len(self) - 1] is node', 'all(self[i] is old(seq(self))[i] for i in range(len(self) - 1))'],
     modifies=[Mod('list:PNode', 'r is self'), Mod('parentNode', 'r is node')], notes='Node.appendChild (C06)')
NO, NN = 'len(ORIG())', 'len(newnodes)'
K = '(%s - len(self))' % NO          # number of children already taken from the front
def occ(g):
    """newnodes[g] holds something of the original content: it is an original child itself, or a new paragraph with children"""
    return '(not fresh(newnodes[%s]) or len(newnodes[%s]) > 0)' % (g, g)
def first(g):
    return '(IPOS(newnodes[%s]) if not fresh(newnodes[%s]) else IPOS(newnodes[%s][0]))' % (g, g, g)
def last(g):
    # (a node of higher precedence that ends the grouping is held as it is: its own children are not original children of self)
    return '(IPOS(newnodes[%s][len(newnodes[%s]) - 1]) if (len(newnodes[%s]) > 0 and newnodes[%s].level == 10) else IPOS(newnodes[%s]))' % (g, g, g, g, g)
ORIGREQ = ['len(self) == %s' % NO, 'all(not isnone(ORIG()[i]) and self[i] is ORIG()[i] and IPOS(ORIG()[i]) == i and ORIG()[i] is not self for i in range(%s))' % NO,
           # the paragraph breaks among the children are bare \\par tokens
           'all(implies(ORIG()[i].level == 10, len(ORIG()[i]) == 0) for i in range(%s))' % NO]
SHAPE = ['%s >= 1' % NN, 'fresh(newnodes)', 'newnodes is not self',
         'all(not isnone(newnodes[g]) and newnodes[g] is not newnodes and newnodes[g] is not self for g in range(%s))' % NN,
         'all(newnodes[a] is not newnodes[b] for a in range(%s) for b in range(a + 1, %s))' % (NN, NN),
         # an element of newnodes is a new paragraph or one of the original children taken so far that is not an ordinary child
         'all(implies(not fresh(newnodes[g]), 0 <= IPOS(newnodes[g]) and IPOS(newnodes[g]) < %s and ORIG()[IPOS(newnodes[g])] is newnodes[g] and newnodes[g].level <= 10) '
         'for g in range(%s))' % (K, NN),
         'all(implies(fresh(newnodes[g]), newnodes[g].level == 10) for g in range(%s))' % NN,
         # only the last element can be a node of higher precedence (it ends the grouping)
         'all(newnodes[g].level == 10 for g in range(%s - 1))' % NN]
def holds(g, p):
    """original position p is in newnodes[g]: it is that original child itself, or one of its (consecutive) children"""
    return ('((not fresh(newnodes[%s]) and IPOS(newnodes[%s]) == %s) or (newnodes[%s].level == 10 and len(newnodes[%s]) > 0 and IPOS(newnodes[%s][0]) <= %s and %s <= IPOS(newnodes[%s][len(newnodes[%s]) - 1])))'
            % (g, g, p, g, g, g, p, p, g, g))


CONTENT = [
    # the children of every paragraph are ordinary original children (never a paragraph), consecutive in the original order
    'all(all(0 <= IPOS(newnodes[g][t]) and IPOS(newnodes[g][t]) < %s and ORIG()[IPOS(newnodes[g][t])] is newnodes[g][t] and newnodes[g][t].level > 10 '
    'for t in range(len(newnodes[g]))) for g in range(%s) if newnodes[g].level == 10)' % (K, NN),
    'all(all(IPOS(newnodes[g][t + 1]) == IPOS(newnodes[g][t]) + 1 for t in range(len(newnodes[g]) - 1)) for g in range(%s) if newnodes[g].level == 10)' % NN,
    # an original paragraph break precedes its own children
    'all(implies(not fresh(newnodes[g]) and len(newnodes[g]) > 0 and newnodes[g].level == 10, IPOS(newnodes[g][0]) == IPOS(newnodes[g]) + 1) for g in range(%s))' % NN,
    # order: what an earlier element holds comes before what a later element holds (no reordering, no duplication)
    'all(implies(%s and %s, %s < %s) for a in range(%s) for b in range(a + 1, %s))' % (occ('a'), occ('b'), last('a'), first('b'), NN, NN),
    # nothing lost: every original child taken so far is held by some element of newnodes
    'all(any(%s for g in range(%s)) for p in range(%s))' % (holds('g', 'p'), NN, K),
    'implies(%s > 0 and %s, %s == %s - 1)' % (K, occ('%s - 1' % NN), last('%s - 1' % NN), K),
    'implies(%s > 0 and not %s, %s >= 2 and %s and %s == %s - 1)' % (K, occ('%s - 1' % NN), NN, occ('%s - 2' % NN), last('%s - 2' % NN), K),
    'implies(%s == 0, all(not %s for a in range(%s)))' % (K, occ('a'), NN)]
REST = ['0 <= len(self)', 'len(self) <= %s' % NO, 'all(self[t] is ORIG()[%s + t] for t in range(len(self)))' % K]
P.fn(FI + 'Macro.paragraphs', name='Macro.paragraphs/regroup', params=dict(self='PNode', force='bool=True'), returns='none',
     start_after_loop=0, stop_after_loop=1, locals={'parname': 'str?', '[]': 'list[PNode]', 'newnodes': 'list[PNode]'},
     start_assume=ORIGREQ + ['not isnone(parname)'],
     end_ensures=SHAPE + CONTENT + REST + [
         # the loop stops when the children are used up or right after a node of higher precedence, which is then the last element
         'len(self) == 0 or newnodes[%s - 1].level < 10' % NN],
     allocates=True, skip_frame=True, heap_consts=True, solver_ms=120000,
     calls={'self.ownerDocument.createElement': 'PDoc.createElement', 'par.appendChild': 'PNode.appendChild'},
     loops={1: Loop(inv=SHAPE + CONTENT + REST + ['newnodes[%s - 1].level == 10' % NN, 'self is old(self)',
                                                 'all(implies(ORIG()[i].level == 10, len(ORIG()[i]) == 0) for i in range(%s, %s))' % (K, NO)],
                    at_end=['all(implies(head(%s), %s) for g in range(head(%s)) for p in range(head(%s)))' % (holds('g', 'p'), holds('g', 'p'), NN, K),
                            'head(%s) <= %s' % (NN, NN), 'head(%s) <= %s' % (K, K), '%s <= head(%s) + 1' % (K, K),
                            'all(any(head(%s) for g in range(head(%s))) for p in range(head(%s)))' % (holds('g', 'p'), NN, K),
                            'all(any(%s for g in range(head(%s))) for p in range(head(%s)))' % (holds('g', 'p'), NN, K),
                            'all(any(%s for g in range(%s)) for p in range(head(%s)))' % (holds('g', 'p'), NN, K),
                            '%s or (%s >= 2 and %s)' % (holds('%s - 1' % NN, '%s - 1' % K), NN, holds('%s - 2' % NN, '%s - 1' % K)), 'len(newnodes[%s - 1]) >= 0' % NN, 'implies(%s >= 2, len(newnodes[%s - 2]) >= 0)' % (NN, NN), 'implies(%s >= 3, len(newnodes[%s - 3]) >= 0)' % (NN, NN)],
                    modifies=[Mod('list:PNode', 'r is self or fresh(r) or any(r is ORIG()[i] and ORIG()[i].level == 10 for i in range(%s))' % NO),
                              Mod('parentNode', 'True'), Mod('blockType', 'fresh(r)')])})

# ---------------------------------------------------------------------------------------------- second phase: the regrouped nodes go back in front of the rest
P.uninterp('NEW', [], 'seq[PNode]')        # ghost: newnodes at the end of the first phase
P.uninterp('RESTSEQ', [], 'seq[PNode]')    # ghost: the children left in self at the end of the first phase
P.fn('PNode.normalize', params=dict(self='PNode', charsubs='opaque=0'), returns='none', trusted=True, allocates=True,
     modifies=[Mod('list:PNode', 'any(r is NEW()[g] and NEW()[g].level == 10 for g in range(len(NEW())))')],
     ensures=['self.level == old(self.level)'],
     notes='normalisation merges / rewrites text nodes inside a paragraph element; it does not touch the child list of self')
P.fn('PNode.insert', params=dict(self='PNode', i='int', node='PNode'), returns='none', trusted=True,
     requires=['0 <= i', 'i <= len(self)'],
     ensures=['len(self) == old(len(self)) + 1', 'self[i] is node', 'all(self[t] is old(seq(self))[t] for t in range(i))',
              'all(self[t + 1] is old(seq(self))[t] for t in range(i, old(len(self))))'],
     modifies=[Mod('list:PNode', 'r is self'), Mod('parentNode', 'r is node')], notes='Node.insert (C06) for a plain node at an index in range')
P.fn(FI + 'Macro.paragraphs', name='Macro.paragraphs/reinsert', params=dict(self='PNode', force='bool=True'), returns='none',
     start_after_loop=1, stop_after_loop=2, locals={'newnodes': 'list[PNode]', '[]': 'list[PNode]'},
     start_assume=['len(newnodes) == len(NEW())', 'all(not isnone(NEW()[g]) and newnodes[g] is NEW()[g] for g in range(len(NEW())))',
                   'len(self) == len(RESTSEQ())', 'all(self[t] is RESTSEQ()[t] for t in range(len(RESTSEQ())))', 'newnodes is not self',
                   'all(NEW()[g] is not self and NEW()[g] is not newnodes for g in range(len(NEW())))'],
     # afterwards the children are the regrouped nodes followed by the untouched rest, in order
     end_ensures=['len(self) == len(NEW()) + len(RESTSEQ())', 'all(self[g] is NEW()[g] for g in range(len(NEW())))',
                  'all(self[len(NEW()) + t] is RESTSEQ()[t] for t in range(len(RESTSEQ())))'],
     allocates=True, skip_frame=True, heap_consts=True,
     calls={'item.normalize': 'PNode.normalize', 'self.insert': 'PNode.insert'},
     loops={2: Loop(index='i', seq='nn', inv=['i <= len(NEW())', 'len(nn) == len(NEW())', 'all(nn[g] is NEW()[g] for g in range(len(NEW())))',
                                             'len(self) == i + len(RESTSEQ())', 'all(self[g] is NEW()[g] for g in range(i))',
                                             'all(self[i + t] is RESTSEQ()[t] for t in range(len(RESTSEQ())))', 'self is old(self)'],
                    modifies=[Mod('list:PNode', 'r is self or any(r is NEW()[g] and NEW()[g].level == 10 for g in range(len(NEW())))'), Mod('parentNode', 'True')])})

# ---------------------------------------------------------------------------------------------- third phase: only empty / whitespace-only paragraphs are dropped
P.uninterp('PRE', [], 'seq[PNode]')        # ghost: the children at the start of this phase
P.uninterp('Q', ['PNode'], 'int')          # ghost labelling of those children by their index
DROP = '(%s.level == 10 and (len(%s) == 0 or (len(%s) == 1 and %s[0].isElementContentWhitespace)))'
def drop(x):
    return DROP % (x, x, x, x)
NP = 'len(PRE())'
P.fn('PNode.pop', params=dict(self='PNode', i='int'), returns='PNode', trusted=True, requires=['0 <= i', 'i < len(self)'],
     ensures=['len(self) == old(len(self)) - 1', 'result is old(seq(self))[i]', 'all(self[t] is old(seq(self))[t] for t in range(i))',
              'all(self[t] is old(seq(self))[t + 1] for t in range(i, len(self)))'],
     modifies=[Mod('list:PNode', 'r is self'), Mod('parentNode', 'True')], notes='Node.pop (C06)')
P.fn(FI + 'Macro.paragraphs', name='Macro.paragraphs/dropempty', params=dict(self='PNode', force='bool=True'), returns='none',
     start_after_loop=2, locals={'[]': 'list[PNode]'},
     start_assume=['len(self) == %s' % NP, 'all(not isnone(PRE()[t]) and self[t] is PRE()[t] and Q(PRE()[t]) == t and PRE()[t] is not self for t in range(%s))' % NP,
                   'all(all(not isnone(PRE()[t][u]) for u in range(len(PRE()[t]))) for t in range(%s))' % NP],
     ensures=[
         # what is left is a sub-sequence of the children in their order ...
         'all(0 <= Q(self[t]) and Q(self[t]) < %s and PRE()[Q(self[t])] is self[t] for t in range(len(self)))' % NP,
         'all(Q(self[t]) < Q(self[t + 1]) for t in range(len(self) - 1))',
         # ... from which exactly the empty and the whitespace-only paragraphs have been dropped
         'all(not %s for t in range(len(self)))' % drop('self[t]'),
         # (every child that is missing - before the first survivor, between two consecutive survivors, after the last one - is droppable)
         'all(all(%s for p in range(Q(self[t]) + 1, Q(self[t + 1]))) for t in range(len(self) - 1))' % drop('PRE()[p]'),
         'implies(len(self) > 0, all(%s for p in range(0, Q(self[0]))) and all(%s for p in range(Q(self[len(self) - 1]) + 1, %s)))' % (drop('PRE()[p]'), drop('PRE()[p]'), NP),
         'implies(len(self) == 0, all(%s for p in range(%s)))' % (drop('PRE()[p]'), NP)],
     allocates=True, skip_frame=True, heap_consts=True,
     calls={'self.pop': 'PNode.pop'},
     loops={3: Loop(index='k', inv=['-1 <= k', 'k <= %s - 1' % NP, 'self is old(self)', 'k + 1 <= len(self)', 'len(self) <= %s' % NP,
                                   # the part not yet inspected is untouched
                                   'all(self[t] is PRE()[t] for t in range(k + 1))',
                                   'all(0 <= Q(self[t]) and Q(self[t]) < %s and PRE()[Q(self[t])] is self[t] for t in range(len(self)))' % NP,
                                   'all(Q(self[t]) < Q(self[t + 1]) for t in range(len(self) - 1))',
                                   'all(Q(self[t]) > k for t in range(k + 1, len(self)))',
                                   'all(not %s for t in range(k + 1, len(self)))' % drop('self[t]'),
                                   'all(all(%s for p in range(Q(self[t]) + 1, Q(self[t + 1]))) for t in range(k + 1, len(self) - 1))' % drop('PRE()[p]'),
                                   'implies(k + 1 < len(self), all(%s for p in range(k + 1, Q(self[k + 1]))) and all(%s for p in range(Q(self[len(self) - 1]) + 1, %s)))'
                                   % (drop('PRE()[p]'), drop('PRE()[p]'), NP),
                                   'implies(k + 1 == len(self), all(%s for p in range(k + 1, %s)))' % (drop('PRE()[p]'), NP)],
                    modifies=[Mod('list:PNode', 'r is self'), Mod('parentNode', 'True')])})
P.assume('a child list is a list (pop / insert / append / appendChild as list operations: C06); paragraph breaks among the children are bare \\\\par '
         'tokens; normalisation rewrites text inside a paragraph element only')
