#!/bin/bash
# usage: seed_confirm.sh <prop> <srcdir with patch.diff demo.py notes.txt> <seed-name>
# Confirms in a scratch worktree: demo fails with the patch, passes without, the 360-test baseline still passes with it.
set -u
PROP=$1; SRC=$2; NAME=$3
WT=$(mktemp -d /tmp/seedwt.XXXXXX)
git -C /repo worktree add -f "$WT" HEAD -q || exit 2
cd /tmp
OUT=/verif/seeded/$NAME; mkdir -p "$OUT"
cp "$SRC/patch.diff" "$SRC/demo.py" "$OUT/"
PYTHONPATH=$WT /venv/bin/python "$OUT/demo.py" >/dev/null 2>&1; base_rc=$?
git -C "$WT" apply "$OUT/patch.diff" || { echo "patch does not apply"; git -C /repo worktree remove --force "$WT"; exit 2; }
PYTHONPATH=$WT /venv/bin/python "$OUT/demo.py" >/dev/null 2>&1; patched_rc=$?
(cd "$WT" && /venv/bin/python -m pytest -q -p no:cacheprovider --timeout=900 -x -q 2>&1 | tail -1) > "$OUT/suite_tail.txt" 2>&1
(cd "$WT" && /venv/bin/python -m pytest -q -p no:cacheprovider --timeout=900 2>&1 | tail -1) > "$OUT/suite_tail.txt" 2>&1
passed=$(grep -o '[0-9]* passed' "$OUT/suite_tail.txt" | grep -o '[0-9]*')
git -C /repo worktree remove --force "$WT"
echo "$NAME: demo unpatched rc=$base_rc patched rc=$patched_rc suite passed=$passed"
python3 - "$PROP" "$NAME" "$base_rc" "$patched_rc" "$passed" "$SRC" <<'PY'
import json,sys,os
prop,name,b,p,passed,src=sys.argv[1:7]
notes=open(os.path.join(src,'notes.txt')).read() if os.path.exists(os.path.join(src,'notes.txt')) else ''
meta=dict(property=prop, name=name, demo_rc_unpatched=int(b), demo_rc_patched=int(p), baseline_passed_with_patch=int(passed or 0),
          confirmed=(int(b)==0 and int(p)!=0 and int(passed or 0)==360),
          what_ran=['PYTHONPATH=<scratch worktree> /venv/bin/python demo.py (unpatched, then patched)',
                    'cd <scratch worktree with patch> && /venv/bin/python -m pytest -q -p no:cacheprovider --timeout=900'],
          needs_to_manifest=notes[:1500])
json.dump(meta,open('/verif/seeded/%s/meta.json'%name,'w'),indent=1)
PY
