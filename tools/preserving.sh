#!/bin/bash
# Behaviour-preserving edits of /repo (selftest/preserving/<prop>_<what>.diff): each is applied to /repo, the property's quick check must stay
# green (exit 0, no VIOLATION line), the edit is undone.  Evidence goes to .tmp (VERIF_SCRATCH_EVIDENCE).
cd "$(dirname "$0")/.." || exit 3
if ! git -C /repo diff --quiet; then echo "/repo has uncommitted changes"; exit 2; fi
rc=0
for f in selftest/preserving/*.diff; do
  n=$(basename $f .diff); p=${n%%_*}
  git -C /repo apply "$PWD/$f" || { echo "$n: patch does not apply"; rc=1; continue; }
  VERIF_SCRATCH_EVIDENCE=1 timeout 3000 ./check $p > .tmp/pres_$n.log 2>&1; code=$?
  git -C /repo checkout -- .
  echo "$n: check $p exit=$code violations=$(grep -c '^VIOLATION' .tmp/pres_$n.log) $(grep 'failed obligation' .tmp/pres_$n.log | head -2 | cut -c1-160 | tr '\n' ' ')"
  [ $code -ne 0 ] && rc=1
done
exit $rc
