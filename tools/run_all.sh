#!/bin/bash
# Run every claimed check (quick tier) against /repo; used to refresh the committed evidence files.
cd "$(dirname "$0")/.." || exit 3
rc=0
for p in $(python3 -c "import json; print(' '.join(c['property_id'] for c in json.load(open('MANIFEST.json'))['checks']))"); do
  mkdir -p .tmp
  timeout 3000 ./check $p --tier ${1:-quick} > .tmp/run_$p.log 2>/dev/null
  code=$?
  [ $code -ne 0 ] && rc=1
  echo "$p exit=$code :: $(grep -v WARNING .tmp/run_$p.log | grep -v '^KNOWN-FINDING' | tail -3 | tr '\n' ' ')"; grep -c '^KNOWN-FINDING' .tmp/run_$p.log | sed 's/^/   known findings printed: /' 
done
python3-vt - <<'PY'
import json, jsonschema, glob
sch = json.load(open('/root/.vp/EVIDENCE.schema.json'))
for f in sorted(glob.glob('/verif/evidence/*.json')):
    e = json.load(open(f))
    jsonschema.validate(e, sch)
    c = e['coverage']
    print(f.split('/')[-1], c['obligations'], c['discharged'], 'violations', e.get('violations'))
PY
exit $rc
