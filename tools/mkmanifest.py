#!/usr/bin/env python3
"""Regenerate MANIFEST.json from tools/claims.json (claimed properties) + properties.jsonl."""
import json, os
ROOT = os.path.dirname(os.path.dirname(os.path.abspath(__file__)))
props = [json.loads(l) for l in open(os.path.join(ROOT, 'properties.jsonl'))]
claims = json.load(open(os.path.join(ROOT, 'tools', 'claims.json')))
checks, na = [], []
for p in props:
    pid = p['id']
    c = claims.get(pid)
    if c and c.get('claimed'):
        checks.append({
            "property_id": pid,
            "quick_cmd": "./check %s --tier quick" % pid,
            "thorough_cmd": "./check %s --tier thorough" % pid,
            "evidence_file": "evidence/%s.json" % pid,
            "replay_cmd_template": "./check %s --replay {path}" % pid,
            "engine": "pyvc",
            "level_claimed": {"category": c.get("category", "proof"), "text": c['text'], "design_ref": c.get('design_ref', 'DESIGN.md section 5 ' + pid)},
            "level_note": c['note'],
            "technique": c.get('technique', 'contract-based deductive verification: VCs generated from the real Python source (ast), discharged by z3/cvc5'),
        })
    else:
        na.append({"property_id": pid, "reason": (c or {}).get('reason', 'check not built yet (build in progress, see DESIGN.md section 8)')})
m = {"version": 1,
     "setup_cmd": "true",
     "hooks": {"guard": "PLASTEX_VERIF", "enable": "no hooks in /repo: contracts are sidecar files under /verif/contracts; the verifier re-reads /repo's working tree on every run",
               "baseline_off_cmd": "cd /repo && /venv/bin/python -m pytest -ra -q -p no:cacheprovider --timeout=900 --continue-on-collection-errors",
               "source_commits": claims.get('_source_commits', []), "add_only": True},
     "engines": [{"name": "pyvc", "path": "pyvc/", "serves_properties": [c['property_id'] for c in checks],
                  "kind_free_text": "verification-condition generator over the real Python source (ast -> z3/cvc5), sidecar contracts in contracts/, native replay in native/"}],
     "checks": checks,
     "notes": claims.get('_notes', ''),
     "not_applicable": na}
json.dump(m, open(os.path.join(ROOT, 'MANIFEST.json'), 'w'), indent=1)
print('claimed', [c['property_id'] for c in checks])
