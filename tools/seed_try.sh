#!/bin/bash
# usage: seed_try.sh <prop> <seed-name> : apply the seeded change to /repo, run the property's quick check (evidence goes to .tmp), undo.
set -u
PROP=$1; NAME=$2
cd /verif
if ! git -C /repo diff --quiet; then echo "/repo has uncommitted changes"; exit 2; fi
git -C /repo apply /verif/seeded/$NAME/patch.diff || { echo "patch does not apply"; exit 2; }
VERIF_SCRATCH_EVIDENCE=1 timeout 3000 ./check $PROP > .tmp/seed_$NAME.log 2>&1; rc=$?
git -C /repo checkout -- .
echo "$NAME: check $PROP exit=$rc"; grep -c "^VIOLATION" .tmp/seed_$NAME.log; grep "failed obligation" .tmp/seed_$NAME.log | cut -c1-220 | head -6
