#!/usr/bin/env python3
"""Regenerate seeded/RESULTS.md from the per-seed logs written by tools/seed_try.sh (.tmp/seed_<name>.log)."""
import glob, json, os, re
ROOT = os.path.dirname(os.path.dirname(os.path.abspath(__file__)))
rows = []
for d in sorted(glob.glob(os.path.join(ROOT, 'seeded', '*', 'meta.json'))):
    m = json.load(open(d))
    name = m['name']
    log = os.path.join(ROOT, '.tmp', 'seed_%s.log' % name)
    what = ' '.join(m.get('needs_to_manifest', '').strip().split('\n')[:2])
    what = re.sub(r'=+', '', what).strip()[:150]
    if os.path.exists(log):
        txt = open(log).read()
        obls = re.findall(r'failed obligation: (\S+) \[(\w+)\]', txt)
        viol = len(re.findall(r'^VIOLATION', txt, re.M))
        caught = 'yes' if viol else 'NO'
        by = '; '.join('%s [%s]' % (o.split('/', 1)[1] if '/' in o else o, s) for o, s in obls[:3])
    else:
        caught, by = 'not run', ''
    rows.append((name, m['property'], what, caught, by))
with open(os.path.join(ROOT, 'seeded', 'RESULTS.md'), 'w') as fh:
    fh.write('# Seeded changes and the obligations that report them\n\n')
    fh.write('Each change was produced by a sub-agent that saw only the property text and a scratch worktree; confirmed by tools/seed_confirm.sh '
             '(demo exits 0 unpatched / 1 patched, the 360 baseline tests still pass); tried with tools/seed_try.sh (patch applied to /repo, quick check, undone).\n\n')
    fh.write('| Seed | Property | Change | Reported | First failing obligations |\n|---|---|---|---|---|\n')
    for r in rows:
        fh.write('| %s | %s | %s | %s | %s |\n' % tuple(x.replace('|', '\\|') for x in r))
print('%d seeds, %d caught' % (len(rows), sum(1 for r in rows if r[3] == 'yes')))
