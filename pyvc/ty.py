"""PyVC types: every Python-level type used in a contract maps to exactly one z3 sort."""
import z3

_DT = {}


class Ty:
    key = '?'
    nullable = False

    def __eq__(self, o):
        return isinstance(o, Ty) and self.key == o.key

    def __hash__(self):
        return hash(self.key)

    def __repr__(self):
        return self.key

    def sort(self):
        raise NotImplementedError

    def fresh(self, name):
        return z3.Const(name, self.sort())

    @property
    def reflike(self):
        return False


class _Int(Ty):
    key = 'int'

    def sort(self):
        return z3.IntSort()


class _Bool(Ty):
    key = 'bool'

    def sort(self):
        return z3.BoolSort()


class _Str(Ty):
    key = 'str'

    def sort(self):
        return z3.StringSort()


class _Real(Ty):
    key = 'real'

    def sort(self):
        return z3.RealSort()


class _None(Ty):
    key = 'none'

    def sort(self):
        return z3.IntSort()


class _Opaque(Ty):
    """Parameter of a trusted stub that accepts any value and does not depend on it."""
    key = 'opaque'

    def sort(self):
        return z3.IntSort()


class _Atom(Ty):
    """An object of which only its identity matters (parametric code: list elements that are merely moved around).  Integers
    may be stored where atoms are expected (they are objects too)."""
    key = 'atom'

    def sort(self):
        return z3.IntSort()


Int, Bool, Str, Real, NoneT, Opaque, Atom = _Int(), _Bool(), _Str(), _Real(), _None(), _Opaque(), _Atom()


class Ref(Ty):
    """Reference to a heap object of class `cls` (or a subclass). id 0 is None."""

    def __init__(self, cls, nullable=False):
        self.cls = cls
        self.nullable = nullable
        self.key = 'ref:%s%s' % (cls, '?' if nullable else '')

    def sort(self):
        return z3.IntSort()

    @property
    def reflike(self):
        return True

    def opt(self):
        return Ref(self.cls, True)

    def nonnull(self):
        return Ref(self.cls, False)


class List(Ty):
    """Heap list (mutable) with elements of type elem."""

    def __init__(self, elem, nullable=False):
        self.elem = elem
        self.nullable = nullable
        self.key = 'list[%s]%s' % (elem.key, '?' if nullable else '')

    def sort(self):
        return z3.IntSort()

    @property
    def reflike(self):
        return True

    def opt(self):
        return List(self.elem, True)

    def nonnull(self):
        return List(self.elem, False)


class Dict(Ty):
    def __init__(self, k, v, nullable=False):
        self.k, self.v = k, v
        self.nullable = nullable
        self.key = 'dict[%s,%s]%s' % (k.key, v.key, '?' if nullable else '')

    def sort(self):
        return z3.IntSort()

    @property
    def reflike(self):
        return True

    def opt(self):
        return Dict(self.k, self.v, True)

    def nonnull(self):
        return Dict(self.k, self.v, False)


def _mkdt(key, build):
    if key not in _DT:
        _DT[key] = build()
    return _DT[key]


def _san(s):
    out = []
    for ch in s:
        out.append(ch if ch.isalnum() else '_')
    return ''.join(out)


class Opt(Ty):
    """Optional scalar (int/str/bool/real/tuple/...).  Reference types use nullable refs instead."""

    def __new__(cls, t):
        if t.reflike:
            return t.opt()
        if isinstance(t, Opt):
            return t
        return super().__new__(cls)

    def __init__(self, t):
        if getattr(self, 't', None) is not None:
            return
        self.t = t
        self.key = 'opt[%s]' % t.key

        def build():
            d = z3.Datatype('Opt_' + _san(t.key))
            d.declare('none')
            d.declare('some', ('val', t.sort()))
            return d.create()
        self.dt = _mkdt(self.key, build)

    def sort(self):
        return self.dt

    def none(self):
        return self.dt.none

    def some(self, z):
        return self.dt.some(z)

    def is_none(self, z):
        return self.dt.is_none(z)

    def val(self, z):
        return self.dt.val(z)


class Tuple(Ty):
    def __init__(self, ts):
        self.ts = list(ts)
        self.key = 'tup[%s]' % ','.join(t.key for t in self.ts)

        def build():
            d = z3.Datatype('Tup_' + _san(self.key))
            d.declare('mk', *[('f%d' % i, t.sort()) for i, t in enumerate(self.ts)])
            return d.create()
        self.dt = _mkdt(self.key, build)

    def sort(self):
        return self.dt

    def mk(self, zs):
        return self.dt.mk(*zs)

    def get(self, z, i):
        return getattr(self.dt, 'f%d' % i)(z)


class Seq(Ty):
    """Pure (immutable, spec-level) sequence: (len, Array Int -> T)."""

    def __init__(self, elem):
        self.elem = elem
        self.key = 'seq[%s]' % elem.key

        def build():
            d = z3.Datatype('Seq_' + _san(elem.key))
            d.declare('mk', ('len', z3.IntSort()), ('arr', z3.ArraySort(z3.IntSort(), elem.sort())))
            return d.create()
        self.dt = _mkdt(self.key, build)

    def sort(self):
        return self.dt

    def mk(self, n, arr):
        return self.dt.mk(n, arr)

    def len(self, z):
        return self.dt.len(z)

    def arr(self, z):
        return self.dt.arr(z)


class Set(Ty):
    def __init__(self, elem):
        self.elem = elem
        self.key = 'set[%s]' % elem.key

    def sort(self):
        return z3.ArraySort(self.elem.sort(), z3.BoolSort())


class Map(Ty):
    """Pure map: (has: K->Bool, val: K->V)."""

    def __init__(self, k, v):
        self.k, self.v = k, v
        self.key = 'map[%s,%s]' % (k.key, v.key)

        def build():
            d = z3.Datatype('Map_' + _san(self.key))
            d.declare('mk', ('has', z3.ArraySort(k.sort(), z3.BoolSort())),
                      ('val', z3.ArraySort(k.sort(), v.sort())))
            return d.create()
        self.dt = _mkdt(self.key, build)

    def sort(self):
        return self.dt


class SV:
    """Symbolic value: a type and a z3 term (None for the None literal)."""
    __slots__ = ('t', 'z', 'aux')

    def __init__(self, t, z, aux=None):
        self.t, self.z, self.aux = t, z, aux

    def __repr__(self):
        return 'SV(%s, %s)' % (self.t, self.z)


def parse_type(s, classes=None):
    """Parse a type expression string: int, str, bool, real, X?, list[T], dict[K,V], tuple[..], seq[T], set[T], ClassName."""
    s = s.strip()
    opt = False
    if s.endswith('?'):
        opt = True
        s = s[:-1].strip()
    base = {'int': Int, 'str': Str, 'bool': Bool, 'real': Real, 'float': Real, 'none': NoneT, 'opaque': Opaque, 'atom': Atom}
    if s in base:
        t = base[s]
    elif '[' in s:
        head, rest = s.split('[', 1)
        assert rest.endswith(']'), s
        inner = rest[:-1]
        parts, depth, cur = [], 0, ''
        for ch in inner:
            if ch == '[':
                depth += 1
            if ch == ']':
                depth -= 1
            if ch == ',' and depth == 0:
                parts.append(cur)
                cur = ''
            else:
                cur += ch
        parts.append(cur)
        ps = [parse_type(p, classes) for p in parts]
        head = head.strip()
        t = {'list': lambda: List(ps[0]), 'dict': lambda: Dict(ps[0], ps[1]),
             'tuple': lambda: Tuple(ps), 'seq': lambda: Seq(ps[0]), 'set': lambda: Set(ps[0]),
             'map': lambda: Map(ps[0], ps[1])}[head]()
    else:
        t = Ref(s)
    if opt:
        t = Opt(t)
    return t
