"""PyVC types: every Python-level type used in a contract maps to exactly one z3 sort."""
import z3

_DT = {}


class Ty:
    key = '?'
    nullable = False

    def __eq__(self, o):
        return isinstance(o, Ty) and self.key == o.key

    def __hash__(self):
        return hash(self.key)

    def __repr__(self):
        return self.key

    def sort(self):
        raise NotImplementedError

    def fresh(self, name):
        return z3.Const(name, self.sort())

    @property
    def reflike(self):
        return False


class _Int(Ty):
    key = 'int'

    def sort(self):
        return z3.IntSort()


class _Bool(Ty):
    key = 'bool'

    def sort(self):
        return z3.BoolSort()


class _Str(Ty):
    key = 'str'

    def sort(self):
        return z3.StringSort()


class _Real(Ty):
    key = 'real'

    def sort(self):
        return z3.RealSort()


class _None(Ty):
    key = 'none'

    def sort(self):
        return z3.IntSort()


class _Opaque(Ty):
    """Parameter of a trusted stub that accepts any value and does not depend on it."""
    key = 'opaque'

    def sort(self):
        return z3.IntSort()


class _Atom(Ty):
    """An object of which only its identity matters (parametric code: list elements that are merely moved around).  Integers
    may be stored where atoms are expected (they are objects too)."""
    key = 'atom'

    def sort(self):
        return z3.IntSort()


Int, Bool, Str, Real, NoneT, Opaque, Atom = _Int(), _Bool(), _Str(), _Real(), _None(), _Opaque(), _Atom()


class Ref(Ty):
    """Reference to a heap object of class `cls` (or a subclass). id 0 is None."""

    def __init__(self, cls, nullable=False):
        self.cls = cls
        self.nullable = nullable
        self.key = 'ref:%s%s' % (cls, '?' if nullable else '')

    def sort(self):
        return z3.IntSort()

    @property
    def reflike(self):
        return True

    def opt(self):
        return Ref(self.cls, True)

    def nonnull(self):
        return Ref(self.cls, False)


class List(Ty):
    """Heap list (mutable) with elements of type elem."""

    def __init__(self, elem, nullable=False):
        self.elem = elem
        self.nullable = nullable
        self.key = 'list[%s]%s' % (elem.key, '?' if nullable else '')

    def sort(self):
        return z3.IntSort()

    @property
    def reflike(self):
        return True

    def opt(self):
        return List(self.elem, True)

    def nonnull(self):
        return List(self.elem, False)


class Dict(Ty):
    def __init__(self, k, v, nullable=False):
        self.k, self.v = k, v
        self.nullable = nullable
        self.key = 'dict[%s,%s]%s' % (k.key, v.key, '?' if nullable else '')

    def sort(self):
        return z3.IntSort()

    @property
    def reflike(self):
        return True

    def opt(self):
        return Dict(self.k, self.v, True)

    def nonnull(self):
        return Dict(self.k, self.v, False)


def _mkdt(key, build):
    if key not in _DT:
        _DT[key] = build()
    return _DT[key]


def _san(s):
    out = []
    for ch in s:
        out.append(ch if ch.isalnum() else '_')
    return ''.join(out)


class Opt(Ty):
    """Optional scalar (int/str/bool/real/tuple/...).  Reference types use nullable refs instead."""

    def __new__(cls, t):
        if t.reflike:
            return t.opt()
        if isinstance(t, Opt):
            return t
        return super().__new__(cls)

    def __init__(self, t):
        if getattr(self, 't', None) is not None:
            return
        self.t = t
        self.key = 'opt[%s]' % t.key

        nm = _san(t.key)
        self._nm = nm

        def build():
            # constructor / accessor names are unique per instance (cvc5 does not accept overloaded constructor names)
            d = z3.Datatype('Opt_' + nm)
            d.declare('none_' + nm)
            d.declare('some_' + nm, ('val_' + nm, t.sort()))
            return d.create()
        self.dt = _mkdt(self.key, build)

    def sort(self):
        return self.dt

    def none(self):
        return getattr(self.dt, 'none_' + self._nm)

    def some(self, z):
        return getattr(self.dt, 'some_' + self._nm)(z)

    def is_none(self, z):
        return getattr(self.dt, 'is_none_' + self._nm)(z)

    def val(self, z):
        return getattr(self.dt, 'val_' + self._nm)(z)


class Tuple(Ty):
    def __init__(self, ts):
        self.ts = list(ts)
        self.key = 'tup[%s]' % ','.join(t.key for t in self.ts)

        nm = _san(self.key)
        self._nm = nm

        def build():
            d = z3.Datatype('Tup_' + nm)
            d.declare('mk_' + nm, *[('f%d_%s' % (i, nm), t.sort()) for i, t in enumerate(self.ts)])
            return d.create()
        self.dt = _mkdt(self.key, build)

    def sort(self):
        return self.dt

    def mk(self, zs):
        return getattr(self.dt, 'mk_' + self._nm)(*zs)

    def get(self, z, i):
        return getattr(self.dt, 'f%d_%s' % (i, self._nm))(z)


class Seq(Ty):
    """Pure (immutable, spec-level) sequence: (len, Array Int -> T)."""

    def __init__(self, elem):
        self.elem = elem
        self.key = 'seq[%s]' % elem.key

        nm = _san(elem.key)
        self._nm = nm

        def build():
            d = z3.Datatype('Seq_' + nm)
            d.declare('mkseq_' + nm, ('len_' + nm, z3.IntSort()), ('arr_' + nm, z3.ArraySort(z3.IntSort(), elem.sort())))
            return d.create()
        self.dt = _mkdt(self.key, build)

    def sort(self):
        return self.dt

    def mk(self, n, arr):
        return getattr(self.dt, 'mkseq_' + self._nm)(n, arr)

    def len(self, z):
        return getattr(self.dt, 'len_' + self._nm)(z)

    def arr(self, z):
        return getattr(self.dt, 'arr_' + self._nm)(z)


class Set(Ty):
    def __init__(self, elem):
        self.elem = elem
        self.key = 'set[%s]' % elem.key

    def sort(self):
        return z3.ArraySort(self.elem.sort(), z3.BoolSort())


class Map(Ty):
    """Pure map: (has: K->Bool, val: K->V)."""

    def __init__(self, k, v):
        self.k, self.v = k, v
        self.key = 'map[%s,%s]' % (k.key, v.key)

        nm = _san(self.key)
        self._nm = nm

        def build():
            d = z3.Datatype('Map_' + nm)
            d.declare('mkmap_' + nm, ('has_' + nm, z3.ArraySort(k.sort(), z3.BoolSort())),
                      ('mval_' + nm, z3.ArraySort(k.sort(), v.sort())))
            return d.create()
        self.dt = _mkdt(self.key, build)

    def has(self, z):
        return getattr(self.dt, 'has_' + self._nm)(z)

    def mval(self, z):
        return getattr(self.dt, 'mval_' + self._nm)(z)

    def sort(self):
        return self.dt


class SV:
    """Symbolic value: a type and a z3 term (None for the None literal)."""
    __slots__ = ('t', 'z', 'aux')

    def __init__(self, t, z, aux=None):
        self.t, self.z, self.aux = t, z, aux

    def __repr__(self):
        return 'SV(%s, %s)' % (self.t, self.z)


def parse_type(s, classes=None):
    """Parse a type expression string: int, str, bool, real, X?, list[T], dict[K,V], tuple[..], seq[T], set[T], ClassName."""
    s = s.strip()
    opt = False
    if s.endswith('?'):
        opt = True
        s = s[:-1].strip()
    base = {'int': Int, 'str': Str, 'bool': Bool, 'real': Real, 'float': Real, 'none': NoneT, 'opaque': Opaque, 'atom': Atom}
    if s in base:
        t = base[s]
    elif '[' in s:
        head, rest = s.split('[', 1)
        assert rest.endswith(']'), s
        inner = rest[:-1]
        parts, depth, cur = [], 0, ''
        for ch in inner:
            if ch == '[':
                depth += 1
            if ch == ']':
                depth -= 1
            if ch == ',' and depth == 0:
                parts.append(cur)
                cur = ''
            else:
                cur += ch
        parts.append(cur)
        ps = [parse_type(p, classes) for p in parts]
        head = head.strip()
        t = {'list': lambda: List(ps[0]), 'dict': lambda: Dict(ps[0], ps[1]),
             'tuple': lambda: Tuple(ps), 'seq': lambda: Seq(ps[0]), 'set': lambda: Set(ps[0]),
             'map': lambda: Map(ps[0], ps[1])}[head]()
    else:
        t = Ref(s)
    if opt:
        t = Opt(t)
    return t
