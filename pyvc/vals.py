"""Value-level helpers: truthiness, coercion, merging, sequences."""
import z3
from . import ty as T
from .ty import SV
from .engine import Unsupported, fresh_name, zand, zor


def is_none(v):
    return isinstance(v.t, T._None)


def none_sv():
    return SV(T.NoneT, z3.IntVal(0))


def unify(t1, t2):
    """Least common type of two types (for merges / conditional expressions)."""
    if t1 == t2:
        return t1
    if isinstance(t1, T._None):
        return T.Opt(t2)
    if isinstance(t2, T._None):
        return T.Opt(t1)
    if isinstance(t1, T.Opt) and not t1.reflike and t1.t == t2:
        return t1
    if isinstance(t2, T.Opt) and not t2.reflike and t2.t == t1:
        return t2
    if t1.reflike and t2.reflike:
        if type(t1) is type(t2):
            if isinstance(t1, T.Ref):
                if t1.cls == t2.cls:
                    return T.Ref(t1.cls, t1.nullable or t2.nullable)
                return T.Ref('$any', t1.nullable or t2.nullable) if False else _ref_join(t1, t2)
            if t1.nonnull() == t2.nonnull():
                return t1.opt()
        return T.Ref('$any', True)
    if {t1.key, t2.key} == {'int', 'bool'}:
        return T.Int
    if 'atom' in (t1.key, t2.key) and {t1.key, t2.key} <= {'atom', 'int', 'bool'}:
        return T.Atom
    if {t1.key, t2.key} == {'int', 'real'}:
        return T.Real
    raise Unsupported('cannot unify types %s and %s' % (t1, t2))


_JOIN_HOOK = [None]


def _ref_join(t1, t2):
    if _JOIN_HOOK[0] is not None:
        c = _JOIN_HOOK[0](t1.cls, t2.cls)
        if c is not None:
            return T.Ref(c, t1.nullable or t2.nullable)
    return T.Ref('$any', t1.nullable or t2.nullable)


def coerce(v, t):
    """Convert a symbolic value to type t (must be a supertype in the sense of unify)."""
    if v.t == t:
        return v
    if isinstance(v.t, T._None):
        if t.reflike:
            return SV(t, z3.IntVal(0))
        if isinstance(t, T.Opt):
            return SV(t, t.none())
        raise Unsupported('None where %s expected' % t)
    if isinstance(t, T.Opt) and not t.reflike:
        if isinstance(v.t, T.Opt):
            raise Unsupported('coerce %s to %s' % (v.t, t))
        return SV(t, t.some(coerce(v, t.t).z))
    if t.reflike and v.t.reflike:
        return SV(t, v.z)
    if t.key == 'atom' and v.t.key in ('int', 'bool'):
        # an integer stored where only identity matters: boxed injectively away from the other atoms (negative ids)
        z = v.z if v.t.key == 'int' else z3.If(v.z, z3.IntVal(1), z3.IntVal(0))
        return SV(t, -1 - z3.If(z >= 0, 2 * z, -2 * z - 1))
    if t.key == 'int' and v.t.key == 'bool':
        return SV(T.Int, z3.If(v.z, z3.IntVal(1), z3.IntVal(0)))
    if t.key == 'real' and v.t.key == 'int':
        return SV(T.Real, z3.ToReal(v.z))
    if t.key == 'real' and v.t.key == 'bool':
        return SV(T.Real, z3.If(v.z, z3.RealVal(1), z3.RealVal(0)))
    if isinstance(v.t, T.Opt) and v.t.t == t:
        # narrowing (caller must have established is-some)
        return SV(t, v.t.val(v.z))
    if isinstance(t, T.Seq) and isinstance(v.t, T.Seq) and t.elem.reflike and v.t.elem.reflike:
        return SV(t, v.z)
    if isinstance(t, T.Tuple) and isinstance(v.t, T.Tuple) and len(t.ts) == len(v.t.ts):
        parts = [coerce(SV(v.t.ts[i], v.t.get(v.z, i)), t.ts[i]).z for i in range(len(t.ts))]
        return SV(t, t.mk(parts))
    raise Unsupported('cannot coerce %s to %s' % (v.t, t))


def ite(c, a, b):
    t = unify(a.t, b.t)
    a2, b2 = coerce(a, t), coerce(b, t)
    if a2.z is b2.z or a2.z.eq(b2.z):
        return a2
    return SV(t, z3.If(c, a2.z, b2.z))


def mk_seq(elem, n, arr):
    st = T.Seq(elem)
    return SV(st, st.mk(n, arr), aux=('seq', n, arr))


def seq_len(v):
    if isinstance(v.aux, tuple) and v.aux and v.aux[0] == 'seq':
        return v.aux[1]
    return v.t.len(v.z)


def seq_arr(v):
    if isinstance(v.aux, tuple) and v.aux and v.aux[0] == 'seq':
        return v.aux[2]
    return v.t.arr(v.z)


def seq_eq(a, b):
    """Extensional equality of two pure sequences."""
    k = z3.Int(fresh_name('k'))
    la, lb = seq_len(a), seq_len(b)
    return z3.And(la == lb, z3.ForAll([k], z3.Implies(z3.And(0 <= k, k < la),
                                                     z3.Select(seq_arr(a), k) == z3.Select(seq_arr(b), k))))


def py_divmod(a, b):
    """(q, r) with Python semantics.  SMT-LIB: a = b*q + r, 0 <= r < |b|; Python: r has the sign of b."""
    q, r = a / b, a % b
    if z3.is_int_value(b) and b.as_long() > 0:
        return q, r
    same = z3.Or(b > 0, r == 0)
    return z3.If(same, q, q - 1), z3.If(same, r, r + b)


def nsel(arr, idx, depth=0):
    """Select(arr, idx) with stores and if-then-else distributed explicitly (so that quantifier triggers see the
    underlying array reads)."""
    if z3.is_app(arr) and depth < 24:
        k = arr.decl().kind()
        if k == z3.Z3_OP_ITE:
            c, a, b = arr.children()
            ra, rb = nsel(a, idx, depth + 1), nsel(b, idx, depth + 1)
            return ra if ra.eq(rb) else z3.If(c, ra, rb)
        if k == z3.Z3_OP_STORE:
            base, i, v = arr.children()
            if i.eq(idx):
                return v
            return z3.If(i == idx, v, nsel(base, idx, depth + 1))
    return z3.Select(arr, idx)
