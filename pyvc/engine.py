"""PyVC: verification-condition generator for a subset of Python, reading the real source.

Loop-cut symbolic execution with state merging at joins.  See DESIGN.md section 2.
"""
import ast
import hashlib
import itertools
import os
import time

import z3

from . import ty as T
from .ty import SV
from .dsl import Contract, Loop, Mod

LOGGERS = {'log', 'status', 'deflog', 'macrolog', 'stacklog', 'mathshiftlog', 'tokenlog', 'envlog', 'digestlog',
           'grouplog', 'parselog', 'print', 'warnings'}


class Unsupported(Exception):
    pass


class ContractError(Exception):
    pass


class DeadPath(Exception):
    """The current statement certainly raised; no fall-through state."""


_ctr = itertools.count()


def fresh_name(base):
    return '%s!%d' % (base, next(_ctr))


def zeq(a, b):
    return a is b or (a is not None and b is not None and a.eq(b))


class Obligation:
    def __init__(self, oid, kind, desc=''):
        self.id = oid
        self.kind = kind
        self.desc = desc
        self.goals = []     # list of (hyps:list, goal, where)
        self.status = None
        self.backend = None
        self.time = 0.0
        self.model = None
        self.detail = ''
        self.expect_sat = False

    def add(self, hyps, goal, where=''):
        self.goals.append((list(hyps), goal, where))


class State:
    def __init__(self, eng):
        self.eng = eng
        self.locals = {}
        self.heap = {}
        self.pc = []
        self.pcd = []       # parallel to pc: True for branch decisions, False for facts learned on the path
        self.axd = {}
        self.old = None
        self.ghost = {}

    def copy(self):
        s = State(self.eng)
        s.locals = dict(self.locals)
        s.heap = dict(self.heap)
        s.pc = list(self.pc)
        s.pcd = list(self.pcd)
        s.axd = dict(self.axd)
        s.old = self.old
        s.ghost = dict(self.ghost)
        return s

    def assume(self, c, decision=False):
        if z3.is_true(c):
            return
        self.pc.append(c)
        self.pcd.append(decision)

    def add_axiom(self, key, ax):
        if key in self.axd:
            return
        self.axd[key] = ax

    def hyps(self):
        self.eng.flush_closure()
        return list(self.eng.heap_axioms.values()) + list(self.axd.values()) + self.pc

    # ---------------- heap
    def h(self, key):
        if self.eng.read_log is not None:
            self.eng.read_log.add(key)
        if key in self.heap:
            return self.heap[key]
        return self.eng.initial_heap(key)

    def seth(self, key, val):
        cur = getattr(self.eng, 'cur', None)
        if cur is not None and getattr(cur, 'heap_consts', False) and key[0] in ('len', 'elem', 'f'):
            val = self.constify(val, '_'.join(str(x) for x in self.eng.hkey(key)[:2]).replace('|', '.'))
        self.heap[key] = val

    def constify(self, val, tag, depth=0):
        """Option heap_consts: a heap update Store(base, i, v) is replaced by a fresh array constant related to `base` by
        axioms with triggers on both arrays.  Reads then have the same shape whether the index is ground or bound, which is what
        E-matching needs for quantified invariants over nested containers."""
        if not (z3.is_app(val) and val.decl().kind() == z3.Z3_OP_STORE) or depth > 3:
            return val
        base, idx, v = val.children()
        base = self.constify(base, tag, depth + 1)
        if z3.is_array(v):
            v = self.constify(v, tag + '_in', depth + 1)
        hc = z3.Const(fresh_name('Hc_' + tag), val.sort())
        r = z3.Const(fresh_name('r'), idx.sort())
        body = z3.Implies(r != idx, z3.Select(hc, r) == z3.Select(base, r))
        for pat in (z3.Select(hc, r), z3.Select(base, r)):
            try:
                self.assume(z3.ForAll([r], body, patterns=[pat]))
            except z3.Z3Exception:
                self.assume(z3.ForAll([r], body))
        self.assume(z3.Select(hc, idx) == v)
        return hc


class Out:
    """Result of executing a block."""

    merger = None

    def __init__(self):
        self.normals = []    # fall-through states (kept separate up to a cap; merged lazily)
        self.rets = []       # (State, SV or None, ordinal)
        self.excs = []       # (State, excname, where)
        self.brks = []
        self.conts = []

    @property
    def normal(self):
        if not self.normals:
            return None
        if len(self.normals) > 1:
            self.normals = [Out.merger(self.normals)]
        return self.normals[0]

    @normal.setter
    def normal(self, st):
        self.normals = [] if st is None else [st]

    def absorb(self, o):
        self.rets += o.rets
        self.excs += o.excs
        self.brks += o.brks
        self.conts += o.conts


def common_prefix(a, b):
    n = 0
    for x, y in zip(a, b):
        if x is y or x.eq(y):
            n += 1
        else:
            break
    return n


def zand(xs):
    xs = [x for x in xs if not z3.is_true(x)]
    if not xs:
        return z3.BoolVal(True)
    if len(xs) == 1:
        return xs[0]
    return z3.And(*xs)


def zor(xs):
    if not xs:
        return z3.BoolVal(False)
    if len(xs) == 1:
        return xs[0]
    return z3.Or(*xs)


class FnInfo:
    def __init__(self, node, file, qualname, src, lineno, end_lineno):
        self.node, self.file, self.qualname, self.src = node, file, qualname, src
        self.lineno, self.end_lineno = lineno, end_lineno
        self.sha = hashlib.sha256(src.encode()).hexdigest()


_SRC_CACHE = {}


def locate(repo, file, qualname):
    """Find a function by file + qualified name (Class.Inner.method) in the working tree."""
    path = os.path.join(repo, file)
    if path not in _SRC_CACHE:
        text = open(path, encoding='utf-8').read()
        _SRC_CACHE[path] = (text, ast.parse(text))
    text, tree = _SRC_CACHE[path]
    parts = qualname.split('.')
    body = tree.body
    node = None
    for i, p in enumerate(parts):
        found = None
        for n in body:
            if isinstance(n, (ast.FunctionDef, ast.ClassDef, ast.AsyncFunctionDef)) and n.name == p:
                found = n   # last definition wins, as in Python
            elif isinstance(n, (ast.If, ast.Try)):
                for m in ast.walk(n):
                    if isinstance(m, (ast.FunctionDef, ast.ClassDef)) and m.name == p and found is None:
                        found = m
        if found is None:
            raise Unsupported('cannot locate %s in %s' % (qualname, file))
        node = found
        body = node.body
    if not isinstance(node, (ast.FunctionDef, ast.AsyncFunctionDef)):
        raise Unsupported('%s in %s is not a function' % (qualname, file))
    seg = ast.get_source_segment(text, node)
    return FnInfo(node, file, qualname, seg, node.lineno, node.end_lineno)


def number_nodes(fn):
    """Static ordinals for loops, returns, raising sites, calls: by source order."""
    loops, rets = [], []
    for n in ast.walk(fn):
        pass
    class V(ast.NodeVisitor):
        def generic_visit(self, n):
            if isinstance(n, (ast.For, ast.While)):
                loops.append(n)
            if isinstance(n, ast.Return):
                rets.append(n)
            super().generic_visit(n)

        def visit_FunctionDef(self, n):
            if n is fn:
                self.generic_visit(n)
            # nested functions are not numbered

        def visit_Lambda(self, n):
            pass
    V().visit(fn)
    loops.sort(key=lambda n: (n.lineno, n.col_offset))
    rets.sort(key=lambda n: (n.lineno, n.col_offset))
    return {id(n): i for i, n in enumerate(loops)}, {id(n): i for i, n in enumerate(rets)}, loops


class Engine:
    def __init__(self, prop, repo):
        self.prop = prop
        self.repo = repo
        self._init_heap = {}
        self._init_keys = {}
        self.obls = {}
        self.order = []
        self.class_ids = {}
        self.cls_of = z3.Function('cls_of', z3.IntSort(), z3.IntSort())
        for i, c in enumerate(sorted(prop.classes)):
            self.class_ids[c] = i + 1
        self.ufs = {}
        self.cur = None
        self.heap_axioms = {}
        self._pending_closure = []
        self.read_log = None
        self.site_counts = {}
        self.notes = []

    # ------------------------------------------------------------------ heap symbols
    def heap_sort(self, key):
        k = key[0]
        I = z3.IntSort()
        if k == 'f':
            return z3.ArraySort(I, self.field_type(key[1]).sort())
        if k == 'has':
            return z3.ArraySort(I, z3.BoolSort())
        if k == 'len':
            return z3.ArraySort(I, I)
        if k == 'elem':
            return z3.ArraySort(I, z3.ArraySort(I, key[2].sort()))
        if k == 'dhas':
            return z3.ArraySort(I, z3.ArraySort(key[2].sort(), z3.BoolSort()))
        if k == 'dval':
            return z3.ArraySort(I, z3.ArraySort(key[2].sort(), key[3].sort()))
        if k == 'alloc':
            return I
        if k == 'g':
            return key[2].sort()
        raise Unsupported('heap key %r' % (key,))

    def initial_heap(self, key):
        hk = self.hkey(key)
        if hk not in self._init_heap:
            self._init_keys[hk] = key
            self._pending_closure.append(key)
            self._init_heap[hk] = z3.Const(('H0_' + '_'.join(str(x) for x in hk)).replace('|', '.'), self.heap_sort(key))
        return self._init_heap[hk]

    def closure(self, key, arr, alloc, lenarr):
        """Heap closure: references stored in allocated objects are allocated (or None).  Holds by construction of the
        Python heap; stated for fresh array symbols only."""
        r = z3.Int(fresh_name('r'))
        k0 = key[0]
        if k0 == 'f':
            try:
                ft = self.field_type(key[1])
            except Unsupported:
                return None
            if not ft.reflike:
                return None
            v = z3.Select(arr, r)
            typing = []
            # heap typing of the field: a non-None value is an instance of the declared class / a builtin container (class id 0)
            if isinstance(ft, T.Ref) and ft.cls != '$any' and ft.cls in self.prop.classes and not getattr(self.prop.classes[ft.cls], 'universal', False):
                typing = [z3.Implies(v != 0, self.instance_of(v, ft.cls))]
            elif isinstance(ft, (T.List, T.Dict)):
                typing = [z3.Implies(v != 0, self.cls_of(v) == 0)]
            if not ft.nullable and not isinstance(ft, T.Ref):
                # a builtin-container field declared non-optional holds a container
                typing.append(v > 0)
            return z3.ForAll([r], z3.Implies(z3.And(r > 0, r <= alloc), z3.And(v >= 0, v <= alloc, *typing)), patterns=[v])
        if k0 == 'elem' and key[2].reflike:
            k = z3.Int(fresh_name('k'))
            v = z3.Select(z3.Select(arr, r), k)
            return z3.ForAll([r, k], z3.Implies(z3.And(r > 0, r <= alloc, k >= 0, k < z3.Select(lenarr, r)),
                                                z3.And(v >= 0, v <= alloc)), patterns=[v])
        if k0 == 'dval' and key[3].reflike:
            k = key[2].fresh(fresh_name('k'))
            v = z3.Select(z3.Select(arr, r), k)
            return z3.ForAll([r, k], z3.Implies(z3.And(r > 0, r <= alloc), z3.And(v >= 0, v <= alloc)), patterns=[v])
        return None

    def flush_closure(self):
        """Closure axioms for initial heap arrays created since the last call (relative to the entry allocation)."""
        a0 = z3.Int('alloc0')
        while self._pending_closure:
            key = self._pending_closure.pop()
            hk = self.hkey(key)
            ax = self.closure(key, self._init_heap[hk], a0, self.initial_heap(self.k_len()) if key[0] == 'elem' else None)
            if ax is not None:
                self.heap_axioms[hk] = ax

    @staticmethod
    def hkey(key):
        return tuple(x.key if isinstance(x, T.Ty) else x for x in key)

    def fid(self, name, cls=None):
        """Field identity: the plain name, or name@DeclaringClass when classes declare the name with different types."""
        if '|' in name:
            return name
        if self.cur is not None and name in self.cur.fields:
            return name
        var = self.prop.field_variants.get(name)
        if not var:
            raise Unsupported('field %r has no declared type' % name)
        if len({str(t) for t in var.values()}) == 1:
            return name
        if cls is not None:
            for c in self.class_chain(cls):
                if c in var:
                    return '%s|%s' % (name, c)
        raise Unsupported('field %r is declared with several types; receiver class %r does not determine which' % (name, cls))

    def fids(self, name):
        if '|' in name:
            return [name]
        var = self.prop.field_variants.get(name)
        if not var or len({str(t) for t in var.values()}) == 1:
            return [name]
        return ['%s|%s' % (name, c) for c in var]

    def field_type(self, fid):
        name, _, decl = fid.partition('|')
        if self.cur is not None and name in self.cur.fields and not decl:
            return self.ptype(self.cur.fields[name])
        var = self.prop.field_variants.get(name)
        if not var:
            raise Unsupported('field %r has no declared type' % name)
        if decl:
            return self.ptype(var[decl])
        return self.ptype(next(iter(var.values())))

    def ptype(self, s):
        if isinstance(s, T.Ty):
            return s
        return T.parse_type(s)

    # canonical heap keys
    def k_field(self, name):
        return ('f', name)

    def k_has(self, name):
        return ('has', name)

    def k_len(self):
        return ('len',)

    def k_elem(self, t):
        st = self.storage(t)
        return ('elem', st.key, st)

    def k_dhas(self, kt, vt):
        vt = self.storage(vt)
        return ('dhas', kt.key + '/' + vt.key, kt, vt)

    def k_dval(self, kt, vt):
        vt = self.storage(vt)
        return ('dval', kt.key + '/' + vt.key, kt, vt)

    def mod_elem_key(self, t):
        return self.k_elem(t)

    @staticmethod
    def storage(t):
        """Type under which values are stored in containers: refs are stored nullable-agnostic."""
        if t.reflike:
            return T.Ref('$any', True)
        return t

    # ------------------------------------------------------------------ class relation
    def subclasses(self, name):
        out = set()
        for c, d in self.prop.classes.items():
            cur, seen = [c], set()
            while cur:
                x = cur.pop()
                if x in seen:
                    continue
                seen.add(x)
                if x == name:
                    out.add(c)
                    break
                if x in self.prop.classes:
                    cur += self.prop.classes[x].bases
        return out

    def is_subclass(self, c, name):
        return c in self.subclasses(name)

    def instance_of(self, z, name):
        d = self.prop.classes.get(name)
        if d is not None and d.universal:
            return z3.BoolVal(True)
        subs = self.subclasses(name)
        if not subs:
            raise Unsupported('class %s not declared' % name)
        return zor([self.cls_of(z) == self.class_ids[c] for c in sorted(subs)])

    def class_decl(self, name):
        return self.prop.classes.get(name)

    def class_elem(self, name):
        cur, seen = [name], set()
        while cur:
            x = cur.pop(0)
            if x in seen or x not in self.prop.classes:
                continue
            seen.add(x)
            d = self.prop.classes[x]
            if d.elem is not None:
                return self.ptype(d.elem)
            cur += d.bases
        return None

    def class_dictof(self, name):
        cur, seen = [name], set()
        while cur:
            x = cur.pop(0)
            if x in seen or x not in self.prop.classes:
                continue
            seen.add(x)
            d = self.prop.classes[x]
            if getattr(d, 'dictof', None) is not None:
                return T.Dict(self.ptype(d.dictof[0]), self.ptype(d.dictof[1]))
            cur += d.bases
        return None

    def class_chain(self, name):
        out, cur = [], [name]
        while cur:
            x = cur.pop(0)
            if x in out or x not in self.prop.classes:
                continue
            out.append(x)
            cur += self.prop.classes[x].bases
        return out

    def find_method(self, cls, meth):
        for c in self.class_chain(cls):
            nm = '%s.%s' % (c, meth)
            if nm in self.prop.contracts:
                return self.prop.contracts[nm]
        return None

    def find_prop(self, cls, attr):
        for c in self.class_chain(cls):
            d = self.prop.classes[c]
            if attr in d.props:
                return self.prop.contracts[d.props[attr]]
        return None

    def class_const(self, cls, attr):
        for c in self.class_chain(cls):
            d = self.prop.classes[c]
            if attr in d.consts:
                return d.consts[attr]
        return None

    # ------------------------------------------------------------------ obligations
    def obl(self, kind, anchor, desc=''):
        oid = '%s/%s/%s/%s' % (self.prop.id, self.cur_key(), kind, anchor)
        if oid not in self.obls:
            self.obls[oid] = Obligation(oid, kind, desc)
            self.order.append(oid)
        return self.obls[oid]

    def cur_key(self):
        c = self.cur
        if c.name == c.qualname or c.kind in ('lemma', 'client'):
            return c.target
        return '%s[%s]' % (c.target, c.name)

    def site(self, kind):
        k = (self.cur.name, kind)
        self.site_counts[k] = self.site_counts.get(k, 0) + 1
        return self.site_counts[k] - 1

    # ================================================================== verification of one contract
    def verify(self, c):
        from .exec import Exec
        self.cur = c
        self._init_heap = {}
        self._init_keys = {}
        self.heap_axioms = {}
        self._pending_closure = []
        ex = Exec(self, c)
        ex.run()
        pre = '%s/%s/' % (self.prop.id, self.cur_key())
        return [self.obls[o] for o in self.order if o.startswith(pre)]
