"""Per-property check driver: generate + discharge obligations in parallel, ground/bounded/native parts,
known findings, replay files, evidence."""
import glob
import hashlib
import importlib
import json
import multiprocessing as mp
import os
import re
import subprocess
import sys
import time
import traceback

ROOT = os.path.dirname(os.path.dirname(os.path.abspath(__file__)))
VENV_PY = '/venv/bin/python'


def prop_modules(pid):
    """A property may be split over several sidecar modules: Cxx_*.py, Cxxb_*.py, ... (each with its own Prop)."""
    mods = sorted(glob.glob(os.path.join(ROOT, 'contracts', pid + '_*.py')) + glob.glob(os.path.join(ROOT, 'contracts', pid + '[a-z]_*.py')))
    if not mods:
        raise SystemExit('no contracts for %s' % pid)
    return [os.path.basename(m)[:-3] for m in mods]


def load_prop(pid, modname=None):
    name = modname or prop_modules(pid)[0]
    mod = importlib.import_module('contracts.' + name)
    return mod.P, mod


def _contract_texts(c):
    out = list(c.requires) + list(c.ensures)
    for lc in (c.loops or {}).values():
        out += list(lc.inv) + list(lc.at_end) + list(lc.at_head) + list(lc.at_exit) + list(lc.lemmas)
        out += [m.where for m in (lc.modifies or [])]
        if lc.decreases:
            out.append(lc.decreases)
    return out


def _verify_renaming(eng, c, P, repo, res):
    """eng.verify(c); when a LOOP specification names a local variable the function no longer has (a renamed temporary), the other locals of
    the function are tried in its place.  Sound: loop invariants are proof aids -- whatever variable they speak about, they are accepted
    only if they hold on entry, are preserved and give the postcondition; requires / ensures are never rewritten."""
    import ast
    import copy
    import re
    from pyvc.engine import Engine, ContractError
    try:
        return eng.verify(c)
    except ContractError as e:
        m = re.search(r': name (\w+) \(line', str(e))
        if not m or not c.loops:
            raise
        missing = m.group(1)
        if any(re.search(r'\b%s\b' % re.escape(missing), t) for t in list(c.requires) + list(c.ensures)):
            raise
        first = e
    from pyvc.exec import locate
    fn = locate(repo, c.file, c.qualname).node
    names = sorted({n.id for n in ast.walk(fn) if isinstance(n, ast.Name) and isinstance(n.ctx, ast.Store)})
    used = ' '.join(_contract_texts(c))
    import difflib
    cands = [n for n in names if not re.search(r'\b%s\b' % re.escape(n), used)]
    cands.sort(key=lambda n: -difflib.SequenceMatcher(None, n, missing).ratio())
    from pyvc.solve import discharge_safe as _discharge
    for cand in cands[:6]:
        c2 = copy.copy(c)
        c2.loops = {}
        sub = lambda t: re.sub(r'\b%s\b' % re.escape(missing), cand, t)
        for k, lc in c.loops.items():
            l2 = copy.copy(lc)
            l2.inv, l2.at_end, l2.at_head, l2.at_exit = [sub(t) for t in lc.inv], [sub(t) for t in lc.at_end], [sub(t) for t in lc.at_head], [sub(t) for t in lc.at_exit]
            l2.lemmas = [sub(t) for t in lc.lemmas]
            if lc.decreases:
                l2.decreases = sub(lc.decreases)
            if lc.modifies:
                l2.modifies = [type(mm)(mm.field, sub(mm.where)) for mm in lc.modifies]
            if lc.locals:
                l2.locals = {(cand if kk == missing else kk): vv for kk, vv in lc.locals.items()}
            c2.loops[k] = l2
        if c.locals:
            c2.locals = {(cand if kk == missing else kk): vv for kk, vv in c.locals.items()}
        e2 = Engine(P, repo)
        try:
            obls = e2.verify(c2)
            # the reading is accepted only if every obligation generated under it is discharged (a quick pre-run; the regular run follows)
            for o in obls:
                _discharge(o, 20000)
            if any(o.status not in ('proved', 'sat') for o in obls):
                continue
            e2 = Engine(P, repo)
            obls = e2.verify(c2)
        except Exception:
            continue
        eng.__dict__.update(e2.__dict__)
        res['notes'] = list(getattr(e2, 'notes', [])) + ['loop specifications of %s: local %r is no longer in the function, read as %r' % (c.name, missing, cand)]
        eng.notes = res['notes']
        return obls
    raise first


def _work(args):
    pid, cname, repo, timeout_ms, par_hint = args[:5]
    modname = args[5] if len(args) > 5 else None
    import z3  # noqa
    from pyvc.engine import Engine, Unsupported, ContractError
    from pyvc.solve import discharge_safe as discharge
    P, _ = load_prop(pid, modname)
    c = P.contracts[cname]
    # contracts whose obligations are known to be slow carry their own budget (sized so that verdicts do not flip under load)
    timeout_ms = max(timeout_ms, int(getattr(c, 'solver_ms', 0) or 0))
    res = dict(contract=cname, target=c.target, kind=c.kind, level=c.level, obligations=[], error=None, gen_s=0.0,
               file=None, lines=None, sha=None, notes=[])
    t0 = time.time()
    try:
        eng = Engine(P, repo)
        if c.trusted:
            res['trusted'] = True
            return res
        obls = _verify_renaming(eng, c, P, repo, res)
        res['gen_s'] = time.time() - t0
        res['notes'] = eng.notes
        ex_info = getattr(eng, 'last_info', None)
        if ex_info is not None:
            res['file'], res['lines'], res['sha'] = ex_info.file, [ex_info.lineno, ex_info.end_lineno], ex_info.sha
        def pack(o):
            d = dict(id=o.id, kind=o.kind, desc=o.desc, status=o.status, backend=o.backend, time=round(o.time, 4),
                     detail=o.detail, model=o.model, goals=len(o.goals))
            if o.status not in ('proved', 'sat') or o is obls[0]:
                try:
                    h, g, w = o.goals[0]
                    d['smt'] = ('(hyps %d) goal: %s' % (len(h), g.sexpr()))[:1500]
                except Exception:
                    pass
            return d
        par = min(par_hint, max(1, len(obls) // 6))
        if par <= 1:
            for o in obls:
                discharge(o, timeout_ms)
                res['obligations'].append(pack(o))
        else:
            import json as _json
            kids = []
            for k in range(par):
                r, w = os.pipe()
                pid = os.fork()
                if pid == 0:
                    try:
                        os.close(r)
                        out = []
                        for i, o in enumerate(obls):
                            if i % par == k:
                                discharge(o, timeout_ms)
                                out.append((i, pack(o)))
                        with os.fdopen(w, 'w') as fh:
                            fh.write(_json.dumps(out, default=str))
                    finally:
                        os._exit(0)
                os.close(w)
                kids.append((pid, r))
            got = {}
            for pid, r in kids:
                with os.fdopen(r) as fh:
                    data = fh.read()
                os.waitpid(pid, 0)
                for i, d in (_json.loads(data) if data else []):
                    got[i] = d
            for i, o in enumerate(obls):
                res['obligations'].append(got.get(i) or dict(id=o.id, kind=o.kind, desc=o.desc, status='unknown', backend='lost',
                                                              time=0.0, detail='worker died', model=None, goals=len(o.goals)))
    except (Unsupported, ContractError) as e:
        res['error'] = '%s: %s' % (type(e).__name__, e)
        res['error_kind'] = type(e).__name__
    except Exception as e:
        res['error'] = 'CRASH ' + ''.join(traceback.format_exception(type(e), e, e.__traceback__))[-1500:]
        res['error_kind'] = 'crash'
    return res


def run_native(pid, what, repo, seed, budget, extra=None):
    """Run the native (CPython, real code) part of a property: ground / bounded / search / witness."""
    mod = os.path.join(ROOT, 'native', pid + '.py')
    if not os.path.exists(mod):
        return None
    cmd = [VENV_PY, '-B', os.path.join(ROOT, 'native', 'run.py'), pid, what, '--repo', repo, '--seed', str(seed),
           '--budget', str(budget)]
    if extra:
        cmd += ['--extra', json.dumps(extra)]
    env = dict(os.environ)
    env['PYTHONPATH'] = repo + os.pathsep + ROOT
    env['PYTHONDONTWRITEBYTECODE'] = '1'
    env.pop('PLASTEX_VERIF', None)
    try:
        r = subprocess.run(cmd, capture_output=True, text=True, env=env, timeout=budget * 4 + 600, cwd=ROOT)
    except subprocess.TimeoutExpired:
        return dict(error='native %s timed out' % what)
    if r.returncode != 0:
        return dict(error='native %s failed: %s' % (what, (r.stderr or r.stdout)[-1500:]))
    try:
        return json.loads(r.stdout.strip().splitlines()[-1])
    except Exception:
        return dict(error='native %s produced no JSON: %s' % (what, r.stdout[-500:] + r.stderr[-500:]))


def san(s):
    return re.sub(r'[^A-Za-z0-9_.-]+', '_', s)[:150]


def load_known():
    p = os.path.join(ROOT, 'known_findings.json')
    if os.path.exists(p):
        return json.load(open(p))
    return {'findings': [], 'fixed': []}


def main(argv=None):
    import argparse
    ap = argparse.ArgumentParser()
    ap.add_argument('prop')
    ap.add_argument('--tier', default=os.environ.get('VERIF_TIER', 'quick'))
    ap.add_argument('--replay', default=None)
    ap.add_argument('--only', default=None)
    ap.add_argument('-v', action='store_true')
    a = ap.parse_args(argv)
    pid = a.prop
    tier = a.tier if a.tier in ('quick', 'thorough') else 'quick'
    seed = int(os.environ.get('VERIF_SEED', '0') or 0)
    repo = os.environ.get('VERIF_REPO', '/repo')
    t0 = time.time()
    if a.replay:
        return replay(pid, a.replay, repo, seed)
    P, mod = load_prop(pid)
    # sized so that verdicts do not flip when all cores are busy: almost every obligation is discharged in milliseconds, the budget only
    # matters for the few slow ones (and for obligations that fail)
    timeout_ms = 45000 if tier == "quick" else 120000
    pairs = []
    for mn in prop_modules(pid):
        Pm, _ = load_prop(pid, mn)
        if Pm is not P:
            # further sidecar modules of the same property: their assumptions / unverified surroundings are reported too
            P.assumptions += [x for x in Pm.assumptions if x not in P.assumptions]
            P.unverified += [x for x in Pm.unverified if x not in P.unverified]
        pairs += [(mn, n, Pm.contracts[n].trusted) for n in Pm.order if (not a.only or n in a.only.split(','))]
    live = [1 for _, _, tr in pairs if not tr]
    par_hint = max(1, min(8, 16 // max(1, len(live))))
    jobs = [(pid, n, repo, timeout_ms, par_hint, mn) for mn, n, _ in pairs]
    ncpu = min(16, os.cpu_count() or 4, max(1, len(jobs)))
    nb = 15 if tier == 'quick' else 240
    from concurrent.futures import ThreadPoolExecutor
    with ThreadPoolExecutor(1) as tp:
        fut = tp.submit(run_native, pid, 'all', repo, seed, nb)
        with mp.get_context('fork').Pool(ncpu) as pool:
            results = pool.map(_work, jobs, chunksize=1)
        native = fut.result() or {}
    checker_errors, failing = [], []
    total = discharged = 0
    by_backend, solver_s = {}, 0.0
    functions, samples, trusted = [], [], []
    for r in results:
        if r.get('trusted'):
            trusted.append(r['contract'])
            continue
        if r['error']:
            failing.append(dict(id='%s/%s/regenerate' % (pid, r['target']), contract=r['contract'], status='not-regenerable',
                                desc=r['error'], model=None, kind='regenerate', error_kind=r.get('error_kind')))
            continue
        fn = dict(contract=r['contract'], target=r['target'], kind=r['kind'], level=r['level'], file=r['file'], lines=r['lines'],
                  sha256=r['sha'], obligations=len(r['obligations']), gen_s=round(r['gen_s'], 3))
        functions.append(fn)
        if not r['obligations']:
            checker_errors.append('%s generated zero obligations' % r['contract'])
        for o in r['obligations']:
            total += 1
            solver_s += o['time']
            if o['status'] in ('proved', 'sat'):
                discharged += 1
                by_backend[o['backend']] = by_backend.get(o['backend'], 0) + 1
                if len(samples) < 6 and o.get('smt'):
                    samples.append(dict(id=o['id'], desc=o['desc'], verdict=o['status'], backend=o['backend'], smt=o['smt'][:600]))
            elif o['status'] == 'vacuous':
                checker_errors.append('vacuous precondition: %s' % o['id'])
            else:
                o['contract'] = r['contract']
                failing.append(o)
    if native.get('error'):
        checker_errors.append(native['error'])
    ground = native.get('ground', [])
    bounded = native.get('bounded', [])
    nat_fail = native.get('failures', [])
    for g in ground:
        total += 1
        if g['ok']:
            discharged += 1
            by_backend['cpython-eval'] = by_backend.get('cpython-eval', 0) + 1
        else:
            failing.append(dict(id='%s/%s' % (pid, g['id']), contract=g['id'], status='refuted', desc=g.get('desc', ''),
                                model=None, kind='ground', witness=g.get('witness'), detail=g.get('detail', '')))
    for b in bounded:
        if not b['ok']:
            failing.append(dict(id='%s/%s' % (pid, b['id']), contract=b['id'], status='refuted', desc=b.get('desc', ''),
                                model=None, kind='bounded', witness=b.get('witness'), detail=b.get('detail', '')))
    # ---------------- decide
    known = load_known()
    kf = [k for k in known.get('findings', []) if k['property'] == pid]
    violations, known_seen = [], []
    os.makedirs(os.path.join(ROOT, 'replays', pid), exist_ok=True)
    for f in failing:
        witness = f.get('witness')
        detail = f.get('detail', '')
        if witness is None and f['kind'] not in ('ground', 'bounded'):
            # 1. counter-model -> native replay; 2. bounded native search for the contract
            extra = dict(contract=f['contract'], model=f.get('model'), obligation=f['id'])
            w = run_native(pid, 'find', repo, seed, 30 if tier == 'quick' else 120, extra) or {}
            if w.get('witness') is not None:
                witness, detail = w['witness'], w.get('detail', '')
        # failures the native search saw for the same contract
        if witness is None:
            for nf in nat_fail:
                if nf.get('contract') == f['contract']:
                    witness, detail = nf['witness'], nf.get('detail', '')
                    break
        matched = None
        for k in kf:
            if k.get('obligation') and not f['id'].startswith(k['obligation']):
                continue
            if k.get('contract') and k['contract'] != f['contract']:
                continue
            if witness is not None and k.get('witness_class'):
                chk = run_native(pid, 'classify', repo, seed, 10, dict(witness=witness, cls=k['witness_class'])) or {}
                if not chk.get('match'):
                    continue
            elif witness is None and k.get('requires_witness', True):
                continue
            matched = k
            break
        if matched:
            known_seen.append(matched['id'])
            print('KNOWN-FINDING: property=%s %s' % (pid, matched['what']))
            continue
        path = os.path.join(ROOT, 'replays', pid, san(f['id'].split('/', 1)[-1]) + '.json')
        rec = dict(property=pid, obligation=f['id'], contract=f['contract'], status=f['status'], desc=f.get('desc'),
                   solver_model=f.get('model'), solver_output=f.get('smt', '')[:3000], witness=witness, detail=detail,
                   repo=repo, kind=f['kind'])
        json.dump(rec, open(path, 'w'), indent=1, default=str)
        violations.append((f, path, witness))
    # a failing input found natively for a contract whose obligations were all discharged: the real code violates the
    # executable contract on a concrete input.  Reported as a violation with that witness (found by the bounded native
    # search, not by the proof); it also means the discharged obligations did not cover the failing behaviour.
    proved_contracts = {r['contract'] for r in results if not r['error']
                        and all(o['status'] in ('proved', 'sat') for o in r['obligations'])}
    reported = {f.get('contract') for f, _, _ in violations}
    for nf in nat_fail:
        if nf.get('contract') in reported or nf.get('contract') in {k.get('contract') for k in kf if k['id'] in known_seen}:
            continue
        path = os.path.join(ROOT, 'replays', pid, san('native_' + str(nf.get('contract'))) + '.json')
        rec = dict(property=pid, obligation='%s/native/%s' % (pid, nf.get('contract')), contract=nf.get('contract'), status='refuted',
                   desc='executable contract fails on the real code for a concrete input (bounded native search)',
                   witness=nf.get('witness'), detail=nf.get('detail', ''), repo=repo, kind='native',
                   note='all deductive obligations of this contract were discharged' if nf.get('contract') in proved_contracts else '')
        json.dump(rec, open(path, 'w'), indent=1, default=str)
        f = dict(id=rec['obligation'], contract=nf.get('contract'), status='refuted', desc=rec['desc'] + ': ' + str(nf.get('detail', ''))[:200], kind='native')
        violations.append((f, path, nf.get('witness')))
        reported.add(nf.get('contract'))
    wall = time.time() - t0
    assumptions = list(P.assumptions)
    for t in trusted:
        assumptions.append('trusted (assumed, body not verified): %s' % t)
    notes = sorted({n for r in results for n in r.get('notes', [])})
    level = getattr(P, 'level', 'proof')
    ev = dict(property_id=pid, tier=tier, seed=seed, level=level,
              coverage=dict(obligations=total, discharged=discharged,
                            checker_cmd='./check %s --tier %s' % (pid, tier),
                            trusted_base=['PyVC translation of the Python subset (DESIGN 2.2, assumption A1)', 'z3 5.1', 'cvc5 1.0.3 (for z3 unknowns)',
                                          'CPython 3.12 for ground obligations and replay'],
                            functions_under_contract=functions, backends=by_backend, solver_seconds=round(solver_s, 2),
                            ground=[dict(id=g['id'], ok=g['ok'], cases=g.get('cases')) for g in ground],
                            bounded=[dict(id=b['id'], ok=b['ok'], bound=b.get('bound'), cases=b.get('cases')) for b in bounded],
                            native_crosscheck=native.get('crosscheck'),
                            unverified_surroundings=P.unverified, known_findings_seen=known_seen,
                            engine_notes=notes, samples=samples or [dict(note='no sample')],
                            failing=[dict(id=f['id'], status=f['status']) for f, _, _ in violations]),
              assumptions=assumptions, wall_s=round(wall, 2), violations=len(violations))
    if level == 'exploration':
        # bounded stand-in: the exploration counts come from the native checks' own measurements
        st = [b.get('stats') or {} for b in bounded]
        ev['coverage'].update(evaluations=sum(int(b.get('cases') or 0) for b in bounded),
                              distinct_nontrivial=sum(int(x.get('distinct', 0)) for x in st),
                              rule=' | '.join('%s: %s' % (b['id'], (b.get('stats') or {}).get('rule', b.get('bound', ''))) for b in bounded),
                              samples=[x for y in st for x in (y.get('samples') or [])][:6] or [dict(note='no sample')],
                              exhaustive=False)
    # evidence is only recorded for runs against the repository itself; scratch trees (seeded changes) write elsewhere
    evdir = os.path.join(ROOT, 'evidence') if (os.path.realpath(repo) == '/repo' and not os.environ.get('VERIF_SCRATCH_EVIDENCE')) \
        else os.path.join(ROOT, '.tmp', 'evidence')
    os.makedirs(evdir, exist_ok=True)
    json.dump(ev, open(os.path.join(evdir, pid + '.json'), 'w'), indent=1, default=str)
    print('%s: %d obligations, %d discharged, %d bounded checks, %d ground, %.1fs' % (pid, total, discharged, len(bounded), len(ground), wall))
    if a.v:
        for r in results:
            print('  ', r['contract'], len(r['obligations']), r['error'] or '')
    if checker_errors and not violations:
        for e in checker_errors:
            print('CHECKER-ERROR: %s' % e)
        return 3
    if violations:
        for f, path, witness in violations:
            print('  failed obligation: %s [%s] %s' % (f['id'], f['status'], (f.get('desc') or '')[:200]))
            print('VIOLATION property=%s replay=%s%s' % (pid, path, '' if witness is not None else ' no-failing-input-found'))
        return 1
    return 0


def replay(pid, path, repo, seed):
    rec = json.load(open(path))
    if rec.get('witness') is not None:
        r = run_native(pid, 'witness', repo, seed, 30, dict(contract=rec['contract'], witness=rec['witness'])) or {}
        if r.get('error'):
            print('CHECKER-ERROR: %s' % r['error'])
            return 3
        if r.get('fails'):
            print('replay: contract %s still fails on %s: %s' % (rec['contract'], rec['witness'], r.get('detail')))
            print('VIOLATION property=%s replay=%s' % (pid, path))
            return 1
        print('replay: witness no longer fails')
        return 0
    # no witness: re-run the verifier on the contract and report the obligation
    res = _work((pid, rec['contract'], repo, 30000, 8))
    bad = [o for o in res['obligations'] if o['status'] not in ('proved', 'sat')]
    if res['error'] or bad:
        print('replay: obligation(s) still undischarged: %s' % (res['error'] or [o['id'] for o in bad]))
        print('VIOLATION property=%s replay=%s no-failing-input-found' % (pid, path))
        return 1
    print('replay: all obligations of %s discharged' % rec['contract'])
    return 0
