"""Calls: builtins, str/list/dict methods, spec functions, contract calls, allocation."""
import ast
import z3

from . import ty as T
from .ty import SV
from .engine import Unsupported, ContractError, fresh_name, zand, zor, LOGGERS
from .vals import (is_none, none_sv, unify, coerce, ite, mk_seq, seq_len, seq_arr, seq_eq, py_divmod)

I = z3.IntVal


class CallMixin:
    # ------------------------------------------------------------------ allocation
    def alloc(self, st):
        a = st.h(('alloc',))
        r = z3.Int(fresh_name('new'))
        st.assume(r == a + 1)
        st.seth(('alloc',), r)
        return r

    def new_list_from_seq(self, s, st):
        et = s.t.elem
        r = self.alloc(st)
        st.assume(self.eng.cls_of(r) == 0)      # a builtin container, instance of no declared class
        st.seth(self.eng.k_len(), z3.Store(st.h(self.eng.k_len()), r, seq_len(s)))
        ke = self.eng.k_elem(et)
        st.seth(ke, z3.Store(st.h(ke), r, seq_arr(s)))
        return SV(T.List(et), r)

    def new_dict(self, dt, st):
        r = self.alloc(st)
        st.assume(self.eng.cls_of(r) == 0)
        if 'ISDICT' in self.eng.prop.uf:
            st.assume(self.call_spec_or_uf('ISDICT', [SV(T.Ref('$any'), r)], st).z)
        kh = self.eng.k_dhas(dt.k, dt.v)
        st.seth(kh, z3.Store(st.h(kh), r, z3.K(dt.k.sort(), z3.BoolVal(False))))
        return SV(T.Dict(dt.k, dt.v), r)

    def new_object(self, cls, st):
        r = self.alloc(st)
        st.assume(self.eng.cls_of(r) == self.eng.class_ids[cls])
        dt = self.eng.class_dictof(cls)
        if dt is not None:
            # a new instance of a dict subclass is an empty dict
            kh = self.eng.k_dhas(dt.k, dt.v)
            st.seth(kh, z3.Store(st.h(kh), r, z3.K(dt.k.sort(), z3.BoolVal(False))))
        return SV(T.Ref(cls), r)

    # ------------------------------------------------------------------ list primitives (code mode, heap)
    def list_parts(self, lst, st):
        et = self.elem_type(lst)
        kl, ke = self.eng.k_len(), self.eng.k_elem(et)
        return et, kl, ke, self.rd(st, kl, lst.z), self.rd(st, ke, lst.z)

    def list_store(self, lst, st, n, arr, kl, ke):
        st.seth(kl, z3.Store(st.h(kl), lst.z, n))
        st.seth(ke, z3.Store(st.h(ke), lst.z, arr))

    @staticmethod
    def norm_idx_code(iz, n):
        iz = z3.simplify(iz)
        if z3.is_int_value(iz):
            return iz + n if iz.as_long() < 0 else iz
        return z3.If(iz < 0, iz + n, iz)

    def list_append(self, lst, v, st):
        et, kl, ke, n, arr = self.list_parts(lst, st)
        self.list_store(lst, st, n + 1, z3.Store(arr, n, coerce(v, et).z), kl, ke)

    def list_insert(self, lst, i, v, st):
        et, kl, ke, n, arr = self.list_parts(lst, st)
        j0 = self.norm_idx_code(i.z, n)
        j = z3.If(j0 < 0, I(0), z3.If(j0 > n, n, j0))
        k = z3.Int(fresh_name('k'))
        na = z3.Lambda([k], z3.If(k < j, z3.Select(arr, k), z3.If(k == j, coerce(v, et).z, z3.Select(arr, k - 1))))
        self.list_store(lst, st, n + 1, na, kl, ke)

    def list_pop(self, lst, i, st):
        et, kl, ke, n, arr = self.list_parts(lst, st)
        iz = I(-1) if i is None else i.z
        self.raise_if(st, z3.Or(n == 0, iz >= n, iz < -n), 'IndexError', 'pop')
        j = self.norm_idx_code(iz, n)
        k = z3.Int(fresh_name('k'))
        na = z3.Lambda([k], z3.If(k < j, z3.Select(arr, k), z3.Select(arr, k + 1)))
        res = z3.Select(arr, j)
        self.list_store(lst, st, n - 1, na, kl, ke)
        return self.loaded(SV(et, res), st)

    def list_setitem(self, lst, i, v, st):
        et, kl, ke, n, arr = self.list_parts(lst, st)
        self.raise_if(st, z3.Or(i.z >= n, i.z < -n), 'IndexError', 'list assignment')
        j = self.norm_idx_code(i.z, n)
        st.seth(ke, z3.Store(st.h(ke), lst.z, z3.Store(arr, j, coerce(v, et).z)))

    def list_reverse(self, lst, st):
        et, kl, ke, n, arr = self.list_parts(lst, st)
        k = z3.Int(fresh_name('k'))
        j = z3.Int(fresh_name('j'))
        # the reversed content as a fresh array related to the old one in both directions (triggers on either side)
        na = z3.Const(fresh_name('rev'), arr.sort())
        b1 = z3.Implies(z3.And(0 <= k, k < n), z3.Select(na, k) == z3.Select(arr, n - 1 - k))
        b2 = z3.Implies(z3.And(0 <= j, j < n), z3.Select(na, n - 1 - j) == z3.Select(arr, j))
        for bv, body, pat in ((k, b1, z3.Select(na, k)), (j, b2, z3.Select(arr, j))):
            try:
                st.assume(z3.ForAll([bv], body, patterns=[pat]))
            except z3.Z3Exception:
                st.assume(z3.ForAll([bv], body))
        st.seth(ke, z3.Store(st.h(ke), lst.z, na))

    def list_assign_seq(self, lst, s, st):
        et, kl, ke, n, arr = self.list_parts(lst, st)
        self.list_store(lst, st, seq_len(s), seq_arr(s), kl, ke)

    # ------------------------------------------------------------------ dict primitives
    def dict_set(self, d, k, v, st):
        dt = d.t
        kh, kv = self.eng.k_dhas(dt.k, dt.v), self.eng.k_dval(dt.k, dt.v)
        kz = coerce(k, dt.k).z
        has = self.rd(st, kh, d.z)
        val = self.rd(st, kv, d.z)
        st.seth(kh, z3.Store(st.h(kh), d.z, z3.Store(has, kz, z3.BoolVal(True))))
        st.seth(kv, z3.Store(st.h(kv), d.z, z3.Store(val, kz, coerce(v, dt.v).z)))

    def dict_del(self, d, k, st):
        dt = d.t
        kh = self.eng.k_dhas(dt.k, dt.v)
        kz = coerce(k, dt.k).z
        has = self.rd(st, kh, d.z)
        self.raise_if(st, z3.Not(z3.Select(has, kz)), 'KeyError', 'del')
        st.seth(kh, z3.Store(st.h(kh), d.z, z3.Store(has, kz, z3.BoolVal(False))))

    # ------------------------------------------------------------------ spec functions and UFs
    def uf(self, name, arg_ts, ret_t, extra=()):
        key = name
        if key not in self.eng.ufs:
            self.eng.ufs[key] = z3.Function(name, *([t.sort() for t in arg_ts] + list(extra) + [ret_t.sort()]))
        return self.eng.ufs[key]

    @staticmethod
    def forall_pat(bvs, body, pat):
        def has_ite(e, seen):
            if e.get_id() in seen:
                return False
            seen.add(e.get_id())
            if z3.is_app(e) and e.decl().kind() in (z3.Z3_OP_ITE, z3.Z3_OP_AND, z3.Z3_OP_OR, z3.Z3_OP_NOT, z3.Z3_OP_EQ):
                return True
            return any(has_ite(c, seen) for c in e.children())
        if has_ite(pat, set()):
            return z3.ForAll(bvs, body)        # z3 rejects (and warns about) patterns containing if-then-else / connectives
        try:
            return z3.ForAll(bvs, body, patterns=[pat])
        except z3.Z3Exception:
            return z3.ForAll(bvs, body)

    def spec_heap_keys(self, sf, pts, rt, st):
        """Heap arrays a heap-reading spec function depends on (dry run of its body, cached)."""
        if sf.heap_keys is not None:
            return sf.heap_keys
        from .engine import State
        self.dry_running.add(sf.name)
        saved = (self.spec, self.bound, self.eng.read_log, self.qvars)
        self.spec = True
        self.bound = [dict((p, SV(t, t.fresh(fresh_name('dry_' + p)))) for (p, _), t in zip(sf.params, pts))]
        self.eng.read_log = set()
        scratch = State(self.eng)
        scratch.old = scratch
        try:
            self.eval_spec_body(sf.body, scratch)
            keys = sorted((k for k in self.eng.read_log if k[0] != 'alloc'), key=lambda k: str(self.eng.hkey(k)))
        finally:
            self.spec, self.bound, self.eng.read_log, self.qvars = saved
            self.dry_running.discard(sf.name)
        sf.heap_keys = keys
        return keys

    def involves_bound(self, zs):
        if not self.qvars:
            return []
        bvs = [v for q in self.qvars for v in q]
        found = []
        seen = set()

        def walk(e):
            if e.get_id() in seen:
                return
            seen.add(e.get_id())
            if z3.is_const(e) and e.decl().kind() == z3.Z3_OP_UNINTERPRETED:
                for b in bvs:
                    if b.eq(e) and not any(b.eq(f) for f in found):
                        found.append(b)
            for c in e.children():
                walk(c)
        for z in zs:
            if z is not None and z3.is_expr(z):
                walk(z)
        return found

    def call_spec_or_uf(self, name, args, st, fuel=None):
        P = self.eng.prop
        if name in P.specs:
            return self.call_spec(P.specs[name], args, st, fuel)
        if name in BUILTIN_UF:
            pts, rt, axf = BUILTIN_UF[name]
            f = self.uf(name, pts, rt)
            zs = [coerce(a, t).z for a, t in zip(args, pts)]
            app = f(*zs)
            if axf is not None:
                bvs = self.involves_bound(zs)
                for i, ax in enumerate(axf(self, f, zs)):
                    if bvs:
                        ax = self.forall_pat(bvs, ax, app)
                    st.add_axiom((name, i, app.get_id()), ax)
            return SV(rt, app)
        if name in P.uf:
            pts, rt, axs = P.uf[name]
            pts = [self.eng.ptype(p) for p in pts]
            rt = self.eng.ptype(rt)
            f = self.uf(name, pts, rt)
            zs = [coerce(a, t).z for a, t in zip(args, pts)]
            app = f(*zs)
            if isinstance(rt, T.Seq):
                ax = rt.len(app) >= 0
                bvs = self.involves_bound(zs)
                if bvs:
                    ax = self.forall_pat(bvs, ax, app)
                st.add_axiom(('seqlen', name, app.get_id()), ax)
            return SV(rt, app)
        raise Unsupported('unknown function %s' % name)

    def call_spec(self, sf, args, st, fuel=None):
        pts = [self.eng.ptype(t) for _, t in sf.params]
        rt = self.eng.ptype(sf.returns)
        if len(args) != len(pts):
            raise ContractError('spec %s arity' % sf.name)
        cargs = [coerce(a, t) for a, t in zip(args, pts)]
        zs = [a.z for a in cargs]
        if not sf.heap and getattr(sf, 'heap_checked', None) is None and not self.dry_running:
            # a spec function whose body reads the heap must be declared heap-dependent: its value is a function of the heap arrays it
            # reads (otherwise its defining axiom, instantiated in two different heaps, would be inconsistent)
            sf.heap_checked = True
            try:
                keys = self.spec_heap_keys(sf, pts, rt, st)
            except Unsupported:
                keys = []
            sf.heap_keys = None
            if keys:
                raise ContractError('spec function %s reads the heap (%s): declare it with @P.spec(heap=True)' % (sf.name, keys))
        if sf.heap:
            if sf.name in self.dry_running:
                return SV(rt, rt.fresh(fresh_name('dry')))
            keys = self.spec_heap_keys(sf, pts, rt, st)
            hz = [st.h(k) for k in keys]
            f = self.uf('spec_' + sf.name, pts, rt, extra=[h.sort() for h in hz])
            app = f(*(zs + hz))
        else:
            f = self.uf('spec_' + sf.name, pts, rt)
            app = f(*zs)
        if fuel is None:
            fuel = self.fuel_left.get(sf.name, max(sf.fuel, self.force_fuel))
        depth_key = (sf.name, app.get_id())
        if fuel > 0 and depth_key not in st.axd and depth_key not in self.unfolding:
            self.unfolding.add(depth_key)
            saved_fuel = self.fuel_left.get(sf.name)
            self.fuel_left[sf.name] = fuel - 1
            was_spec, was_bound = self.spec, self.bound
            self.spec = True
            self.bound = [dict((p, a) for (p, _), a in zip(sf.params, cargs))]
            # heap-reading spec functions read the *current* heap of st; they must then take heap-dependent
            # values as arguments (we do not thread heaps through UFs) -- enforced by evaluating with a state
            # whose heap reads are forbidden unless the spec is marked heapdep
            try:
                body = self.eval_spec_body(sf.body, st)
            finally:
                self.spec, self.bound = was_spec, was_bound
                if saved_fuel is None:
                    self.fuel_left.pop(sf.name, None)
                else:
                    self.fuel_left[sf.name] = saved_fuel
                self.unfolding.discard(depth_key)
            ax = app == coerce(body, rt).z
            bvs = self.involves_bound(zs)
            if bvs:
                ax = self.forall_pat(bvs, ax, app)
            st.add_axiom(depth_key, ax)
        if isinstance(rt, T.Seq):
            ax2 = rt.len(app) >= 0
            bvs = self.involves_bound(zs)
            if bvs:
                ax2 = self.forall_pat(bvs, ax2, app)
            st.add_axiom(('seqlen', sf.name, app.get_id()), ax2)
        return SV(rt, app)

    def eval_spec_body(self, stmts, st):
        """Spec function bodies: a chain of `if c: return e` statements ending in `return e`."""
        s = stmts[0]
        if isinstance(s, ast.Return):
            return self.ev(s.value, st)
        if isinstance(s, ast.If):
            c = self.truthy(self.ev(s.test, st), st)
            a = self.eval_spec_body(s.body, st)
            rest = s.orelse if s.orelse else stmts[1:]
            b = self.eval_spec_body(rest, st)
            return ite(c, a, b)
        if isinstance(s, ast.Assign) and len(s.targets) == 1 and isinstance(s.targets[0], ast.Name):
            v = self.ev(s.value, st)
            self.bound[-1][s.targets[0].id] = v
            return self.eval_spec_body(stmts[1:], st)
        raise Unsupported('spec function body statement %s' % type(s).__name__)

    # ------------------------------------------------------------------ calls
    def ev_Call(self, n, st):
        f = n.func
        src = ast.unparse(n)
        if src in self.eng.prop.consts:
            return self.const_sv(self.eng.prop.consts[src])
        if n.keywords and any(k.arg is None for k in n.keywords):
            if ast.unparse(f) in self.c.calls:
                # f(..., **options) resolved to a contract by `calls`: the extra options are evaluated and dropped -- the callee's
                # contract must hold whatever they are
                for k in n.keywords:
                    if k.arg is None:
                        try:
                            self.ev(k.value, st)
                        except Unsupported:
                            pass
                n = ast.Call(func=n.func, args=n.args, keywords=[k for k in n.keywords if k.arg is not None])
                ast.copy_location(n, f)
            else:
                raise Unsupported('**kwargs call')
        if isinstance(f, ast.Name):
            return self.call_name(f.id, n, st)
        if isinstance(f, ast.Attribute):
            return self.call_method(f, n, st)
        fsrc = ast.unparse(f)
        if fsrc in self.c.calls:
            cc = self.eng.prop.contracts[self.c.calls[fsrc]]
            args, kw = self.args_of(n, st)
            if isinstance(f, ast.Subscript) and len(cc.params) == len(args) + len(kw) + 1:
                # table[key](args): the contract of the table takes the key as its first parameter
                args = [self.ev(f.slice, st)] + args
            return self.call_contract(cc, args, kw, st, n)
        raise Unsupported('call of %s' % ast.unparse(f))

    def args_of(self, n, st, cc=None):
        for a in n.args:
            if isinstance(a, ast.Starred):
                raise Unsupported('*args call')
        if cc is not None:
            # arguments of parameters declared 'opaque' (the contract does not depend on them) need not be expressible
            names = list(cc.params)
            out = []
            for i, a in enumerate(n.args):
                if i < len(names) and str(cc.params[names[i]]).split('=')[0].strip() == 'opaque':
                    try:
                        out.append(self.ev(a, st))
                    except Unsupported:
                        out.append(SV(T.Opaque, z3.IntVal(0)))
                else:
                    out.append(self.ev(a, st))
            return out, {k.arg: self.ev(k.value, st) for k in n.keywords}
        return [self.ev(a, st) for a in n.args], {k.arg: self.ev(k.value, st) for k in n.keywords}

    def call_name(self, name, n, st):
        P = self.eng.prop
        src = ast.unparse(n.func)
        if src in self.c.calls:
            cc = P.contracts[self.c.calls[src]]
            args, kw = self.args_of(n, st, cc)
            return self.call_contract(cc, args, kw, st, n)
        if name == 'old':
            if st.old is None:
                raise ContractError('old() without old state')
            was = self.in_old
            self.in_old = True
            try:
                o = st.old
                tmp = o.copy()
                tmp.locals = {**{k: v for k, v in st.locals.items() if v is not None}, **{k: v for k, v in o.locals.items() if v is not None}}
                tmp.old = o
                tmp.axd = st.axd
                tmp.pc = st.pc
                tmp.pcd = st.pcd
                v = self.ev(n.args[0], tmp)
                return v
            finally:
                self.in_old = was
        if name == 'entry':
            # spec (Loop.at_exit): value of the expression when the loop being left was entered
            es = getattr(self, 'entry_stack', [])
            if not es:
                raise ContractError('entry() outside Loop.at_exit')
            h = es[-1]
            tmp = h.copy()
            tmp.locals = {**{k: v for k, v in st.locals.items() if v is not None}, **{k: v for k, v in h.locals.items() if v is not None}}
            tmp.old = st.old
            tmp.axd = st.axd
            tmp.pc = st.pc
            tmp.pcd = st.pcd
            return self.ev(n.args[0], tmp)
        if name == 'head':
            # spec: value of the expression at the head of the current iteration of the innermost loop
            hs = getattr(self, 'head_stack', [])
            if not hs:
                raise ContractError('head() outside a loop')
            h = hs[-1][1]
            if len(n.args) == 2:
                # head(e, k): at the head of the current iteration of the enclosing loop number k
                want = n.args[1].value
                cands = [snap for o_, snap in hs if o_ == want]
                if not cands:
                    raise ContractError('head(.., %s): not inside loop %s' % (want, want))
                h = cands[-1]
            tmp = h.copy()
            tmp.locals = {**{k: v for k, v in st.locals.items() if v is not None}, **{k: v for k, v in h.locals.items() if v is not None}}
            tmp.old = st.old
            tmp.axd = st.axd
            tmp.pc = st.pc
            tmp.pcd = st.pcd
            return self.ev(n.args[0], tmp)
        if name in ('all', 'any') and len(n.args) == 1 and isinstance(n.args[0], (ast.GeneratorExp, ast.ListComp)):
            return SV(T.Bool, self.quantify(n.args[0], st, name == 'all'))
        if name == 'implies':
            a = self.truthy(self.ev(n.args[0], st), st)
            b = self.truthy(self.ev(n.args[1], st), st)
            return SV(T.Bool, z3.Implies(a, b))
        if name == 'iff':
            a = self.truthy(self.ev(n.args[0], st), st)
            b = self.truthy(self.ev(n.args[1], st), st)
            return SV(T.Bool, a == b)
        if name in P.specs or name in P.uf or name in BUILTIN_UF:
            args, _ = self.args_of(n, st)
            return self.call_spec_or_uf(name, args, st)
        if name in P.contracts and P.contracts[name].kind == 'lemma' and self.spec:
            args, kw = self.args_of(n, st)
            return self.lemma_instance(P.contracts[name], args, st)
        if name in P.contracts and P.contracts[name].kind in ('function', 'lemma'):
            args, kw = self.args_of(n, st)
            return self.call_contract(P.contracts[name], args, kw, st, n)
        if name in P.classes and name != 'type':
            ctor = self.eng.find_method(name, '__init__')
            args, kw = self.args_of(n, st)
            obj = self.new_object(name, st)
            if ctor is not None:
                self.call_contract(ctor, [obj] + args, kw, st, n)
            elif args or kw:
                raise Unsupported('constructor %s with arguments but without contract' % name)
            return obj
        if name in st.locals and st.locals[name] is not None and isinstance(st.locals[name].t, T.Ref) \
                and st.locals[name].t.cls != '$any':
            cc = self.eng.find_method(st.locals[name].t.cls, '__call__')
            if cc is not None:
                args, kw = self.args_of(n, st)
                return self.call_contract(cc, [st.locals[name]] + args, kw, st, n)
        m = getattr(self, 'bi_' + name, None)
        if m is not None:
            return m(n, st)
        raise Unsupported('call to %s (line %s)' % (name, n.lineno))

    def lemma_instance(self, c, args, st):
        """Spec mode: instantiate a proved lemma (requires -> ensures) as a hypothesis; value True."""
        ps = self.param_specs(c)
        env = {}
        for (nm, t, _, _), a in zip(ps, args):
            env[nm] = coerce(a, t)
        zs = [v.z for v in env.values()]
        was_bound = self.bound
        self.bound = [env]
        try:
            req = zand([self.truthy(self.ev(ast.parse(r.strip(), mode='eval').body, st), st) for r in c.requires])
            ens = zand([self.truthy(self.ev(ast.parse(e.strip(), mode='eval').body, st), st) for e in c.ensures])
        finally:
            self.bound = was_bound
        ax = z3.Implies(req, ens)
        bvs = self.involves_bound(zs)
        if bvs:
            ax = z3.ForAll(bvs, ax)
        st.add_axiom(('lemma', c.name) + tuple(z.get_id() for z in zs), ax)
        return SV(T.Bool, z3.BoolVal(True))

    # ---- builtins
    def bi_len(self, n, st):
        v = self.ev(n.args[0], st)
        if isinstance(v.t, T.Opt) and not v.t.reflike:
            self.raise_if(st, v.t.is_none(v.z), 'TypeError', 'len of None')
            v = SV(v.t.t, v.t.val(v.z))
        if isinstance(v.t, T._Str):
            return SV(T.Int, z3.Length(v.z))
        if isinstance(v.t, T.Tuple):
            return SV(T.Int, I(len(v.t.ts)))
        if self.is_listlike(v):
            if not isinstance(v.t, T.Seq):
                self.nonnull(v, st, 'len')
            return SV(T.Int, seq_len(self.as_seq(v, st)))
        raise Unsupported('len of %s' % v.t)

    def bi_divmod(self, n, st):
        a, b = self.ev(n.args[0], st), self.ev(n.args[1], st)
        self.raise_if(st, b.z == 0, 'ZeroDivisionError', 'divmod')
        q, r = py_divmod(a.z, b.z)
        return self.mk_tuple([SV(T.Int, q), SV(T.Int, r)])

    def bi_int(self, n, st):
        v = self.ev(n.args[0], st)
        if isinstance(v.t, T._Int):
            return v
        if isinstance(v.t, T._Bool):
            return coerce(v, T.Int)
        if isinstance(v.t, T._Real):
            # truncation toward zero
            fl = z3.ToInt(v.z)
            return SV(T.Int, z3.If(v.z >= 0, fl, z3.If(z3.ToReal(fl) == v.z, fl, fl + 1)))
        if isinstance(v.t, T._Str):
            return self.str_to_int(v, st)
        raise Unsupported('int() of %s' % v.t)

    def str_to_int(self, v, st):
        raise Unsupported('int(str)')

    def bi_print(self, n, st):
        for a in n.args:
            try:
                self.ev(a, st)
            except Unsupported:
                self.eng.notes.append('print argument not modelled at line %s' % n.lineno)
        return none_sv()

    def bi_str(self, n, st):
        if not n.args:
            return SV(T.Str, z3.StringVal(''))
        return self.to_str(self.ev(n.args[0], st), st)

    def bi_bool(self, n, st):
        return SV(T.Bool, self.truthy(self.ev(n.args[0], st), st))

    def bi_abs(self, n, st):
        v = self.ev(n.args[0], st)
        return SV(v.t, z3.If(v.z >= 0, v.z, -v.z))

    def bi_min(self, n, st):
        if len(n.args) == 2:
            a, b = [self.ev(x, st) for x in n.args]
            return ite(a.z <= b.z, a, b)
        if len(n.args) == 1:
            return self.extremum(self.ev(n.args[0], st), st, False)
        raise Unsupported('min form')

    def bi_max(self, n, st):
        if len(n.args) == 2:
            a, b = [self.ev(x, st) for x in n.args]
            return ite(a.z >= b.z, a, b)
        if len(n.args) == 1:
            return self.extremum(self.ev(n.args[0], st), st, True)
        raise Unsupported('max form')

    def extremum(self, v, st, is_max):
        """max / min of a non-empty sequence of ints: an element that bounds all the others."""
        s = self.as_seq(v, st)
        self.raise_if(st, seq_len(s) <= 0, 'ValueError', 'max of empty sequence')
        m = z3.Int(fresh_name('max'))
        w = z3.Int(fresh_name('argmax'))
        k = z3.Int(fresh_name('k'))
        st.assume(z3.And(0 <= w, w < seq_len(s), z3.Select(seq_arr(s), w) == m))
        e = z3.Select(seq_arr(s), k)
        st.assume(z3.ForAll([k], z3.Implies(z3.And(0 <= k, k < seq_len(s)), (m >= e) if is_max else (m <= e)), patterns=[e]))
        return SV(T.Int, m)

    def bi_ord(self, n, st):
        v = self.ev(n.args[0], st)
        self.raise_if(st, z3.Length(v.z) != 1, 'TypeError', 'ord')
        return SV(T.Int, z3.StrToCode(v.z))

    def bi_chr(self, n, st):
        v = self.ev(n.args[0], st)
        self.raise_if(st, z3.Or(v.z < 0, v.z > 0x10FFFF), 'ValueError', 'chr')
        return SV(T.Str, z3.StrFromCode(v.z))

    def bi_isinstance(self, n, st):
        v = self.ev(n.args[0], st)
        cn = n.args[1]
        names = [e for e in cn.elts] if isinstance(cn, ast.Tuple) else [cn]
        conds = []
        for e in names:
            nm = ast.unparse(e)
            nm = nm.split('.')[-1] if nm not in self.eng.prop.classes else nm
            conds.append(self.isinstance_of(v, nm, st))
        return SV(T.Bool, zor(conds))

    def isinstance_of(self, v, nm, st):
        prim = {'str': T._Str, 'int': (T._Int, T._Bool), 'bool': T._Bool, 'float': T._Real}
        if nm in prim:
            if isinstance(v.t, T.Opt) and not v.t.reflike:
                return z3.And(z3.Not(v.t.is_none(v.z)), z3.BoolVal(isinstance(v.t.t, prim[nm])))
            return z3.BoolVal(isinstance(v.t, prim[nm]))
        if nm == 'dict' and isinstance(v.t, T.Ref) and 'ISDICT' in self.eng.prop.uf:
            return z3.And(v.z != 0, self.call_spec_or_uf('ISDICT', [v], st).z)
        if nm in ('list', 'dict', 'tuple', 'slice'):
            m = {'list': T.List, 'dict': T.Dict, 'tuple': T.Tuple}
            if nm == 'slice':
                return z3.BoolVal(False)
            if nm == 'list' and isinstance(v.t, T.Ref) and v.t.cls != '$any' and self.eng.class_elem(v.t.cls) is not None:
                return v.z != 0
            return z3.BoolVal(isinstance(v.t, m[nm]))
        if isinstance(v.t, T.Ref):
            if nm not in self.eng.prop.classes:
                raise Unsupported('isinstance against undeclared class %s' % nm)
            return z3.And(v.z != 0, self.eng.instance_of(v.z, nm))
        if is_none(v) or not v.t.reflike:
            return z3.BoolVal(False)
        return z3.BoolVal(False)

    def bi_type(self, n, st):
        # type(x) as a value: the class object of x, an object of the declared class 'type' (attribute stores on it are
        # stores to class attributes).  Determined by the dynamic class of x.
        if 'type' not in self.eng.prop.classes or len(n.args) != 1:
            raise Unsupported('type() outside a supported comparison')
        v = self.ev(n.args[0], st)
        if not isinstance(v.t, T.Ref):
            raise Unsupported('type() of a non-object')
        self.nonnull(v, st)
        f = z3.Function('typeobj', z3.IntSort(), z3.IntSort())
        z = f(self.eng.cls_of(v.z))
        st.assume(z > 0)
        st.assume(z <= st.h(('alloc',)))
        r = SV(T.Ref('type'), z)
        self.assume_class(r, st)
        return r

    def dict_iter_source(self, node, st):
        """(dict value, mode) when `node` is D.keys() / D.values() / D.items() on a builtin dict (or the builtin behaviour
        of a dict subclass: dict.keys(X), or X.keys() without an overriding contract); None otherwise."""
        if not (isinstance(node, ast.Call) and isinstance(node.func, ast.Attribute) and node.func.attr in ('items', 'values', 'keys')):
            return None
        f = node.func
        if isinstance(f.value, ast.Name) and f.value.id == 'dict' and 'dict' not in st.locals and len(node.args) == 1:
            x = self.ev(node.args[0], st)
            dv = x if isinstance(x.t, T.Dict) else self.dictview(x)
            if dv is None:
                return None
            self.nonnull(x, st)
            return dv, f.attr
        if node.args:
            return None
        if ast.unparse(f) in self.c.calls:
            return None
        d = self.ev(f.value, st)
        if isinstance(d.t, T.Dict):
            self.nonnull(d, st)
            return d, f.attr
        if isinstance(d.t, T.Ref) and d.t.cls != '$any' and self.eng.find_method(d.t.cls, f.attr) is None and self.dictview(d) is not None:
            self.nonnull(d, st)
            return self.dictview(d), f.attr
        return None

    def bi_list(self, n, st):
        if not n.args:
            raise Unsupported('list() without hint')
        if not self.spec:
            ds = self.dict_iter_source(n.args[0], st)
            if ds is not None:
                return self.new_list_from_seq(self.dict_snapshot(ds[0], ds[1], st), st)
        v = self.ev(n.args[0], st)
        if isinstance(v.t, T._Str):
            k = z3.Int(fresh_name('k'))
            s = mk_seq(T.Str, z3.Length(v.z), z3.Lambda([k], z3.SubString(v.z, k, 1)))
        else:
            s = self.as_seq(v, st)
        return s if self.spec else self.new_list_from_seq(s, st)

    def bi_chars(self, n, st):
        """spec: the characters of a string as a sequence of one-character strings."""
        v = self.ev(n.args[0], st)
        k = z3.Int(fresh_name('k'))
        return mk_seq(T.Str, z3.Length(v.z), z3.Lambda([k], z3.SubString(v.z, k, 1)))

    def bi_seq(self, n, st):
        return self.as_seq(self.ev(n.args[0], st), st)

    def bi_range(self, n, st):
        raise Unsupported('range() as a value')

    def bi_hasattr(self, n, st):
        v = self.ev(n.args[0], st)
        nm = self.eng.fid(n.args[1].value, v.t.cls if isinstance(v.t, T.Ref) else None)
        return SV(T.Bool, z3.Select(st.h(self.eng.k_has(nm)), v.z))

    def bi_getattr(self, n, st):
        v = self.ev(n.args[0], st)
        if not isinstance(n.args[1], ast.Constant):
            am = self.attrmap_of(v)
            if am is None:
                raise Unsupported('getattr with computed name')
            d = self.getattr(v, am, st, n)
            key = self.ev(n.args[1], st)
            has = self.rd(st, self.eng.k_dhas(d.t.k, d.t.v), d.z)
            val = self.rd(st, self.eng.k_dval(d.t.k, d.t.v), d.z)
            kz = coerce(key, d.t.k).z
            got = self.loaded(SV(d.t.v, z3.Select(val, kz)), st)
            if len(n.args) == 2:
                self.raise_if(st, z3.Not(z3.Select(has, kz)), 'AttributeError', 'getattr')
                return got
            return ite(z3.Select(has, kz), got, self.ev(n.args[2], st))
        nm = n.args[1].value
        if isinstance(v.t, T.Ref) and v.t.cls != '$any' and nm in getattr(self.eng.prop, 'always_attrs', ()):
            return self.getattr(v, nm, st, n)       # attribute with a class-level default: always present
        if isinstance(v.t, T._Str) and ('strattr_' + nm) in self.eng.prop.uf:
            # attribute of a str subclass instance (Text node): uninterpreted "attribute value or default"
            return self.call_spec_or_uf('strattr_' + nm, [v], st)
        if len(n.args) == 2:
            return self.getattr(v, nm, st, n)
        d = self.ev(n.args[2], st)
        nm = self.eng.fid(nm, v.t.cls if isinstance(v.t, T.Ref) else None)
        has = z3.Select(st.h(self.eng.k_has(nm)), v.z)
        ft = self.eng.field_type(nm)
        val = SV(ft, z3.Select(st.h(self.eng.k_field(nm)), v.z))
        return ite(has, val, d)

    def attrmap_of(self, v):
        if isinstance(v.t, T.Ref) and v.t.cls != '$any':
            for c in self.eng.class_chain(v.t.cls):
                if self.eng.prop.classes[c].attrmap:
                    return self.eng.prop.classes[c].attrmap
        return None

    def bi_setattr(self, n, st):
        v = self.ev(n.args[0], st)
        if isinstance(n.args[1], ast.Constant):
            self.setattr(v, n.args[1].value, self.ev(n.args[2], st), st)
            return none_sv()
        am = self.attrmap_of(v)
        if am is None:
            raise Unsupported('setattr with computed name')
        d = self.getattr(v, am, st, n)
        self.dict_set(d, self.ev(n.args[1], st), self.ev(n.args[2], st), st)
        return none_sv()

    def bi_set_of(self, n, st):
        """spec: set of the elements of a sequence."""
        s = self.as_seq(self.ev(n.args[0], st), st)
        x = s.t.elem.fresh(fresh_name('x'))
        k = z3.Int(fresh_name('k'))
        body = z3.Exists([k], z3.And(0 <= k, k < seq_len(s), z3.Select(seq_arr(s), k) == x))
        return SV(T.Set(s.t.elem), z3.Lambda([x], body))

    def bi_keys(self, n, st):
        """spec: key set of a dict."""
        d = self.ev(n.args[0], st)
        return SV(T.Set(d.t.k), z3.Select(st.h(self.eng.k_dhas(d.t.k, d.t.v)), d.z))

    def bi_ghost(self, n, st):
        nm = n.args[0].value
        t = self.eng.ptype(self.eng.prop.ghosts[nm])
        return SV(t, st.h(('g', nm, t)))

    def bi_next(self, n, st):
        """next((x for x in SEQ if P(x)), default): the first element satisfying P, else default."""
        if len(n.args) in (1, 2) and not isinstance(n.args[0], ast.GeneratorExp):
            it = self.ev(n.args[0], st)
            nx = self.eng.find_method(it.t.cls, '__next__') if isinstance(it.t, T.Ref) and it.t.cls != '$any' else None
            if nx is None:
                raise Unsupported('next() on %s' % it.t)
            self.nonnull(it, st, 'next')
            if len(n.args) == 1:
                return self.call_contract(nx, [it], {}, st, n)
            # next(it, default): StopIteration is replaced by the default
            stop = nx.raises['StopIteration'][4:]
            c_stop = self.spec_eval(stop, st.copy(), {'self': it}, old=st.copy())
            br = st.copy()
            br.assume(z3.Not(c_stop), True)
            n0 = len(self.exits)
            v = self.call_contract(nx, [it], {}, br, n)
            self.exits[n0:] = [e for e in self.exits[n0:] if e[1] != 'StopIteration']
            dflt = self.ev(n.args[1], st)
            for e in br.pc[len(st.pc) + 1:]:
                st.assume(z3.Implies(z3.Not(c_stop), e))
            for k in br.heap:
                x, y = br.heap[k], st.h(k)
                if x is not y:
                    st.heap[k] = z3.If(c_stop, y, x)
            st.axd = {**st.axd, **br.axd}
            return ite(c_stop, dflt, v)
        if len(n.args) != 2 or not isinstance(n.args[0], ast.GeneratorExp):
            raise Unsupported('next() form')
        g = n.args[0]
        if len(g.generators) != 1 or not isinstance(g.elt, ast.Name) or not isinstance(g.generators[0].target, ast.Name) \
                or g.elt.id != g.generators[0].target.id:
            raise Unsupported('next() over a mapping generator')
        gen = g.generators[0]
        it = gen.iter
        if isinstance(it, ast.Call) and isinstance(it.func, ast.Attribute) and it.func.attr in ('values', 'keys', 'items') and not it.args:
            d = self.ev(it.func.value, st)
            self.nonnull(d, st)
            s = self.dict_snapshot(d, it.func.attr, st)
        else:
            s = self.as_seq(self.ev(it, st), st)
        dflt = self.ev(n.args[1], st)

        def pred(i):
            self.bound.append({gen.target.id: SV(s.t.elem, z3.Select(seq_arr(s), i))})
            was = self.spec
            self.spec = True
            try:
                return zand([self.truthy(self.ev(c, st), st) for c in gen.ifs])
            finally:
                self.spec = was
                self.bound.pop()
        j = z3.Int(fresh_name('first'))
        q = z3.Int(fresh_name('q'))
        found = z3.And(0 <= j, j < seq_len(s), pred(j), z3.ForAll([q], z3.Implies(z3.And(0 <= q, q < j), z3.Not(pred(q)))))
        none = z3.ForAll([q], z3.Implies(z3.And(0 <= q, q < seq_len(s)), z3.Not(pred(q))))
        isf = z3.Bool(fresh_name('found'))
        st.assume(z3.Implies(isf, found))
        st.assume(z3.Implies(z3.Not(isf), none))
        return ite(isf, self.loaded(SV(s.t.elem, z3.Select(seq_arr(s), j)), st), dflt)

    def bi_before(self, n, st):
        """spec: text before the first occurrence of sep (whole string if absent) -- str.split(sep, maxsplit=1)[0]."""
        s, sep = self.ev(n.args[0], st), self.ev(n.args[1], st)
        i = z3.IndexOf(s.z, sep.z, 0)
        return SV(T.Str, z3.If(i < 0, s.z, z3.SubString(s.z, 0, i)))

    def bi_after(self, n, st):
        """spec: text after the first occurrence of sep -- str.split(sep, maxsplit=1)[1]."""
        s, sep = self.ev(n.args[0], st), self.ev(n.args[1], st)
        i = z3.IndexOf(s.z, sep.z, 0)
        return SV(T.Str, z3.SubString(s.z, i + z3.Length(sep.z), z3.Length(s.z)))

    def bi_find(self, n, st):
        s, sep = self.ev(n.args[0], st), self.ev(n.args[1], st)
        return SV(T.Int, z3.IndexOf(s.z, sep.z, 0))

    def bi_unfold(self, n, st):
        """spec: evaluate the argument with opaque spec functions unfolded once."""
        was = self.force_fuel
        self.force_fuel = 1
        try:
            return self.ev(n.args[0], st)
        finally:
            self.force_fuel = was

    def bi_as_dict(self, n, st):
        """spec: view an arbitrary object reference as a dictionary of the given type (meaningful when it is one)."""
        v = self.ev(n.args[0], st)
        t = self.eng.ptype(n.args[1].value)
        return SV(t, v.z)

    def bi_replace(self, n, st):
        """spec: s.replace(a, b) with the same term structure as the code-level translation."""
        s_, a, b = [self.ev(x, st) for x in n.args]
        return SV(T.Str, self.str_replace(s_.z, a, b, st))

    def bi_fresh(self, n, st):
        """spec: the reference was allocated after function entry."""
        v = self.ev(n.args[0], st)
        return SV(T.Bool, v.z > st.old.h(('alloc',)))

    def bi_allocated(self, n, st):
        v = self.ev(n.args[0], st)
        return SV(T.Bool, z3.And(v.z > 0, v.z <= st.h(('alloc',))))

    def bi_older(self, n, st):
        """spec (ghost): object a was allocated before object b (allocation order of the two references)."""
        a, b = self.ev(n.args[0], st), self.ev(n.args[1], st)
        return SV(T.Bool, z3.And(a.z > 0, a.z < b.z))

    def bi_refid(self, n, st):
        """spec (ghost): allocation rank of an object -- a termination measure for recursion along older-pointing links."""
        return SV(T.Int, self.ev(n.args[0], st).z)

    def bi_boundmethod(self, n, st):
        """spec: the bound method object obj.name (value of an attribute read that names a method)."""
        o = self.ev(n.args[0], st)
        return self.bound_method(o, n.args[1].value)

    def bound_method(self, o, name):
        f = z3.Function('boundmethod', z3.IntSort(), z3.StringSort(), z3.IntSort())
        return SV(T.Opaque, f(o.z, z3.StringVal(name)))

    def bi_isnone(self, n, st):
        v = self.ev(n.args[0], st)
        return SV(T.Bool, self.identical(v, none_sv()))

    def bi_unopt(self, n, st):
        v = self.ev(n.args[0], st)
        if isinstance(v.t, T.Opt) and not v.t.reflike:
            return SV(v.t.t, v.t.val(v.z))
        if v.t.reflike:
            return SV(v.t.nonnull(), v.z)
        return v

    def args_fit(self, c, args, kw):
        for i, (nm, t, hasd, d) in enumerate(self.param_specs(c)):
            v = args[i] if i < len(args) else kw.get(nm)
            if v is None or isinstance(t, T._Opaque):
                continue
            try:
                coerce(v, t)
            except Unsupported:
                return False
        return True

    # ------------------------------------------------------------------ method calls
    def call_method(self, f, n, st):
        src = ast.unparse(f)
        P = self.eng.prop
        if src in self.c.calls:
            target = self.c.calls[src]
            args0, kw = self.args_of(n, st)
            # overloads: a list of contracts, the first whose parameter types fit the (static) argument types is the callee
            cands = target if isinstance(target, (list, tuple)) else [target]
            for ci, cn in enumerate(cands):
                cc = P.contracts[cn]
                args = args0
                if list(cc.params)[:1] == ['self'] and not (isinstance(f.value, ast.Name) and f.value.id not in st.locals):
                    args = [self.ev(f.value, st)] + args0
                if ci + 1 < len(cands) and not self.args_fit(cc, args, kw):
                    continue
                return self.call_contract(cc, args, kw, st, n)
        # logging calls are skipped after evaluating the arguments (assumption A6)
        root = f.value
        while isinstance(root, ast.Attribute):
            root = root.value
        if isinstance(root, ast.Name) and root.id in LOGGERS and root.id not in st.locals:
            for a in n.args:
                try:
                    self.ev(a, st)
                except Unsupported:
                    self.eng.notes.append('logger argument not modelled at line %s' % n.lineno)
            return none_sv()
        # Class.method(self, ...) explicit base-class call
        if isinstance(f.value, ast.Name) and f.value.id in P.classes and f.value.id not in st.locals:
            c = self.eng.find_method(f.value.id, f.attr)
            if c is not None:
                args, kw = self.args_of(n, st)
                return self.call_contract(c, args, kw, st, n)
        if isinstance(f.value, ast.Name) and f.value.id == 'dict' and 'dict' not in st.locals and n.args:
            # dict.method(self, ...): the builtin dict behaviour of an instance of a declared dict subclass
            recv = self.ev(n.args[0], st)
            dv = self.dictview(recv)
            if dv is not None:
                self.nonnull(recv, st)
                rest = [self.ev(a, st) for a in n.args[1:]]
                if f.attr == '__getitem__':
                    return self.getitem(dv, rest[0], st, n)
                if f.attr == '__contains__':
                    return SV(T.Bool, self.contains(dv, rest[0], st))
                if f.attr == '__setitem__':
                    self.dict_set(dv, rest[0], rest[1], st)
                    return none_sv()
                if f.attr in ('__init__', 'update') and len(rest) == 1 and isinstance(rest[0].t, T.Dict) and rest[0].t.k == dv.t.k:
                    # dict.__init__(self, d) / dict.update(self, d): every item of d is stored into self
                    src_ = rest[0]
                    self.nonnull(src_, st)
                    dt = dv.t
                    kh, kv = self.eng.k_dhas(dt.k, dt.v), self.eng.k_dval(dt.k, dt.v)
                    sh = self.rd(st, self.eng.k_dhas(src_.t.k, src_.t.v), src_.z)
                    sv_ = self.rd(st, self.eng.k_dval(src_.t.k, src_.t.v), src_.z)
                    has, val = self.rd(st, kh, dv.z), self.rd(st, kv, dv.z)
                    kk = z3.Const(fresh_name('k'), dt.k.sort())
                    st.seth(kh, z3.Store(st.h(kh), dv.z, z3.Lambda([kk], z3.Or(z3.Select(has, kk), z3.Select(sh, kk)))))
                    st.seth(kv, z3.Store(st.h(kv), dv.z, z3.Lambda([kk], z3.If(z3.Select(sh, kk), z3.Select(sv_, kk), z3.Select(val, kk)))))
                    return none_sv()
                n2 = ast.copy_location(ast.Call(func=n.func, args=n.args[1:], keywords=n.keywords), n)
                return self.dict_method(dv, f.attr, n2, st)
        recv = self.ev(f.value, st)
        meth = f.attr
        t = recv.t
        if isinstance(t, T.Ref) and t.cls != '$any':
            c = self.eng.find_method(t.cls, meth)
            if c is not None:
                self.nonnull(recv, st)
                args, kw = self.args_of(n, st)
                return self.call_contract(c, [recv] + args, kw, st, n)
        if isinstance(t, T.Ref) and t.cls != '$any' and meth in self.eng.prop.field_variants:
            # a field holding a callable object (class with a __call__ contract)
            fv = self.getattr(recv, meth, st, n)
            if isinstance(fv.t, T.Ref) and fv.t.cls != '$any':
                cc = self.eng.find_method(fv.t.cls, '__call__')
                if cc is not None:
                    args, kw = self.args_of(n, st)
                    return self.call_contract(cc, [fv] + args, kw, st, n)
        if isinstance(t, T._Str):
            return self.str_method(recv, meth, n, st)
        if isinstance(t, T.Dict):
            self.nonnull(recv, st)
            return self.dict_method(recv, meth, n, st)
        if self.dictview(recv) is not None:
            self.nonnull(recv, st)
            return self.dict_method(self.dictview(recv), meth, n, st)
        if self.is_listlike(recv):
            if not isinstance(t, T.Seq):
                self.nonnull(recv, st)
            return self.list_method(recv, meth, n, st)
        raise Unsupported('method .%s on %s (line %s)' % (meth, t, n.lineno))

    def str_method(self, s, meth, n, st):
        args = [self.ev(a, st) for a in n.args]
        if meth == 'startswith' and len(args) == 1:
            return SV(T.Bool, z3.PrefixOf(args[0].z, s.z))
        if meth == 'endswith' and len(args) == 1:
            return SV(T.Bool, z3.SuffixOf(args[0].z, s.z))
        if meth in ('lower', 'upper', 'strip') and not args:
            return self.call_spec_or_uf('str_' + meth, [s], st)
        if meth == 'replace' and len(args) == 2:
            return SV(T.Str, self.str_replace(s.z, args[0], args[1], st))
        if meth == 'join' and len(args) == 1:
            return self.call_spec_or_uf('str_join', [s, self.as_seq(args[0], st)], st)
        if meth == 'split' and len(args) == 1 and len(n.keywords) == 1 and n.keywords[0].arg == 'maxsplit' \
                and isinstance(n.keywords[0].value, ast.Constant) and n.keywords[0].value.value == 1:
            sep = args[0].z
            i = z3.IndexOf(s.z, sep, 0)
            k = z3.Int(fresh_name('k'))
            head = z3.SubString(s.z, 0, i)
            tail = z3.SubString(s.z, i + z3.Length(sep), z3.Length(s.z))
            arr = z3.Lambda([k], z3.If(i < 0, s.z, z3.If(k == 0, head, tail)))
            r = mk_seq(T.Str, z3.If(i < 0, I(1), I(2)), arr)
            return r if self.spec else self.new_list_from_seq(r, st)
        if meth == 'split' and len(args) == 1 and not n.keywords:
            r = self.call_spec_or_uf('str_split', [s, args[0]], st)
            st.assume(seq_len(r) >= 1)
            return r if self.spec else self.new_list_from_seq(r, st)
        if meth == 'isdigit' and not args:
            return self.call_spec_or_uf('str_isdigit', [s], st)
        raise Unsupported('str.%s (line %s)' % (meth, n.lineno))

    def str_replace(self, z, a, b, st):
        """str.replace(a, b) (all occurrences).  Exact for concrete strings and, for a one-character pattern, for
        subjects of length <= 1; distributed over if-then-else; an uninterpreted function otherwise (A4)."""
        z = z3.simplify(z)
        if z3.is_string_value(z) and z3.is_string_value(a.z) and z3.is_string_value(b.z):
            return z3.StringVal(z.as_string().replace(a.z.as_string(), b.z.as_string()))
        if z3.is_app(z) and z.decl().kind() == z3.Z3_OP_ITE:
            c, x, y = z.children()
            return z3.If(c, self.str_replace(x, a, b, st), self.str_replace(y, a, b, st))
        u = self.call_spec_or_uf('str_replace', [SV(T.Str, z), a, b], st).z
        if getattr(self.eng.prop, 'charset_mode', False):
            return u
        if z3.is_string_value(a.z) and len(a.z.as_string()) == 1:
            return z3.If(z3.Length(z) == 0, z3.StringVal(''),
                         z3.If(z3.Length(z) == 1, z3.If(z == a.z, b.z, z), u))
        return u

    def list_method(self, lst, meth, n, st):
        args = [self.ev(a, st) for a in n.args]
        if self.spec or isinstance(lst.t, T.Seq):
            raise Unsupported('list method .%s in spec' % meth)
        if meth == 'append' and len(args) == 1:
            self.list_append(lst, args[0], st)
            return none_sv()
        if meth == 'insert' and len(args) == 2:
            self.list_insert(lst, args[0], args[1], st)
            return none_sv()
        if meth == 'pop':
            return self.list_pop(lst, args[0] if args else None, st)
        if meth == 'reverse' and not args:
            self.list_reverse(lst, st)
            return none_sv()
        if meth == 'extend' and len(args) == 1:
            s = self.seq_concat(self.as_seq(lst, st), self.as_seq(args[0], st))
            self.list_assign_seq(lst, s, st)
            return none_sv()
        if meth == 'copy' and not args:
            return self.new_list_from_seq(self.as_seq(lst, st), st)
        raise Unsupported('list.%s (line %s)' % (meth, n.lineno))

    def dict_method(self, d, meth, n, st):
        args = [self.ev(a, st) for a in n.args]
        dt = d.t
        has = self.rd(st, self.eng.k_dhas(dt.k, dt.v), d.z)
        val = self.rd(st, self.eng.k_dval(dt.k, dt.v), d.z)
        if meth == 'get':
            k = coerce(args[0], dt.k)
            dflt = args[1] if len(args) > 1 else none_sv()
            return ite(z3.Select(has, k.z), self.loaded(SV(dt.v, z3.Select(val, k.z)), st), dflt)
        if meth == 'keys' and not args and self.spec:
            return SV(T.Set(dt.k), has)
        if meth == 'pop' and len(args) == 2 and not self.spec:
            # d.pop(k, default): remove the key if present; value or default
            k = coerce(args[0], dt.k)
            kh = self.eng.k_dhas(dt.k, dt.v)
            r = ite(z3.Select(has, k.z), self.loaded(SV(dt.v, z3.Select(val, k.z)), st), args[1])
            st.seth(kh, z3.Store(st.h(kh), d.z, z3.Store(has, k.z, z3.BoolVal(False))))
            return r
        raise Unsupported('dict.%s (line %s)' % (meth, n.lineno))


def _ax_rep(self, f, zs):
    s, n = zs
    return [z3.Implies(n <= 0, f(s, n) == z3.StringVal('')),
            z3.Implies(n > 0, f(s, n) == z3.Concat(s, f(s, n - 1))),
            z3.Length(f(s, n)) == z3.If(n > 0, n, 0) * z3.Length(s)]


def _ax_lower(self, f, zs):
    (s,) = zs
    c = z3.StrToCode(s)
    return [z3.Length(f(s)) == z3.Length(s),
            z3.Implies(z3.And(z3.Length(s) == 1, c < 128),
                       f(s) == z3.StrFromCode(z3.If(z3.And(65 <= c, c <= 90), c + 32, c)))]


def _ax_upper(self, f, zs):
    (s,) = zs
    c = z3.StrToCode(s)
    return [z3.Length(f(s)) == z3.Length(s),
            z3.Implies(z3.And(z3.Length(s) == 1, c < 128),
                       f(s) == z3.StrFromCode(z3.If(z3.And(97 <= c, c <= 122), c - 32, c)))]


BUILTIN_UF = {
    'rep': ([T.Str, T.Int], T.Str, _ax_rep),
    'int_to_str': ([T.Int], T.Str, None),
    'str_lower': ([T.Str], T.Str, _ax_lower),
    'str_upper': ([T.Str], T.Str, _ax_upper),
    'str_strip': ([T.Str], T.Str, None),
    'str_replace': ([T.Str, T.Str, T.Str], T.Str, None),
    'str_isdigit': ([T.Str], T.Bool, None),
    'str_join': ([T.Str, T.Seq(T.Str)], T.Str, None),
    'fmt_03d': ([T.Int], T.Str, None),
    'str_split': ([T.Str, T.Str], T.Seq(T.Str), None),
    'shlex_split': ([T.Str], T.Seq(T.Str), None),
}
