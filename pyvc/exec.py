"""Statement execution, loops, contract calls, and the per-contract driver."""
import ast
import os
import z3

from . import ty as T
from .ty import SV
from .engine import (Unsupported, ContractError, DeadPath, fresh_name, zand, zor, State, Out, common_prefix, locate,
                     number_nodes, LOGGERS)
from .vals import (is_none, none_sv, unify, coerce, ite, mk_seq, seq_len, seq_arr, seq_eq, nsel)
from .expr import ExprMixin
from .calls import CallMixin
from .dsl import Loop, Mod

I = z3.IntVal

LIST_MUT = {'append', 'insert', 'pop', 'reverse', 'extend', 'remove', 'sort', 'clear'}


def parse_expr(s):
    return ast.parse(s.strip(), mode='eval').body


class Exec(ExprMixin, CallMixin):
    def __init__(self, eng, c):
        self.eng = eng
        self.c = c
        self.spec = False
        self.bound = []
        self.qvars = []
        self.exits = []
        self.fuel_stack = []
        self.fuel_left = {}
        self.dry_running = set()
        self.loop_envs = []
        self.force_fuel = 0
        self.unfolding = set()
        self.in_old = False
        self.loop_ord = {}
        self.ret_ord = {}
        self.stmt_ord = {}
        self.cur_stmt = None
        self.entry = None
        self.measure0 = None

    # ------------------------------------------------------------------ spec evaluation helpers
    def spec_eval(self, text, st, env=None, old=None):
        """Evaluate a contract expression string to a z3 Bool in state st."""
        node = parse_expr(text) if isinstance(text, str) else text
        was_spec, was_old = self.spec, st.old
        self.spec = True
        if old is not None:
            st.old = old
        self.bound.append(env or {})
        try:
            v = self.ev(node, st)
            return self.truthy(v, st)
        except Unsupported as e:
            raise ContractError('in contract expression %r: %s' % (text if isinstance(text, str) else ast.unparse(text), e))
        finally:
            self.bound.pop()
            self.spec = was_spec
            st.old = was_old

    def spec_value(self, text, st, env=None, old=None):
        node = parse_expr(text) if isinstance(text, str) else text
        was_spec, was_old = self.spec, st.old
        self.spec = True
        if old is not None:
            st.old = old
        self.bound.append(env or {})
        try:
            return self.ev(node, st)
        finally:
            self.bound.pop()
            self.spec = was_spec
            st.old = was_old

    # ------------------------------------------------------------------ parameters
    def param_specs(self, c):
        out = []
        for nm, ts in c.params.items():
            default = None
            if isinstance(ts, str) and '=' in ts and not ts.strip().startswith('dict[') or (isinstance(ts, str) and ts.count('=') and ']' not in ts.split('=')[-1]):
                ts2, d = ts.rsplit('=', 1)
                ts, default = ts2.strip(), ast.literal_eval(d.strip())
                out.append((nm, self.eng.ptype(ts), True, default))
            else:
                out.append((nm, self.eng.ptype(ts), False, None))
        return out

    def type_inv(self, v, st, alloc=None):
        """Assumptions every well-typed value satisfies."""
        t = v.t
        a = st.h(('alloc',)) if alloc is None else alloc
        cs = []
        if t.reflike:
            cs.append(v.z >= 0 if t.nullable else v.z > 0)
            cs.append(v.z <= a)
            if isinstance(t, T.Ref) and t.cls != '$any':
                inst = self.eng.instance_of(v.z, t.cls)
                cs.append(z3.Implies(v.z != 0, inst) if t.nullable else inst)
            if isinstance(t, T.List) or (isinstance(t, T.Ref) and t.cls != '$any' and self.eng.class_elem(t.cls) is not None):
                cs.append(z3.Implies(v.z != 0, z3.Select(st.h(self.eng.k_len()), v.z) >= 0))
        if isinstance(t, T.Seq):
            cs.append(seq_len(v) >= 0)
        return cs

    # ------------------------------------------------------------------ the driver
    def run(self):
        c = self.c
        eng = self.eng
        if c.kind in ('lemma', 'client'):
            tree = ast.parse(c.body)
            fn = ast.FunctionDef(name=c.name, args=None, body=tree.body, decorator_list=[], lineno=1, col_offset=0)
            ast.fix_missing_locations(fn)
            self.fn = fn
            self.info = None
        else:
            self.info = locate(eng.repo, c.file, c.qualname)
            self.fn = self.info.node
            eng.last_info = self.info
        self.loop_ord, self.ret_ord, self.loops = number_nodes(self.fn)
        for want in c.loops:
            if want >= len(self.loops):
                raise ContractError('%s: contract names loop %d but the function has %d loops' % (c.name, want, len(self.loops)))
        self.apply_hints()
        st = State(eng)
        st.seth(('alloc',), z3.Int('alloc0'))
        st.assume(st.h(('alloc',)) >= 0)
        r_ = z3.Int(fresh_name('r'))
        st.assume(z3.ForAll([r_], z3.Select(st.h(eng.k_len()), r_) >= 0))
        ps = self.param_specs(c)
        if c.kind not in ('lemma', 'client'):
            real = [a.arg for a in self.fn.args.posonlyargs + self.fn.args.args + self.fn.args.kwonlyargs]
            for nm, _, _, _ in ps:
                if nm not in real:
                    raise ContractError('%s: contract parameter %s is not a parameter of the real function %s' % (c.name, nm, real))
            for nm in real:
                if nm not in c.params:
                    raise ContractError('%s: real parameter %s has no declared type' % (c.name, nm))
        for nm, t, _, _ in ps:
            v = SV(t, t.fresh('p_' + nm))
            st.locals[nm] = v
            for a in self.type_inv(v, st):
                st.assume(a)
        for nm, ts in c.ghost.items():
            t = eng.ptype(ts)
            st.ghost[nm] = SV(t, t.fresh('g_' + nm))
        for nm, cls in eng.prop.globals.items():
            if nm not in st.locals:
                v = SV(T.Ref(cls), z3.Int('glob_' + nm))
                st.locals[nm] = v
                for a in self.type_inv(v, st):
                    st.assume(a)
        entry = st.copy()
        st.old = entry
        self.entry = entry
        for r in c.requires:
            st.assume(self.spec_eval(r, st))
        cov = eng.obl('cover', 'requires', 'precondition satisfiable')
        cov.expect_sat = True
        cov.add(st.hyps(), z3.BoolVal(True))
        if c.decreases is not None:
            self.measure0 = self.spec_value(c.decreases, st).z
        body = self.fn.body
        if c.start_after_loop is not None or c.stop_after_loop is not None or c.stop_before_loop is not None:
            out = self.run_tile(st)
            if c.stop_after_loop is not None or c.stop_before_loop is not None:
                self.finish_tile(out)
                return
        elif c.start_loop is not None:
            out = self.run_from_loop(st, c.start_loop)
        else:
            out = self.block(body, st)
        self.finish(out)

    def run_tile(self, st):
        """Segment between two top-level loops of the function body (see Contract.start_after_loop / stop_after_loop)."""
        c = self.c
        body = list(self.fn.body)

        def top_index(ordn):
            node = self.loops[ordn]
            for i, s_ in enumerate(body):
                if s_ is node:
                    return i
            raise Unsupported('loop %s is not a top-level statement of the function' % ordn)
        lo = 0
        if c.start_after_loop is not None:
            lo = top_index(c.start_after_loop) + 1
            for nm, ts in c.locals.items():
                if nm in ('[]', '{}'):
                    continue
                t = self.eng.ptype(ts)
                v = SV(t, t.fresh('l_' + nm))
                st.locals[nm] = v
                for a in self.type_inv(v, st):
                    st.assume(a)
            for a in c.start_assume:
                st.assume(self.spec_eval(a, st))
            self.entry = st.copy()
            st.old = self.entry
            cov = self.eng.obl('cover', 'segment', 'segment precondition satisfiable')
            cov.expect_sat = True
            cov.add(st.hyps(), z3.BoolVal(True))
        hi = len(body)
        if c.stop_after_loop is not None:
            hi = top_index(c.stop_after_loop) + 1
        if c.stop_before_loop is not None:
            hi = top_index(c.stop_before_loop)
        return self.block(body[lo:hi], st)

    def finish_tile(self, out):
        """End of a segment that stops inside the function: end_ensures must hold in every state that falls through."""
        c, eng = self.c, self.eng
        if out.rets:
            # early returns inside the segment are exits of the function: they answer to its ordinary ensures
            if c.start_after_loop is not None:
                raise Unsupported('return inside a segment that neither starts at the top nor runs to the end of the function')
            rt = eng.ptype(c.returns)
            for st, val, ordn in out.rets:
                val = none_sv() if val is None else val
                res = SV(T.Opaque, z3.IntVal(0)) if isinstance(rt, T._Opaque) else (coerce(val, rt) if not isinstance(rt, T._None) else val)
                env = {k: v for k, v in self.entry.locals.items() if v is not None}
                env['result'] = res
                for i, e in enumerate(c.ensures):
                    o = eng.obl('post', 'ensures#%d' % i, e)
                    o.add(st.hyps(), self.spec_eval(e, st, env), 'return#%s' % ordn)
                if not c.ensures:
                    o = eng.obl('post', 'returns', 'early return of the segment')
                    o.add(st.hyps(), z3.BoolVal(True), 'return#%s' % ordn)
        if not out.normals:
            raise Unsupported('segment has no fall-through state')
        cov = eng.obl('cover', 'exit', 'end of segment reachable')
        cov.expect_sat = 'any'
        for st in out.normals:
            cov.add(st.hyps(), z3.BoolVal(True), 'fallthrough')
        for i, e in enumerate(c.end_ensures):
            o = eng.obl('post', 'end_ensures#%d' % i, e)
            for st in out.normals:
                env = {}
                g = self.spec_eval(e, st, env)
                o.add(st.hyps(), g, 'segment-end')
        for st, exc, where in out.excs:
            self.exc_obligation(st, exc, where)

    def apply_hints(self):
        """Attach element-type hints from contract.locals to empty list/dict literals assigned to those names."""
        for n in ast.walk(self.fn):
            tgt = None
            if isinstance(n, ast.Assign) and len(n.targets) == 1 and isinstance(n.targets[0], ast.Name):
                tgt, val = n.targets[0].id, n.value
            elif isinstance(n, ast.AnnAssign) and isinstance(n.target, ast.Name) and n.value is not None:
                tgt, val = n.target.id, n.value
            if tgt and tgt in self.c.locals:
                t = self.eng.ptype(self.c.locals[tgt])
                if isinstance(val, ast.List) and isinstance(t, T.List):
                    val._elem_hint = t.elem
                if isinstance(val, ast.Dict) and isinstance(t, T.Dict):
                    val._dict_hint = t

    def finish(self, out):
        c, eng = self.c, self.eng
        for nst in out.normals:
            out.rets.append((nst, none_sv(), 'end'))
        if out.brks or out.conts:
            raise Unsupported('break/continue outside loop')
        rt = eng.ptype(c.returns)
        if out.rets or out.excs:
            # vacuity guard: at least one exit of the function is reachable under the assumptions made on the way
            cov = eng.obl('cover', 'exit', 'some exit reachable (assumed contracts consistent)')
            cov.expect_sat = 'any'
            for st, _, _ in out.rets:
                cov.add(st.hyps(), z3.BoolVal(True), 'return')
            for st, _, _ in out.excs:
                cov.add(st.hyps(), z3.BoolVal(True), 'raise')
        for st, val, ordn in out.rets:
            if val is None:
                val = none_sv()
            try:
                if isinstance(rt, T._Opaque):
                    res = SV(T.Opaque, z3.IntVal(0))       # the contract does not speak about the returned value
                else:
                    res = coerce(val, rt) if not isinstance(rt, T._None) else val
            except Unsupported as e:
                raise ContractError('%s: return value of type %s does not fit declared %s' % (c.name, val.t, rt))
            env = {k: v for k, v in self.entry.locals.items() if v is not None}   # parameters denote entry values
            env['result'] = res
            self.use_lemmas(c.at_exit, st, env, 'exit')
            for i, e in enumerate(c.ensures):
                o = eng.obl('post', 'ensures#%d' % i, e)
                g = self.spec_eval(e, st, env)
                o.add(st.hyps(), g, 'return#%s' % ordn)
            if not c.ensures:
                o = eng.obl('post', 'returns', 'function returns normally')
                o.add(st.hyps(), z3.BoolVal(True), 'return#%s' % ordn)
            if not c.skip_frame:
                self.frame_obligations(st, 'return#%s' % ordn)
        for st, exc, where in out.excs:
            self.exc_obligation(st, exc, where)

    def exc_obligation(self, st, exc, where):
        c, eng = self.c, self.eng
        allowed = None
        for nm in c.raises:
            if nm == exc or nm == 'Exception' or (nm in EXC_PARENTS.get(exc, ())):
                allowed = nm
                break
        if allowed is None:
            o = eng.obl('no-raise', '%s:%s' % (exc, where), 'no %s escapes (%s)' % (exc, where))
            o.add(st.hyps(), z3.BoolVal(False), where)
        else:
            cond = c.raises[allowed]
            if cond.startswith('iff:'):
                cond = cond[4:]
            o = eng.obl('raises', '%s' % exc, 'raises %s only when: %s' % (exc, cond))
            g = self.spec_eval(cond, self._old_view(st))
            o.add(st.hyps(), g, where)
            for i, e in enumerate(c.exc_ensures.get(allowed, [])):
                o2 = eng.obl('exc-post', '%s#%d' % (exc, i), e)
                g = self.spec_eval(e, st)
                o2.add(st.hyps(), g, where)
            if not c.skip_frame:
                self.frame_obligations(st, 'raise %s' % exc)

    def _old_view(self, st):
        o = st.old.copy()
        o.pc = st.pc
        o.pcd = st.pcd
        o.axd = st.axd
        o.old = st.old
        return o

    # ------------------------------------------------------------------ frames
    def mod_where(self, m, r, st_old):
        """z3 condition: object r may be written according to frame entry m (evaluated in the old state)."""
        tname = None
        env = {'r': SV(T.Ref('$any'), r)}
        return self.spec_eval(m.where, self._as_spec_state(st_old), env)

    def _as_spec_state(self, st):
        return st

    def frame_cond(self, key, mods, r, old):
        """Disjunction of the `where` clauses of all frame entries covering heap key `key`."""
        conds = []
        for m in mods:
            if self.mod_covers(m, key):
                tmp = old.copy()
                if tmp.old is None:
                    tmp.old = old
                conds.append(self.spec_eval(m.where, tmp, {'r': SV(T.Ref('$any'), r)}))
        return zor(conds)

    def mod_covers(self, m, key):
        f = m.field
        eng = self.eng
        if key[0] in ('f', 'has'):
            return f == key[1] or f == key[1].partition('|')[0]
        if key[0] == 'len':
            return f.startswith('list')
        if key[0] == 'elem':
            if not f.startswith('list'):
                return False
            if ':' not in f:
                return True
            return eng.hkey(eng.k_elem(eng.ptype(f.split(':', 1)[1]))) == eng.hkey(key)
        if key[0] in ('dhas', 'dval'):
            if not f.startswith('dict'):
                return False
            if ':' not in f:
                return True
            kt, vt = [eng.ptype(x) for x in f.split(':', 1)[1].split(',')]
            want = eng.k_dhas(kt, vt) if key[0] == 'dhas' else eng.k_dval(kt, vt)
            return eng.hkey(want) == eng.hkey(key)
        return False

    def frame_obligations(self, st, where):
        c, eng = self.c, self.eng
        old = st.old
        a0 = old.h(('alloc',))
        if not c.allocates:
            o = eng.obl('frame', 'alloc', 'no allocation')
            # allocation of temporaries is harmless for callers; only checked when the contract forbids it strictly
        for key, val in st.heap.items():
            if key[0] in ('alloc', 'g'):
                continue
            init = old.h(key)
            if val is init:
                continue
            r = z3.Int(fresh_name('r'))
            allowed = self.frame_cond(key, c.modifies, r, old)
            goal = z3.ForAll([r], z3.Implies(z3.And(r > 0, r <= a0, z3.Not(allowed)),
                                             nsel(val, r) == nsel(init, r)))
            o = eng.obl('frame', '_'.join(str(x) for x in eng.hkey(key)[:2]), 'only declared objects change in %s' % (key[:2],))
            o.add(st.hyps(), goal, where)

    # ------------------------------------------------------------------ statements
    CAP = 16

    def block(self, stmts, st):
        Out.merger = self.merge
        cur = [x for x in (st if isinstance(st, list) else [st]) if x is not None]
        out = Out()
        for s in stmts:
            if not cur:
                break
            if len(cur) > 1 and (isinstance(s, (ast.For, ast.While, ast.Try)) or len(cur) > self.CAP):
                cur = [self.merge(cur)]
            nxt = []
            for c in cur:
                o = self.stmt(s, c)
                out.absorb(o)
                nxt += o.normals
            cur = nxt
        out.normals = cur
        return out

    def take_exits(self, out):
        for e, exc, where in self.exits:
            out.excs.append((e, exc, where))
        self.exits = []

    def stmt(self, s, st):
        self.cur_stmt = s
        m = getattr(self, 'st_' + type(s).__name__, None)
        if m is None:
            raise Unsupported('statement %s at line %s' % (type(s).__name__, s.lineno))
        try:
            return m(s, st)
        except DeadPath:
            out = Out()
            self.take_exits(out)
            return out

    def simple(self, st):
        out = Out()
        self.take_exits(out)
        out.normal = st
        return out

    def st_Pass(self, s, st):
        return self.simple(st)

    def st_Global(self, s, st):
        return self.simple(st)

    def st_Import(self, s, st):
        return self.simple(st)

    st_ImportFrom = st_Import

    def st_Expr(self, s, st):
        if isinstance(s.value, ast.Constant):
            return self.simple(st)
        if isinstance(s.value, ast.Yield):
            return self.st_yield(s.value, st)
        self.ev(s.value, st)
        return self.simple(st)

    def st_yield(self, y, st):
        """`yield e` in a generator under contract: every condition of contract.yields must hold for the yielded value (`value`)
        in the current state; `head(x)` inside a condition refers to the state at the head of the current iteration of the
        innermost loop.  The ghost counter named by contract.ghost['$yield_counter'] (if any) is incremented.  What the consumer
        does between two yields is covered by the loop invariant (the next iteration starts from a havoced head state)."""
        v = self.ev(y.value, st) if y.value is not None else none_sv()
        yt = getattr(self.c, 'yield_type', None)
        if yt:
            t = self.eng.ptype(yt)
            if isinstance(t, T.Tuple) and isinstance(y.value, ast.Tuple):
                parts = [coerce(self.ev(e, st), tt) for e, tt in zip(y.value.elts, t.ts)]
                v = SV(t, t.mk([p_.z for p_ in parts]), aux=parts)
            else:
                v = coerce(v, t)
        k = self.eng.site('yield')
        ys = self.c.yields
        if isinstance(ys, dict):
            # per yield statement, numbered in source order
            sites = sorted((n_ for n_ in ast.walk(self.fn) if isinstance(n_, ast.Yield)), key=lambda n_: (n_.lineno, n_.col_offset))
            ys = ys.get([id(x) for x in sites].index(id(y)), [])
            ys = [ys] if isinstance(ys, str) else ys
        for i, cond in enumerate(ys or []):
            o = self.eng.obl('yield', 'yield@%d#%d' % (getattr(y, 'lineno', 0), i), cond)
            g = self.spec_eval(cond, st, {'value': v})
            o.add(st.hyps(), g, 'yield')
        cnt = getattr(self.c, 'yield_counter', None)
        if cnt:
            key = ('g', cnt, self.eng.ptype(self.eng.prop.ghosts[cnt]))
            st.seth(key, st.h(key) + 1)
        return self.simple(st)

    def st_FunctionDef(self, s, st):
        # a nested helper function whose calls are resolved by the contract (contract.calls) is skipped
        if s.name in self.c.calls:
            return self.simple(st)
        raise Unsupported('nested function %s without a contract (line %s)' % (s.name, s.lineno))

    def st_Assert(self, s, st):
        c = self.truthy(self.ev(s.test, st), st)
        self.raise_if(st, z3.Not(c), 'AssertionError', 'assert')
        return self.simple(st)

    def st_Return(self, s, st):
        rt = self.eng.ptype(self.c.returns) if self.c.returns else None
        if isinstance(s.value, ast.Tuple) and isinstance(rt, T.Tuple) and len(rt.ts) == len(s.value.elts):
            # a returned tuple is built at the declared component types (None -> optional component)
            parts = [coerce(self.ev(e, st), t) for e, t in zip(s.value.elts, rt.ts)]
            v = SV(rt, rt.mk([p.z for p in parts]), aux=parts)
        else:
            v = self.ev(s.value, st) if s.value is not None else none_sv()
        out = Out()
        self.take_exits(out)
        out.rets.append((st, v, self.ret_ord.get(id(s), '?')))
        return out

    def st_Raise(self, s, st):
        out = Out()
        if s.exc is None:
            exc = st.ghost.get('$handling')
            if exc is None:
                raise Unsupported('bare raise outside handler')
            exc = exc
        else:
            e = s.exc
            if isinstance(e, ast.Call):
                for a in e.args:
                    try:
                        self.ev(a, st)
                    except Unsupported:
                        pass
                e = e.func
            exc = ast.unparse(e).split('.')[-1]
        self.take_exits(out)
        out.excs.append((st, exc, 'raise'))
        return out

    def st_Break(self, s, st):
        out = Out()
        out.brks.append(st)
        return out

    def st_Continue(self, s, st):
        out = Out()
        out.conts.append(st)
        return out

    def st_Delete(self, s, st):
        for t in s.targets:
            if isinstance(t, ast.Subscript):
                obj = self.ev(t.value, st)
                idx = self.ev(t.slice, st)
                if isinstance(obj.t, T.Dict):
                    self.nonnull(obj, st, 'subscript')
                    self.dict_del(obj, idx, st)
                elif self.is_listlike(obj):
                    self.list_pop(obj, idx, st)
                else:
                    raise Unsupported('del on %s' % obj.t)
            elif isinstance(t, ast.Attribute):
                obj = self.ev(t.value, st)
                self.nonnull(obj, st)
                kh = self.eng.k_has(self.eng.fid(t.attr, obj.t.cls if isinstance(obj.t, T.Ref) else None))
                self.raise_if(st, z3.Not(z3.Select(st.h(kh), obj.z)), 'AttributeError', 'del attribute')
                st.seth(kh, z3.Store(st.h(kh), obj.z, z3.BoolVal(False)))
            elif isinstance(t, ast.Name):
                st.locals[t.id] = None
            else:
                raise Unsupported('del target')
        return self.simple(st)

    def st_Assign(self, s, st):
        v = self.ev(s.value, st)
        for t in s.targets:
            self.assign(t, v, st)
        return self.simple(st)

    def st_AnnAssign(self, s, st):
        if s.value is None:
            return self.simple(st)
        v = self.ev(s.value, st)
        self.assign(s.target, v, st)
        return self.simple(st)

    def st_AugAssign(self, s, st):
        t = s.target
        if isinstance(t, ast.Name):
            cur = self.ev(t, st)
            rhs = self.ev(s.value, st)
            if self.is_listlike(cur) and isinstance(s.op, ast.Add) and not isinstance(cur.t, T.Seq):
                seq = self.seq_concat(self.as_seq(cur, st), self.as_seq(rhs, st))
                self.list_assign_seq(cur, seq, st)
            else:
                self.assign(t, self.binop(s.op, cur, rhs, st, s), st)
        elif isinstance(t, ast.Attribute):
            obj = self.ev(t.value, st)
            cur = self.getattr(obj, t.attr, st, s)
            rhs = self.ev(s.value, st)
            self.setattr(obj, t.attr, self.binop(s.op, cur, rhs, st, s), st)
        elif isinstance(t, ast.Subscript):
            obj = self.ev(t.value, st)
            idx = self.ev(t.slice, st)
            cur = self.getitem(obj, idx, st, s)
            rhs = self.ev(s.value, st)
            self.setitem(obj, idx, self.binop(s.op, cur, rhs, st, s), st)
        else:
            raise Unsupported('augmented assignment target')
        return self.simple(st)

    def declared_local(self, name):
        if name in self.c.locals:
            return self.eng.ptype(self.c.locals[name])
        return None

    def assign(self, t, v, st):
        if isinstance(t, ast.Name):
            d = self.declared_local(t.id)
            if d is not None:
                v = coerce(v, d)
            elif t.id in st.locals and st.locals[t.id] is not None and not is_none(v):
                # keep a stable type for a variable across assignments when possible
                try:
                    ut = unify(st.locals[t.id].t, v.t)
                    if ut == st.locals[t.id].t:
                        v = coerce(v, ut)
                except Unsupported:
                    pass
            st.locals[t.id] = v
            return
        if isinstance(t, (ast.Tuple, ast.List)):
            if isinstance(v.t, T.Tuple):
                items = self.tuple_items(v)
                if len(items) != len(t.elts):
                    self.raise_if(st, z3.BoolVal(True), 'ValueError', 'unpack')
                    raise Unsupported('definite unpack failure')
            elif self.is_listlike(v):
                s = self.as_seq(v, st)
                self.raise_if(st, seq_len(s) != len(t.elts), 'ValueError', 'unpack')
                items = [self.loaded(SV(s.t.elem, z3.Select(seq_arr(s), I(i))), st) for i in range(len(t.elts))]
            elif isinstance(v.t, (T._Int, T._Bool, T._Real, T._None)):
                self.raise_if(st, z3.BoolVal(True), 'TypeError', 'unpack of non-iterable')
                raise DeadPath()
            else:
                h = self.unpack_hook(t, v, st)
                if h is None:
                    raise Unsupported('unpack of %s' % v.t)
                items = h
            for e, it in zip(t.elts, items):
                self.assign(e, it, st)
            return
        if isinstance(t, ast.Attribute):
            obj = self.ev(t.value, st)
            self.setattr(obj, t.attr, v, st)
            return
        if isinstance(t, ast.Subscript):
            obj = self.ev(t.value, st)
            if isinstance(t.slice, ast.Slice):
                sl = t.slice
                if sl.lower is None and sl.upper is None and sl.step is None and self.is_listlike(obj):
                    self.nonnull(obj, st, 'subscript')
                    self.list_assign_seq(obj, self.as_seq(v, st), st)
                    return
                raise Unsupported('slice assignment')
            idx = self.ev(t.slice, st)
            self.setitem(obj, idx, v, st)
            return
        raise Unsupported('assignment target %s' % type(t).__name__)

    def unpack_hook(self, t, v, st):
        return None

    def setattr(self, obj, attr, v, st):
        if not obj.t.reflike:
            raise Unsupported('attribute store on %s' % obj.t)
        self.nonnull(obj, st)
        fid = self.eng.fid(attr, obj.t.cls if isinstance(obj.t, T.Ref) else None)
        ft = self.eng.field_type(fid)
        k = self.eng.k_field(fid)
        st.seth(k, z3.Store(st.h(k), obj.z, coerce(v, ft).z))
        kh = self.eng.k_has(fid)
        if kh in st.heap or self.eng.hkey(kh) in self.eng._init_heap:
            st.seth(kh, z3.Store(st.h(kh), obj.z, z3.BoolVal(True)))

    def setitem(self, obj, idx, v, st):
        if isinstance(obj.t, T.Dict):
            self.nonnull(obj, st, 'subscript')
            self.dict_set(obj, idx, v, st)
        elif isinstance(obj.t, T.Ref) and obj.t.cls != '$any' and not self.is_listlike(obj) \
                and self.eng.find_method(obj.t.cls, '__setitem__') is not None:
            self.nonnull(obj, st, 'subscript')
            self.call_contract(self.eng.find_method(obj.t.cls, '__setitem__'), [obj, idx, v], {}, st, None)
        elif self.is_listlike(obj) and not isinstance(obj.t, T.Seq):
            self.nonnull(obj, st, 'subscript')
            m = None
            if isinstance(obj.t, T.Ref):
                m = self.eng.find_method(obj.t.cls, '__setitem__')
            if m is not None:
                self.call_contract(m, [obj, idx, v], {}, st, None)
            else:
                self.list_setitem(obj, idx, v, st)
        elif self.dictview(obj) is not None:
            self.nonnull(obj, st, 'subscript')
            self.dict_set(self.dictview(obj), idx, v, st)
        else:
            raise Unsupported('item store on %s' % obj.t)

    # ------------------------------------------------------------------ merging
    def merge(self, states):
        states = [s for s in states if s is not None]
        if not states:
            return None
        cur = states[0]
        for s in states[1:]:
            cur = self.merge2(cur, s)
        return cur

    def merge2(self, a, b):
        n = common_prefix(a.pc, b.pc)
        da = [z for z, d in zip(a.pc[n:], a.pcd[n:]) if d]
        db = [z for z, d in zip(b.pc[n:], b.pcd[n:]) if d]

        def exclusive():
            for x in da:
                for y in db:
                    if (z3.is_not(x) and x.arg(0).eq(y)) or (z3.is_not(y) and y.arg(0).eq(x)):
                        return True
            return False
        if not exclusive():
            # the two paths are not separated by complementary branch decisions (e.g. a call that may or may not raise):
            # separate them by a fresh selector so that the facts of one path are never asserted on the other
            sel = z3.Bool(fresh_name('path'))
            da = da + [sel]
            db = db + [z3.Not(sel)]
        ca, cb = zand(da), zand(db)
        m = State(self.eng)
        m.old = a.old
        m.pc = a.pc[:n]
        m.pcd = a.pcd[:n]
        for z, d in zip(a.pc[n:], a.pcd[n:]):
            if not d:
                m.assume(z3.Implies(ca, z))
        for z, d in zip(b.pc[n:], b.pcd[n:]):
            if not d:
                m.assume(z3.Implies(cb, z))
        m.assume(z3.Or(ca, cb))
        m.axd = {**a.axd, **b.axd}
        for nm in set(a.locals) | set(b.locals):
            va, vb = a.locals.get(nm), b.locals.get(nm)
            if va is None or vb is None:
                m.locals[nm] = None     # possibly unbound after the join
                continue
            try:
                m.locals[nm] = ite(ca, va, vb)
            except Unsupported:
                m.locals[nm] = None
        for k in set(a.heap) | set(b.heap):
            x, y = a.h(k), b.h(k)
            m.heap[k] = x if (x is y or x.eq(y)) else z3.If(ca, x, y)
        for k in set(a.ghost) | set(b.ghost):
            ga, gb = a.ghost.get(k), b.ghost.get(k)
            if ga is None or gb is None:
                continue
            if isinstance(ga, SV):
                m.ghost[k] = ite(ca, ga, gb)
            elif ga == gb:
                m.ghost[k] = ga
        return m

    # ------------------------------------------------------------------ control flow
    def st_If(self, s, st):
        # constant-false guards are dead code (dropped by extraction, DESIGN 2.1)
        c = self.truthy(self.ev(s.test, st), st)
        out = Out()
        self.take_exits(out)
        if os.environ.get('PYVC_DEBUG'):
            import sys as _s
            _s.stderr.write('DEBUG if line %s: %s | infeasible+ %s infeasible- %s\n' % (s.lineno, str(z3.simplify(c))[:300].replace('\n', ' '),
                            self.infeasible(st, c), self.infeasible(st, z3.Not(c))))
        if z3.is_false(z3.simplify(c)):
            o2 = self.block(s.orelse, st)
            out.absorb(o2)
            out.normal = o2.normal
            return out
        if z3.is_true(z3.simplify(c)):
            o1 = self.block(s.body, st)
            out.absorb(o1)
            out.normal = o1.normal
            return out
        if self.infeasible(st, c):
            o2 = self.block(s.orelse, st)
            out.absorb(o2)
            out.normal = o2.normal
            return out
        if self.infeasible(st, z3.Not(c)):
            o1 = self.block(s.body, st)
            out.absorb(o1)
            out.normal = o1.normal
            return out
        a, b = st.copy(), st
        a.assume(c, True)
        b.assume(z3.Not(c), True)
        o1 = self.block(s.body, a)
        o2 = self.block(s.orelse, b)
        out.absorb(o1)
        out.absorb(o2)
        out.normals = o1.normals + o2.normals
        return out

    def infeasible(self, st, cond):
        """Cheap semantic pruning: the quantifier-free part of the path condition refutes cond."""
        sv = z3.Solver()
        sv.set('timeout', 200)
        for h in st.pc:
            if not z3.is_quantifier(h):
                sv.add(h)
        sv.add(cond)
        r = sv.check() == z3.unsat
        if r and os.environ.get('PYVC_DEBUG') == '2':
            import sys as _s
            cs = z3.Solver(); cs.set('unsat_core', True)
            hs = [h for h in st.pc if not z3.is_quantifier(h)] + [cond]
            for i, h in enumerate(hs):
                cs.assert_and_track(h, 'q%d' % i)
            cs.check()
            for cc in cs.unsat_core():
                _s.stderr.write('   CORE %s\n' % str(hs[int(str(cc)[1:])])[:300].replace('\n', ' '))
        return r

    def st_With(self, s, st):
        """`with EXPR as NAME: body` for context managers whose __exit__ neither swallows exceptions nor has modelled
        effects (files): evaluate EXPR (through its contract), bind NAME, run the body."""
        for item in s.items:
            v = self.ev(item.context_expr, st)
            if item.optional_vars is not None:
                self.assign(item.optional_vars, v, st)
        out = Out()
        self.take_exits(out)
        o = self.block(s.body, st)
        out.absorb(o)
        out.normals = o.normals
        return out

    def st_Try(self, s, st):
        if s.finalbody:
            raise Unsupported('try/finally')
        out = Out()
        o = self.block(s.body, st)
        out.rets += o.rets
        out.brks += o.brks
        out.conts += o.conts
        normals = []
        if o.normal is not None:
            if s.orelse:
                oe = self.block(s.orelse, o.normal)
                out.absorb(oe)
                normals.append(oe.normal)
            else:
                normals.append(o.normal)
        for est, exc, where in o.excs:
            handled = False
            if self.infeasible(est, z3.BoolVal(True)):
                continue        # the raising path is unreachable
            for h in s.handlers:
                if self.handler_matches(h, exc):
                    hs = est
                    if h.name:
                        hs.locals[h.name] = SV(T.Ref('$any'), z3.Int(fresh_name('exc')))
                    hs.ghost['$handling'] = exc
                    oh = self.block(h.body, hs)
                    out.absorb(oh)
                    normals.append(oh.normal)
                    handled = True
                    break
            if not handled:
                out.excs.append((est, exc, where))
        out.normal = self.merge(normals)
        return out

    def handler_matches(self, h, exc):
        if h.type is None:
            return True
        names = [ast.unparse(e).split('.')[-1] for e in (h.type.elts if isinstance(h.type, ast.Tuple) else [h.type])]
        for nm in names:
            if nm == exc or nm in ('Exception', 'BaseException') or nm in EXC_PARENTS.get(exc, ()):
                return True
        return False

    # ------------------------------------------------------------------ loops
    def assigned_names(self, nodes):
        out = set()
        for root in nodes:
            for n in ast.walk(root):
                if isinstance(n, ast.Name) and isinstance(n.ctx, (ast.Store, ast.Del)):
                    out.add(n.id)
                if isinstance(n, ast.ExceptHandler) and n.name:
                    out.add(n.name)
        return out

    def touched_heap(self, nodes, st):
        """Heap keys possibly written by the loop body (syntactic over-approximation)."""
        keys = set()
        all_lists = all_dicts = False
        for root in nodes:
            for n in ast.walk(root):
                if isinstance(n, ast.Attribute) and isinstance(n.ctx, (ast.Store, ast.Del)):
                    for fid in self.safe_fids(n.attr):
                        keys.add(('f', fid))
                        if self.has_live(('has', fid), st):
                            keys.add(('has', fid))
                if isinstance(n, ast.Subscript) and isinstance(n.ctx, (ast.Store, ast.Del)):
                    all_lists = all_dicts = True
                if isinstance(n, ast.AugAssign):
                    all_lists = True if not isinstance(n.target, ast.Name) or True else all_lists
                if isinstance(n, ast.Call):
                    f = n.func
                    if isinstance(f, ast.Attribute):
                        if f.attr in LIST_MUT:
                            all_lists = True
                        if f.attr in ('update', 'setdefault', 'clear', 'pop', 'popitem'):
                            all_dicts = True
                    callee = self.resolve_static(n)
                    if callee is not None:
                        for m in callee.modifies:
                            if m.field.startswith('list'):
                                all_lists = True
                            elif m.field.startswith('dict'):
                                all_dicts = True
                            else:
                                for fid in self.safe_fids(m.field):
                                    keys.add(('f', fid))
                                    if self.has_live(('has', fid), st):
                                        keys.add(('has', fid))
                        if callee.allocates:
                            keys.add(('alloc',))
                        for gname in (self.ghost_touched(callee) if hasattr(callee, 'name') else getattr(callee, 'ghost_sets', {})):
                            keys.add(('g', gname, self.eng.ptype(self.eng.prop.ghosts[gname])))
                    if isinstance(f, ast.Name) and f.id in self.eng.prop.classes:
                        keys.add(('alloc',))
                        ctor = self.eng.find_method(f.id, '__init__')
                        if ctor is not None:
                            for m in ctor.modifies:
                                if m.field.startswith('list'):
                                    all_lists = True
                                elif m.field.startswith('dict'):
                                    all_dicts = True
                                else:
                                    for fid in self.safe_fids(m.field):
                                        keys.add(('f', fid))
                                        if self.has_live(('has', fid), st):
                                            keys.add(('has', fid))
                    if isinstance(f, ast.Name) and f.id in ('list', 'dict'):
                        keys.add(('alloc',))
                if isinstance(n, (ast.List, ast.Dict, ast.ListComp)):
                    keys.add(('alloc',))
                if isinstance(n, ast.BinOp) and isinstance(n.op, ast.Add):
                    keys.add(('alloc',))   # list concatenation allocates
                if isinstance(n, ast.Subscript) and isinstance(n.slice, ast.Slice):
                    keys.add(('alloc',))
        return keys, all_lists, all_dicts

    def safe_fids(self, name):
        try:
            return self.eng.fids(name)
        except Unsupported:
            return [name]

    def has_live(self, key, st):
        return key in st.heap or self.eng.hkey(key) in self.eng._init_heap

    def resolve_static(self, call):
        """Best-effort static resolution of a call to a contract (for havoc computation)."""
        P = self.eng.prop
        f = call.func
        src = ast.unparse(f)
        if src in self.c.calls:
            tgt = self.c.calls[src]
            if isinstance(tgt, (list, tuple)):
                u = Contract_union([P.contracts[x] for x in tgt])
                u.ghost_sets = {g: None for x in tgt for g in self.ghost_touched(P.contracts[x])}
                return u
            return P.contracts[tgt]
        if isinstance(f, ast.Name) and f.id in P.contracts:
            return P.contracts[f.id]
        if isinstance(f, ast.Attribute):
            cands = [c for nm, c in P.contracts.items() if nm.endswith('.' + f.attr)]
            if len(cands) == 1:
                return cands[0]
            if cands:
                # union of effects
                u = Contract_union(cands)
                u.ghost_sets = {g: None for c_ in cands for g in self.ghost_touched(c_)}
                return u
        return None

    def havoc(self, st, names, heapkeys, all_lists, all_dicts, lc):
        pre = st.copy()
        for nm in names:
            v = st.locals.get(nm)
            if nm in lc.locals:
                t = self.eng.ptype(lc.locals[nm])
            elif v is None:
                st.locals[nm] = None
                continue
            else:
                t = v.t
            nv = SV(t, t.fresh(fresh_name('h_' + nm)))
            st.locals[nm] = nv
        keys = set(heapkeys)
        live = set(st.heap) | set(k for k in self.live_keys())
        for k in live:
            if all_lists and k[0] in ('len', 'elem'):
                keys.add(k)
            if all_dicts and k[0] in ('dhas', 'dval'):
                keys.add(k)
        a_pre = pre.h(('alloc',))
        if ('alloc',) in keys:
            na = z3.Int(fresh_name('alloc'))
            st.seth(('alloc',), na)
            st.assume(na >= a_pre)
        fresh_keys = []
        for k in keys:
            if k == ('alloc',):
                continue
            if k[0] in ('f', 'has') and k[1].partition('|')[0] not in self.eng.prop.field_variants \
                    and k[1] not in self.c.fields:
                continue
            full = self.full_key(k)
            if full is None:
                continue
            st.seth(full, z3.Const(fresh_name(('H_' + '_'.join(str(x) for x in self.eng.hkey(full)[:2])).replace('|', '.')), self.eng.heap_sort(full)))
            fresh_keys.append(full)
            if full[0] == 'len':
                r_ = z3.Int(fresh_name('r'))
                st.assume(z3.ForAll([r_], z3.Select(st.h(full), r_) >= 0))
        for full in fresh_keys:
            ax = self.eng.closure(full, st.h(full), st.h(('alloc',)), st.h(self.eng.k_len()))
            if ax is not None:
                st.assume(ax)
        # type invariants of havocked locals
        for nm in names:
            v = st.locals.get(nm)
            if v is not None:
                for a in self.type_inv(v, st):
                    st.assume(a)
        return pre

    def live_keys(self):
        return list(self.eng._init_keys.values())

    def full_key(self, k):
        if k[0] == 'f':
            return self.eng.k_field(k[1])
        if k[0] == 'has':
            return self.eng.k_has(k[1])
        return k

    def loop_contract(self, node):
        o = self.loop_ord[id(node)]
        lc = self.c.loops.get(o)
        if lc is None:
            raise ContractError('%s: loop %d (line %d) has no invariant in the contract' % (self.c.name, o, node.lineno))
        return o, lc

    def check_inv(self, lc, st, pre, kind, anchor, env, where):
        for i, inv in enumerate(lc.inv):
            o = self.eng.obl(kind, '%s#%d' % (anchor, i), inv)
            e = dict(env)
            g = self.spec_eval(inv, st, e)
            o.add(st.hyps(), g, where)

    def assume_inv(self, lc, st, env):
        for inv in lc.inv:
            st.assume(self.spec_eval(inv, st, env))

    def loop_frame_assume(self, st, pre, lc):
        """Objects outside the loop's modifies set keep their heap values (checked at the back edge)."""
        mods = lc.modifies if lc.modifies is not None else self.c.modifies
        wstate = pre if lc.modifies is not None else st.old
        a_pre = pre.h(('alloc',))
        for key, val in list(st.heap.items()):
            if key[0] in ('alloc', 'g'):
                continue
            before = pre.h(key)
            if val is before:
                continue
            r = z3.Int(fresh_name('r'))
            allowed = self.frame_cond(key, mods, r, wstate)
            st.assume(z3.ForAll([r], z3.Implies(z3.And(r > 0, r <= a_pre, z3.Not(allowed)),
                                                z3.Select(val, r) == z3.Select(before, r))))

    def loop_frame_check(self, st, head, lc, ordn, where, a_pre, pre=None):
        mods = lc.modifies if lc.modifies is not None else self.c.modifies
        wstate = pre if (lc.modifies is not None and pre is not None) else st.old
        for key, val in st.heap.items():
            if key[0] in ('alloc', 'g'):
                continue
            before = head.h(key)
            if val is before:
                continue
            r = z3.Int(fresh_name('r'))
            allowed = self.frame_cond(key, mods, r, wstate)
            goal = z3.ForAll([r], z3.Implies(z3.And(r > 0, r <= a_pre, z3.Not(allowed)),
                                             nsel(val, r) == nsel(before, r)))
            o = self.eng.obl('loop-frame', 'loop%d:%s' % (ordn, '_'.join(str(x) for x in self.eng.hkey(key)[:2])),
                             'loop writes only declared objects')
            o.add(st.hyps(), goal, where)

    def run_loop(self, node, st, setup, cond_fn, step_fn, ordn, lc):
        """Generic loop-cut.  setup(st) -> env for invariants at entry; cond_fn(st) -> (z3 bool, body_prep);
        step_fn(st) advances hidden iteration state at the back edge."""
        out = Out()
        inner_env = setup(st)
        outer = list(self.loop_envs)

        def env0(cur, _inner=inner_env, _outer=outer):
            e = {}
            for f in _outer:
                e.update(f(cur))
            e.update(_inner(cur))
            return e
        self.loop_envs.append(inner_env)
        try:
            return self._run_loop_body(node, st, env0, cond_fn, step_fn, ordn, lc, out)
        finally:
            self.loop_envs.pop()

    def _run_loop_body(self, node, st, env0, cond_fn, step_fn, ordn, lc, out):
        self.take_exits(out)
        entry_snapshot = st.copy()
        # 1. invariant holds on entry
        self.check_inv(lc, st, st, 'inv-init', 'loop%d' % ordn, env0(st), 'entry')
        # 2. havoc
        body_nodes = list(node.body) + list(node.orelse)
        names = self.assigned_names(body_nodes) | set(lc.havoc_extra)
        names -= set(lc.keep)
        hkeys, al, ad = self.touched_heap(body_nodes, st)
        hook = getattr(self, '_hook_callee', None)
        self._hook_callee = None
        if hook is not None:
            # iterator protocol: the effects of the __next__ contract (called at the head of every iteration) belong to the loop
            for m in hook.modifies:
                if m.field.startswith('list'):
                    al = True
                elif m.field.startswith('dict'):
                    ad = True
                else:
                    for fid in self.safe_fids(m.field):
                        hkeys.add(('f', fid))
                        if self.has_live(('has', fid), st):
                            hkeys.add(('has', fid))
            if hook.allocates:
                hkeys.add(('alloc',))
            for gname in self.ghost_touched(hook):
                hkeys.add(('g', gname, self.eng.ptype(self.eng.prop.ghosts[gname])))
        head = st.copy()
        pre = self.havoc(head, names | self.hidden_names(ordn), hkeys, al, ad, lc)
        self.loop_frame_assume(head, pre, lc)
        self.assume_inv(lc, head, env0(head))
        self.use_lemmas(lc.at_head, head, env0(head), 'loop%d-head' % ordn)
        head_snapshot = head.copy()
        self.head_stack = getattr(self, 'head_stack', []) + [(ordn, head_snapshot)]
        meas0 = None
        if lc.decreases is not None:
            meas0 = self.spec_value(lc.decreases, head, env0(head)).z
        # 3. evaluate the condition
        body_st = head.copy()
        c = cond_fn(body_st)
        self.take_exits(out)
        exit_st = body_st.copy()
        body_st.assume(c, True)
        exit_st.assume(z3.Not(c), True)
        if z3.is_true(z3.simplify(c)):
            exit_st = None
        # 4. body
        prep = getattr(self, '_body_prep', None)
        if prep is not None:
            prep(body_st)
            self._body_prep = None
            self.take_exits(out)
        ob = self.block(node.body, body_st)
        out.rets += ob.rets
        out.excs += ob.excs
        backs = [(s, 'end') for s in ob.normals] + [(s, 'continue') for s in ob.conts]
        for s, how in backs:
            step_fn(s)
            self.take_exits(out)
            self.use_lemmas(lc.at_end, s, env0(s), 'loop%d-end' % ordn)
            self.check_inv(lc, s, head_snapshot, 'inv-keep', 'loop%d' % ordn, env0(s), how)
            self.loop_frame_check(s, head_snapshot, lc, ordn, how, pre.h(('alloc',)), pre)
            if meas0 is not None:
                m1 = self.spec_value(lc.decreases, s, env0(s)).z
                o = self.eng.obl('decreases', 'loop%d' % ordn, lc.decreases)
                o.add(s.hyps(), z3.And(m1 < meas0, meas0 >= 0) if False else z3.And(meas0 > m1, meas0 >= 0), how)
        # 5. after the loop
        self.head_stack = self.head_stack[:-1]
        normals = list(ob.brks)
        if os.environ.get('PYVC_DEBUG'):
            import sys as _s
            for b in ob.brks:
                sv = z3.Solver(); sv.set('timeout', 10000)
                for h in b.hyps(): sv.add(h)
                _s.stderr.write('DEBUG loop%d break state: %s\n' % (ordn, sv.check()))
            _s.stderr.write('DEBUG loop%d: %d breaks, %d normals\n' % (ordn, len(ob.brks), len(ob.normals)))
        if exit_st is not None:
            if node.orelse:
                oe = self.block(node.orelse, exit_st)
                out.absorb(oe)
                normals.append(oe.normal)
            else:
                normals.append(exit_st)
        normals = [x for x in normals if x is not None]
        if len(normals) > 1:
            # a local bound on some exits only (a loop variable after `for ...: break`) would be lost in the merge: exits whose
            # path condition is refuted outright are dropped first
            names = set()
            for x in normals:
                names |= {k for k, v in x.locals.items() if v is not None}
            if any(x.locals.get(k) is None for x in normals for k in names):
                live = [x for x in normals if not self.infeasible(x, z3.BoolVal(True))]
                if live:
                    normals = live
        if getattr(lc, 'at_exit', None):
            self.entry_stack = getattr(self, 'entry_stack', []) + [entry_snapshot]
            try:
                for x in normals:
                    self.use_lemmas(lc.at_exit, x, env0(x), 'loop%d-exit' % ordn)
            finally:
                self.entry_stack = self.entry_stack[:-1]
        if 1 < len(normals) <= 3 and getattr(self.c, 'heap_consts', False):
            # few ways out of the loop (exhaustion, breaks): keep them apart, each continuation is simpler than the merged one
            out.normals = normals
        else:
            out.normal = self.merge(normals)
        return out

    def hidden_names(self, ordn):
        return {'$i%d' % ordn}

    def st_While(self, s, st):
        ordn, lc = self.loop_contract(s)

        def setup(st0):
            return lambda cur: {}

        def cond(cur):
            return self.truthy(self.ev(s.test, cur), cur)

        return self.run_loop(s, st, setup, cond, lambda cur: None, ordn, lc)

    def st_For(self, s, st):
        ordn, lc = self.loop_contract(s)
        it = s.iter
        idx = '$i%d' % ordn
        iname = lc.index or ('_i%d' % ordn)
        sname = lc.seq or ('_s%d' % ordn)
        kind = None
        # ---- classify the iterable
        if isinstance(it, ast.Call) and isinstance(it.func, ast.Name) and it.func.id == 'range':
            args = [self.ev(a, st) for a in it.args]
            lo, hi = (I(0), args[0].z) if len(args) == 1 else (args[0].z, args[1].z)
            stepv = 1
            if len(args) == 3:
                sz = z3.simplify(args[2].z)
                if not z3.is_int_value(sz) or sz.as_long() == 0:
                    raise Unsupported('range step must be a non-zero constant')
                stepv = sz.as_long()
            st.locals[idx] = SV(T.Int, lo)
            hi_sv = SV(T.Int, hi)

            def envf(cur):
                # the loop index and the (fixed) bound of the range are visible to invariants as <index> and <index>_hi
                return {iname: cur.locals[idx], iname + '_hi': hi_sv}

            def cond(cur):
                i = cur.locals[idx].z
                self._body_prep = lambda b: self.assign(s.target, SV(T.Int, i), b)
                return i < hi if stepv > 0 else i > hi

            def step(cur):
                cur.locals[idx] = SV(T.Int, cur.locals[idx].z + stepv)

            if lc.inv is not None and stepv > 0:
                lc = self._with_bounds(lc, '%s <= %s' % ('0' if len(args) == 1 else ast.unparse(it.args[0]), iname))
            return self.run_loop(s, st, lambda st0: envf, cond, step, ordn, lc)

        enum = False
        src_node = it
        if isinstance(it, ast.Call) and isinstance(it.func, ast.Name) and it.func.id == 'enumerate' and len(it.args) == 1:
            enum = True
            src_node = it.args[0]
        snapshot = None
        dict_mode = None
        inner = src_node
        if isinstance(inner, ast.Call) and isinstance(inner.func, ast.Name) and inner.func.id == 'list' and len(inner.args) == 1:
            inner = inner.args[0]
            copied = True
        else:
            copied = False
        ds = self.dict_iter_source(inner, st)
        if ds is not None:
            d, dict_mode = ds
            if True:
                snapshot = self.dict_snapshot(d, dict_mode, st)
                if not copied:
                    self.eng.notes.append('%s loop %d iterates a live dict view; mutation during iteration is not modelled' % (self.c.name, ordn))
        if snapshot is None:
            src = self.ev(src_node if not copied else inner, st)
            if isinstance(src.t, T._Str):
                return self.for_string(s, st, src, ordn, lc, idx, iname, enum)
            if not self.is_listlike(src):
                h = self.for_hook(s, st, src, ordn, lc)
                if h is not None:
                    return h
                raise Unsupported('for over %s (line %s)' % (src.t, s.lineno))
            if not isinstance(src.t, T.Seq):
                self.nonnull(src, st, 'iteration')
            if copied or isinstance(src.t, T.Seq):
                snapshot = self.as_seq(src, st)      # frozen copy
                live = None
            else:
                live = src                           # live list: length/elements re-read each iteration
        else:
            live = None
        st.locals[idx] = SV(T.Int, I(0))
        if snapshot is not None:
            st.ghost['$s%d' % ordn] = snapshot

        def cur_seq(cur):
            if live is not None:
                return self.as_seq(live, cur)
            return cur.ghost['$s%d' % ordn]

        def envf(cur):
            e = {iname: cur.locals[idx]}
            if live is None:
                e[sname] = cur.ghost['$s%d' % ordn]
            else:
                e[sname] = live
            return e

        def cond(cur):
            sq = cur_seq(cur)
            i = cur.locals[idx].z
            elem = SV(sq.t.elem, z3.Select(seq_arr(sq), i))

            def prep(b):
                e = self.loaded(elem, b)
                if enum:
                    e = self.mk_tuple([SV(T.Int, i), e])
                self.assign(s.target, e, b)
                b.locals[idx] = SV(T.Int, i + 1)
            self._body_prep = prep
            return i < seq_len(sq)

        def step(cur):
            pass

        lc2 = self._with_bounds(lc, '0 <= %s' % iname)
        if live is None:
            lc2 = self._with_bounds(lc2, '%s <= len(%s)' % (iname, sname))
        return self.run_loop(s, st, lambda st0: envf, cond, step, ordn, lc2)

    def use_lemmas(self, texts, st, env, anchor='hint'):
        """Ghost proof steps: a lemma application adds the proved lemma's instance as a hypothesis; any other
        expression is an intermediate assertion -- it becomes an obligation of its own and is then assumed."""
        for i, t in enumerate(texts):
            g = self.spec_eval(t, st, env)
            if z3.is_true(z3.simplify(g)):
                continue
            o = self.eng.obl('assert', '%s#%d' % (anchor, i), t)
            o.add(st.hyps(), g, anchor)
            st.assume(g)

    def _with_bounds(self, lc, extra):
        l2 = Loop(inv=[extra] + list(lc.inv), decreases=lc.decreases, index=lc.index, seq=lc.seq, locals=lc.locals,
                  modifies=lc.modifies, lemmas=lc.lemmas, havoc_extra=lc.havoc_extra, keep=lc.keep,
                  at_end=lc.at_end, at_head=lc.at_head, at_exit=getattr(lc, 'at_exit', ()))
        return l2

    def for_hook(self, s, st, src, ordn, lc):
        """`for x in it` over an iterator object whose class has a `__next__` contract (raises StopIteration iff exhausted):
        desugared to  while True: try: x = next(it) / except StopIteration: break."""
        if not (isinstance(src.t, T.Ref) and src.t.cls != '$any'):
            return None
        nx = self.eng.find_method(src.t.cls, '__next__')
        if nx is None or 'StopIteration' not in nx.raises or not nx.raises['StopIteration'].startswith('iff:'):
            return None
        self.nonnull(src, st, 'iteration')
        stop = nx.raises['StopIteration'][4:]

        def envf(cur):
            return {}

        def cond(cur):
            c_stop = self.spec_eval(stop, cur.copy(), {'self': src}, old=cur.copy())

            def prep(b):
                n0 = len(self.exits)
                v = self.call_contract(nx, [src], {}, b, s)
                # the StopIteration exit is excluded by the loop condition
                self.exits[n0:] = [e for e in self.exits[n0:] if e[1] != 'StopIteration']
                self.assign(s.target, v, b)
            self._body_prep = prep
            return z3.Not(c_stop)

        self._hook_callee = nx
        return self.run_loop(s, st, lambda st0: envf, cond, lambda cur: None, ordn, lc)

    def for_string(self, s, st, src, ordn, lc, idx, iname, enum):
        st.locals[idx] = SV(T.Int, I(0))

        def envf(cur):
            return {iname: cur.locals[idx]}

        def cond(cur):
            i = cur.locals[idx].z

            def prep(b):
                e = SV(T.Str, z3.SubString(src.z, i, 1))
                if enum:
                    e = self.mk_tuple([SV(T.Int, i), e])
                self.assign(s.target, e, b)
                b.locals[idx] = SV(T.Int, i + 1)
            self._body_prep = prep
            return i < z3.Length(src.z)
        lc2 = self._with_bounds(lc, '0 <= %s' % iname)
        return self.run_loop(s, st, lambda st0: envf, cond, lambda cur: None, ordn, lc2)

    def dict_snapshot(self, d, mode, st):
        """Sequence of the dict's keys / values / items at this moment: distinct keys covering exactly the key set."""
        kt, vt = d.t.k, d.t.v
        has = z3.Select(st.h(self.eng.k_dhas(kt, vt)), d.z)
        val = z3.Select(st.h(self.eng.k_dval(kt, vt)), d.z)
        n = z3.Int(fresh_name('dn'))
        ks = z3.Const(fresh_name('dks'), z3.ArraySort(z3.IntSort(), kt.sort()))
        pos = z3.Function(fresh_name('dpos'), kt.sort(), z3.IntSort())
        i = z3.Int(fresh_name('i'))
        k = kt.fresh(fresh_name('k'))
        st.assume(n >= 0)
        st.assume(z3.ForAll([i], z3.Implies(z3.And(0 <= i, i < n), z3.And(z3.Select(has, z3.Select(ks, i)),
                                                                         pos(z3.Select(ks, i)) == i))))
        st.assume(z3.ForAll([k], z3.Implies(z3.Select(has, k), z3.And(0 <= pos(k), pos(k) < n, z3.Select(ks, pos(k)) == k))))
        if mode == 'keys':
            return mk_seq(kt, n, ks)
        svt = self.eng.storage(vt)
        if mode == 'values':
            arr = z3.Const(fresh_name('dvs'), z3.ArraySort(z3.IntSort(), svt.sort()))
            st.assume(z3.ForAll([i], z3.Implies(z3.And(0 <= i, i < n), z3.Select(arr, i) == z3.Select(val, z3.Select(ks, i))),
                                patterns=[z3.Select(arr, i)]))
            st.assume(z3.ForAll([k], z3.Implies(z3.Select(has, k), z3.Select(arr, pos(k)) == z3.Select(val, k)),
                                patterns=[pos(k)]))
            return mk_seq(vt, n, arr)
        tt = T.Tuple([kt, vt])
        arr = z3.Const(fresh_name('dis'), z3.ArraySort(z3.IntSort(), tt.sort()))
        st.assume(z3.ForAll([i], z3.Implies(z3.And(0 <= i, i < n),
                                            z3.Select(arr, i) == tt.mk([z3.Select(ks, i), z3.Select(val, z3.Select(ks, i))])),
                            patterns=[z3.Select(arr, i)]))
        st.assume(z3.ForAll([k], z3.Implies(z3.Select(has, k), z3.Select(arr, pos(k)) == tt.mk([k, z3.Select(val, k)])),
                            patterns=[pos(k)]))
        return mk_seq(tt, n, arr)

    def run_from_loop(self, st, ordn):
        """Segment verification: start at the entry of loop `ordn` with contract.start_assume as precondition."""
        node = self.loops[ordn]
        for nm, ts in self.c.locals.items():
            if nm in ('[]', '{}'):
                continue
            t = self.eng.ptype(ts)
            v = SV(t, t.fresh('l_' + nm))
            st.locals[nm] = v
            for a in self.type_inv(v, st):
                st.assume(a)
        for a in self.c.start_assume:
            st.assume(self.spec_eval(a, st))
        self.entry = st.copy()
        st.old = self.entry
        cov = self.eng.obl('cover', 'segment', 'segment precondition satisfiable')
        cov.expect_sat = True
        cov.add(st.hyps(), z3.BoolVal(True))
        # continuation of the loop: rest of its block, then what follows each enclosing `if`
        def find(stmts):
            for i, s_ in enumerate(stmts):
                if s_ is node:
                    return [stmts[i:]]
                if isinstance(s_, ast.If):
                    for blk in (s_.body, s_.orelse):
                        r = find(blk)
                        if r is not None:
                            return r + [stmts[i + 1:]]
            return None
        chain = find(self.fn.body)
        if chain is None:
            raise Unsupported('start_loop must name a loop nested only inside if-statements')
        out = Out()
        cur = [st]
        for blk in chain:
            if not cur:
                break
            o = self.block(blk, cur)
            out.absorb(o)
            cur = o.normals
        out.normals = cur
        return out

    # ------------------------------------------------------------------ contract calls
    def call_contract(self, c, args, kw, st, n):
        eng = self.eng
        ps = self.param_specs(c)
        env = {}
        args = list(args)
        for i, (nm, t, hasd, d) in enumerate(ps):
            if i < len(args):
                v = args[i]
            elif nm in kw:
                v = kw[nm]
            elif hasd:
                v = self.const_sv(d)
            else:
                raise Unsupported('missing argument %s in call to %s' % (nm, c.name))
            if isinstance(t, T._Opaque):
                env[nm] = SV(T.Opaque, z3.IntVal(0))
                continue
            try:
                env[nm] = coerce(v, t)
            except Unsupported:
                raise Unsupported('argument %s of %s: %s does not fit %s (line %s)' % (nm, c.name, v.t, t, getattr(n, 'lineno', '?')))
        if len(args) > len(ps):
            raise Unsupported('too many arguments to %s' % c.name)
        k = eng.site('call:' + c.name)
        # type preconditions (non-null receivers etc.)
        for nm, v in env.items():
            if v.t.reflike and not v.t.nullable:
                self.raise_if(st, v.z == 0, 'AttributeError', 'None passed as %s to %s' % (nm, c.name))
        for i, r in enumerate(c.requires):
            o = eng.obl('pre', '%s#%d' % (c.name, i), 'precondition of %s: %s' % (c.name, r))
            g = self.spec_eval(r, st, env, old=st.copy())
            o.add(st.hyps(), g, 'call@%s' % getattr(n, 'lineno', '?'))
        if c is self.c or (c.decreases is not None and self.measure0 is not None and c.kind == self.c.kind and c.name == self.c.name):
            m1 = self.spec_value(c.decreases, st, env).z
            o = eng.obl('decreases', 'rec:%s' % c.name, c.decreases)
            o.add(st.hyps(), z3.And(m1 < self.measure0, m1 >= 0), 'call')
        pre = st.copy()
        pre.old = pre
        my_old = st.old
        # havoc the callee's frame
        a_pre = pre.h(('alloc',))
        if c.allocates:
            na = z3.Int(fresh_name('alloc'))
            st.seth(('alloc',), na)
            st.assume(na >= a_pre)
        havocked = []
        for m in c.modifies:
            for key in self.mod_keys(m, st):
                before = st.h(key)
                nv = z3.Const(fresh_name(('H_' + '_'.join(str(x) for x in eng.hkey(key)[:2])).replace('|', '.')), eng.heap_sort(key))
                if key[0] == 'len':
                    r_ = z3.Int(fresh_name('r'))
                    st.assume(z3.ForAll([r_], z3.Select(nv, r_) >= 0))
                r = z3.Int(fresh_name('r'))
                tmp = pre.copy()
                tmp.old = pre
                allowed = self.spec_eval(m.where, tmp, dict(env, r=SV(T.Ref('$any'), r)))
                st.assume(z3.ForAll([r], z3.Implies(z3.And(r > 0, r <= a_pre, z3.Not(allowed)),
                                                    z3.Select(nv, r) == z3.Select(before, r))))
                st.seth(key, nv)
                havocked.append(key)
        for key in havocked:
            ax = eng.closure(key, st.h(key), st.h(('alloc',)), st.h(eng.k_len()))
            if ax is not None:
                st.assume(ax)
        if True:
            if True:
                pass
        rt = eng.ptype(c.returns)
        res = none_sv() if isinstance(rt, T._None) else SV(rt, rt.fresh(fresh_name('ret_' + c.name.replace('.', '_'))))
        for a in self.type_inv(res, st):
            st.assume(a)
        # exceptional exits
        for exc, cond in c.raises.items():
            iff = cond.startswith('iff:')
            cz = self.spec_eval(cond[4:] if iff else cond, pre.copy(), env, old=pre)
            e = st.copy()
            if iff:
                e.assume(cz, True)
            else:
                # "may raise when cz": whether it does is a fresh, otherwise unconstrained decision
                raised = z3.Bool(fresh_name('raised'))
                e.assume(raised, True)
                e.assume(cz)
                st.assume(z3.Not(raised), True)
            e.old = my_old
            for x in c.exc_ensures.get(exc, []):
                e.assume(self.spec_eval(x, e, env, old=pre))
            self.exits.append((e, exc, 'call %s' % c.name))
            if iff:
                st.assume(z3.Not(cz), True)
        # ghost protocol state is updated on normal return only
        for gname, gexpr in c.ghost_sets.items():
            gt = eng.ptype(eng.prop.ghosts[gname])
            gv = self.spec_value(gexpr, pre.copy(), env, old=pre)
            st.seth(('g', gname, gt), coerce(gv, gt).z)
        # a callee under contract whose body (transitively) calls ghost-setting contracts changes those ghosts too: they are
        # unknown after the call except for what its ensures say
        for gname in sorted(self.ghost_touched(c) - set(c.ghost_sets)):
            gt = eng.ptype(eng.prop.ghosts[gname])
            st.seth(('g', gname, gt), gt.fresh(fresh_name('g_' + gname)))
        env2 = dict(env, result=res)
        for e in c.ensures:
            st.assume(self.spec_eval(e, st, env2, old=pre))
        st.old = my_old
        return res

    def ghost_touched(self, c, seen=None):
        """Ghost globals a call to contract c may change: its own ghost_sets plus, transitively, those of the contracts its body calls."""
        cache = self.eng.__dict__.setdefault('_ghost_touched', {})
        key = getattr(c, 'name', None)
        if key in cache:
            return cache[key]
        seen = set() if seen is None else seen
        if id(c) in seen:
            return set()
        seen.add(id(c))
        out = set(getattr(c, 'ghost_sets', {}) or {})
        P = self.eng.prop
        for tgt in (getattr(c, 'calls', {}) or {}).values():
            for nm in (tgt if isinstance(tgt, (list, tuple)) else [tgt]):
                cc = P.contracts.get(nm)
                if cc is not None:
                    out |= self.ghost_touched(cc, seen)
        if len(seen) == 1 or key is not None:
            cache[key] = out
        return out

    def mod_keys(self, m, st):
        f = m.field
        eng = self.eng
        if f.startswith('list'):
            et = eng.ptype(f.split(':', 1)[1]) if ':' in f else None
            if et is None:
                raise ContractError('Mod list needs an element type: list:<type>')
            return [eng.k_len(), eng.k_elem(et)]
        if f.startswith('dict'):
            kt, vt = [eng.ptype(x) for x in f.split(':', 1)[1].split(',')]
            return [eng.k_dhas(kt, vt), eng.k_dval(kt, vt)]
        out = []
        for fid in eng.fids(f):
            out.append(eng.k_field(fid))
            kh = eng.k_has(fid)
            if eng.hkey(kh) in eng._init_heap or kh in st.heap:
                out.append(kh)
        return out


class Contract_union:
    def __init__(self, cs):
        self.ghost_sets = {k: v for c in cs for k, v in c.ghost_sets.items()}
        self.modifies = [m for c in cs for m in c.modifies]
        self.allocates = any(c.allocates for c in cs)


EXC_PARENTS = {
    'IndexError': ('LookupError',), 'KeyError': ('LookupError',),
    'NotFoundErr': ('DOMException',), 'FileNotFoundError': ('OSError', 'IOError'),
    'ZeroDivisionError': ('ArithmeticError',), 'UnicodeDecodeError': ('ValueError',),
}
