"""Discharging obligations: z3 first, cvc5 (CLI) for what z3 leaves unknown."""
import os
import subprocess
import tempfile
import time

import z3


def model_dict(m, limit=60):
    out = {}
    for d in m.decls()[:400]:
        nm = d.name()
        if d.arity() == 0 and ('p_' in nm or 'alloc0' == nm or nm.startswith('h_') or nm.startswith('l_') or nm.startswith('g_')):
            try:
                out[nm] = str(m[d])[:200]
            except Exception:
                pass
        if len(out) >= limit:
            break
    return out


def run_cvc5(smt2, timeout_s):
    with tempfile.NamedTemporaryFile('w', suffix='.smt2', delete=False, dir=os.environ.get('PYVC_TMP', None)) as fh:
        fh.write('(set-logic ALL)\n')
        fh.write(smt2)
        fh.write('\n(check-sat)\n')
        path = fh.name
    try:
        r = subprocess.run(['/usr/bin/cvc5', '--strings-exp', '--tlimit=%d' % int(timeout_s * 1000), path],
                           capture_output=True, text=True, timeout=timeout_s + 5)
        out = (r.stdout or '').strip().splitlines()
        return out[0] if out else 'error:' + (r.stderr or '')[:200]
    except subprocess.TimeoutExpired:
        return 'timeout'
    finally:
        try:
            os.unlink(path)
        except OSError:
            pass


def _mk(hyps, goal, timeout_ms, ematch):
    s = z3.Solver()
    s.set('timeout', int(timeout_ms))
    if ematch:
        s.set('smt.mbqi', False)
        s.set('auto_config', False)
    for h in hyps:
        s.add(h)
    s.add(z3.Not(goal))
    return s


def has_quant(hyps, goal):
    seen = set()

    def walk(e):
        if e.get_id() in seen:
            return False
        seen.add(e.get_id())
        if z3.is_quantifier(e):
            return True
        return any(walk(c) for c in e.children())
    return any(walk(h) for h in list(hyps) + [goal])


def check_goal(hyps, goal, timeout_ms, use_cvc5=True, want_model=True):
    """Returns (verdict, backend, model_or_None, seconds); verdict in proved / refuted / unknown."""
    t0 = time.time()
    quant = has_quant(hyps, goal)
    if quant:
        qf = [h for h in hyps if not has_quant([h], z3.BoolVal(True))]
        if len(qf) < len(hyps):
            s0 = _mk(qf, goal, min(3000, timeout_ms // 4), True)
            if s0.check() == z3.unsat:
                return 'proved', 'z3-qf-hyps', None, time.time() - t0
        s1 = _mk(hyps, goal, max(1000, timeout_ms // 3), True)
        if s1.check() == z3.unsat:
            return 'proved', 'z3-ematch', None, time.time() - t0
    s = _mk(hyps, goal, timeout_ms, False)
    r = s.check()
    if r == z3.unsat:
        return 'proved', 'z3', None, time.time() - t0
    if r == z3.sat:
        m = None
        if want_model:
            try:
                m = s.model()
            except Exception:
                m = None
        return 'refuted', 'z3', m, time.time() - t0
    if use_cvc5:
        try:
            smt2 = s.to_smt2().replace('(check-sat)', '')
            v = run_cvc5(smt2, max(2, timeout_ms // 1000))
            if v == 'unsat':
                return 'proved', 'cvc5', None, time.time() - t0
        except Exception:
            pass
    return 'unknown', 'z3', None, time.time() - t0


def discharge(o, timeout_ms=10000):
    t0 = time.time()
    backends = set()
    for hyps, goal, where in o.goals:
        if o.expect_sat:
            s = z3.Solver()
            s.set('timeout', timeout_ms)
            for h in hyps:
                s.add(h)
            r = s.check()
            if r == z3.unsat:
                o.status = 'vacuous'
                o.detail = 'hypotheses unsatisfiable at %s' % where
                o.time = time.time() - t0
                o.backend = 'z3'
                return o
            backends.add('z3')
            continue
        v, be, m, dt = check_goal(hyps, goal, timeout_ms)
        backends.add(be)
        if v != 'proved':
            o.status = v
            o.detail = where
            if m is not None:
                o.model = model_dict(m)
                o.z3model = m
            o.time = time.time() - t0
            o.backend = be
            return o
    o.status = 'proved' if not o.expect_sat else 'sat'
    o.backend = '+'.join(sorted(backends)) if backends else 'trivial'
    o.time = time.time() - t0
    return o
