"""Discharging obligations: z3 first, cvc5 (CLI) for what z3 leaves unknown."""
import os
import sys
import subprocess
import tempfile
import time

import z3


def model_dict(m, limit=60):
    out = {}
    for d in m.decls()[:400]:
        nm = d.name()
        if d.arity() == 0 and ('p_' in nm or 'alloc0' == nm or nm.startswith('h_') or nm.startswith('l_') or nm.startswith('g_')):
            try:
                out[nm] = str(m[d])[:200]
            except Exception:
                pass
        if len(out) >= limit:
            break
    return out


def run_cvc5(smt2, timeout_s):
    with tempfile.NamedTemporaryFile('w', suffix='.smt2', delete=False, dir=os.environ.get('PYVC_TMP', None)) as fh:
        fh.write('(set-logic ALL)\n')
        fh.write(smt2)
        fh.write('\n(check-sat)\n')
        path = fh.name
    try:
        r = subprocess.run(['/usr/bin/cvc5', '--strings-exp', '--tlimit=%d' % int(timeout_s * 1000), path],
                           capture_output=True, text=True, timeout=timeout_s + 5)
        out = (r.stdout or '').strip().splitlines()
        return out[0] if out else 'error:' + (r.stderr or '')[:200]
    except subprocess.TimeoutExpired:
        return 'timeout'
    finally:
        try:
            os.unlink(path)
        except OSError:
            pass


def _mk(hyps, goal, timeout_ms, ematch):
    s = z3.Solver()
    s.set('timeout', int(timeout_ms))
    if ematch:
        s.set('smt.mbqi', False)
        s.set('auto_config', False)
    for h in hyps:
        s.add(h)
    s.add(z3.Not(goal))
    return s


def has_quant(hyps, goal):
    seen = set()

    def walk(e):
        if e.get_id() in seen:
            return False
        seen.add(e.get_id())
        if z3.is_quantifier(e):
            return True
        return any(walk(c) for c in e.children())
    return any(walk(h) for h in list(hyps) + [goal])


def spec_syms(e, cache):
    k = e.get_id()
    if k in cache:
        return cache[k]
    out = set()
    stack, seen = [e], set()
    while stack:
        x = stack.pop()
        i = x.get_id()
        if i in seen:
            continue
        seen.add(i)
        if z3.is_quantifier(x):
            stack.append(x.body())
            continue
        if z3.is_app(x):
            d = x.decl()
            if d.kind() == z3.Z3_OP_UNINTERPRETED and d.arity() > 0:
                out.add(d.name())
            stack.extend(x.children())
    cache[k] = out
    return out


def relevant_hyps(hyps, goal):
    """Hypotheses whose uninterpreted function symbols all occur in the goal (dropping hypotheses is sound)."""
    cache = {}
    g = spec_syms(goal, cache)
    return [h for h in hyps if spec_syms(h, cache) <= g]


def check_goal(hyps, goal, timeout_ms, use_cvc5=True, want_model=True):
    """Returns (verdict, backend, model_or_None, seconds); verdict in proved / refuted / unknown."""
    t0 = time.time()
    rel = relevant_hyps(hyps, goal)
    if len(rel) < len(hyps):
        for em in (True, False):
            sr = _mk(rel, goal, min(4000, max(1000, timeout_ms // 4)), em)
            if sr.check() == z3.unsat:
                return 'proved', 'z3-relevant-hyps', None, time.time() - t0
    quant = has_quant(hyps, goal)
    if quant:
        qf = [h for h in hyps if not has_quant([h], z3.BoolVal(True))]
        if len(qf) < len(hyps):
            s0 = _mk(qf, goal, min(3000, timeout_ms // 4), True)
            if s0.check() == z3.unsat:
                return 'proved', 'z3-qf-hyps', None, time.time() - t0
        s1 = _mk(hyps, goal, max(1000, timeout_ms // 3), True)
        if s1.check() == z3.unsat:
            return 'proved', 'z3-ematch', None, time.time() - t0
    s = _mk(hyps, goal, timeout_ms, False)
    r = s.check()
    if r == z3.unsat:
        return 'proved', 'z3', None, time.time() - t0
    if r == z3.sat:
        m = None
        if want_model:
            try:
                m = s.model()
            except Exception:
                m = None
        return 'refuted', 'z3', m, time.time() - t0
    if use_cvc5:
        try:
            smt2 = s.to_smt2().replace('(check-sat)', '')
            v = run_cvc5(smt2, max(2, timeout_ms // 1000))
            if v == 'unsat':
                return 'proved', 'cvc5', None, time.time() - t0
        except Exception:
            pass
    return 'unknown', 'z3', None, time.time() - t0


def discharge(o, timeout_ms=10000):
    t0 = time.time()
    backends = set()
    if o.expect_sat == 'any':
        # satisfiable on at least one goal (unknown counts as possibly satisfiable)
        for hyps, goal, where in o.goals:
            # refutable by E-matching alone (the mode that discharges most goals) or by the default mode: unreachable
            dead = False
            for em in (True, False):
                s = _mk(hyps, z3.BoolVal(True), min(timeout_ms, 3000), em) if False else z3.Solver()
                s.set('timeout', min(timeout_ms, 3000))
                if em:
                    s.set('smt.mbqi', False)
                    s.set('auto_config', False)
                for h in hyps:
                    s.add(h)
                if s.check() == z3.unsat:
                    dead = True
                    break
            if not dead:
                o.status, o.backend, o.time = 'sat', 'z3', time.time() - t0
                return o
        o.status, o.detail, o.backend, o.time = 'vacuous', 'no exit is reachable: assumptions are contradictory', 'z3', time.time() - t0
        return o
    for hyps, goal, where in o.goals:
        if o.expect_sat:
            r = z3.unknown
            for em in (True, False):
                s = z3.Solver()
                s.set('timeout', timeout_ms if not em else min(timeout_ms, 3000))
                if em:
                    s.set('smt.mbqi', False)
                    s.set('auto_config', False)
                for h in hyps:
                    s.add(h)
                r = s.check()
                if r == z3.unsat:
                    break
            if r == z3.unsat:
                o.status = 'vacuous'
                o.detail = 'hypotheses unsatisfiable at %s' % where
                o.time = time.time() - t0
                o.backend = 'z3'
                return o
            backends.add('z3')
            continue
        v, be, m, dt = check_goal(hyps, goal, timeout_ms)
        backends.add(be)
        if v != 'proved':
            o.status = v
            o.detail = where
            if m is not None:
                o.model = model_dict(m)
                o.z3model = m
            o.time = time.time() - t0
            o.backend = be
            return o
    o.status = 'proved' if not o.expect_sat else 'sat'
    o.backend = '+'.join(sorted(backends)) if backends else 'trivial'
    o.time = time.time() - t0
    return o


def skolem_instances(hyps, goal, cap=60):
    """Instances of the universally quantified integer-indexed hypotheses at the Skolem constants of the goal.

    A goal  forall p. phi(p)  is proved as phi(c) for a fresh c; hypotheses  forall q. psi(q)  whose bound variable only occurs
    under arithmetic (no usable trigger) are never instantiated by E-matching, so psi(c) is added explicitly.  Instances are
    consequences of the hypotheses: the strategy is sound."""
    if not (z3.is_quantifier(goal) and goal.is_forall()):
        return None
    n = goal.num_vars()
    consts = [z3.Const('sk!%s!%d' % (goal.var_name(i), i), goal.var_sort(i)) for i in range(n)]
    body = z3.substitute_vars(goal.body(), *reversed(consts))
    ints = [c for c in consts if c.sort() == z3.IntSort()]
    if not ints:
        return None
    extra = []
    for h in hyps:
        if z3.is_quantifier(h) and h.is_forall() and h.num_vars() == 1 and h.var_sort(0) == z3.IntSort():
            for c in ints:
                extra.append(z3.substitute_vars(h.body(), c))
                if len(extra) >= cap:
                    break
        if len(extra) >= cap:
            break
    if not extra:
        return None
    return list(hyps) + extra, body


def _strategies(hyps, goal):
    out = []
    rel = relevant_hyps(hyps, goal)
    quant = has_quant(hyps, goal)
    sk = skolem_instances(hyps, goal)
    if sk is not None:
        out.append(('z3-skolem-instances', sk[0], False, False, sk[1]))
        out.append(('z3-skolem-instances-ematch', sk[0], True, False, sk[1]))
    if len(rel) < len(hyps):
        out.append(('z3-relevant-hyps-ematch', rel, True, False))
        out.append(('z3-relevant-hyps', rel, False, False))
    if quant:
        qf = [h for h in hyps if not has_quant([h], z3.BoolVal(True))]
        if len(qf) < len(hyps):
            out.append(('z3-qf-hyps', qf, True, False))
        out.append(('z3-ematch', hyps, True, False))
    out.append(('z3', hyps, False, True))
    out.append(('cvc5', hyps, None, False))
    return out


def _run_strategy(name, hyps, goal, ematch, decisive, timeout_ms):
    """Child process body: returns dict(verdict, model)."""
    if name == 'cvc5':
        try:
            s = _mk(hyps, goal, timeout_ms, False)
            smt2 = s.to_smt2().replace('(check-sat)', '')
            if 'lambda' in smt2:
                return dict(verdict='unknown')
            v = run_cvc5(smt2, max(2, timeout_ms // 1000))
            if v.startswith('(error') or v.startswith('error'):
                # a back end that cannot read the query decides nothing; say so instead of looking like a timeout
                sys.stderr.write('WARNING: cvc5 rejected a query: %s\n' % v[:200])
            return dict(verdict='proved' if v == 'unsat' else 'unknown')
        except Exception:
            return dict(verdict='unknown')
    s = _mk(hyps, goal, timeout_ms, bool(ematch))
    r = s.check()
    if r == z3.unsat:
        return dict(verdict='proved')
    if r == z3.sat and decisive:
        try:
            return dict(verdict='refuted', model=model_dict(s.model()))
        except Exception:
            return dict(verdict='refuted', model=None)
    return dict(verdict='unknown')


def _quick(hyps, goal):
    """One child, three short sequential attempts; most obligations are discharged here."""
    import json
    import select
    import signal
    r, w = os.pipe()
    pid = os.fork()
    if pid == 0:
        try:
            os.close(r)
            d = dict(verdict='unknown')
            try:
                for name, em, ms in (('z3-ematch', True, 400), ('z3', False, 700)):
                    s = _mk(hyps, goal, ms, em)
                    res = s.check()
                    if res == z3.unsat:
                        d = dict(verdict='proved', backend=name)
                        break
                    if res == z3.sat and not em:
                        try:
                            d = dict(verdict='refuted', backend=name, model=model_dict(s.model()))
                        except Exception:
                            d = dict(verdict='refuted', backend=name, model=None)
                        break
            except Exception:
                pass
            os.write(w, json.dumps(d, default=str).encode())
        finally:
            os._exit(0)
    os.close(w)
    buf = b''
    rl, _, _ = select.select([r], [], [], 4.0)
    if rl:
        while True:
            chunk = os.read(r, 1 << 16)
            if not chunk:
                break
            buf += chunk
    os.close(r)
    try:
        os.kill(pid, signal.SIGKILL)
    except OSError:
        pass
    try:
        os.waitpid(pid, 0)
    except OSError:
        pass
    try:
        return json.loads(buf.decode()) if buf else dict(verdict='unknown')
    except Exception:
        return dict(verdict='unknown')


def portfolio(hyps, goal, timeout_ms):
    """Run the strategies as concurrent child processes; first proof wins.  Returns (verdict, backend, model, secs)."""
    import json
    import select
    import signal
    t0 = time.time()
    q = _quick(hyps, goal)
    if q['verdict'] in ('proved', 'refuted'):
        return q['verdict'], q.get('backend', 'z3'), q.get('model'), time.time() - t0
    strat = _strategies(hyps, goal)
    kids = {}
    for item in strat:
        name, hy, em, dec = item[:4]
        g_ = item[4] if len(item) > 4 else goal
        r, w = os.pipe()
        pid = os.fork()
        if pid == 0:
            try:
                os.close(r)
                try:
                    d = _run_strategy(name, hy, g_, em, dec, timeout_ms)
                except Exception as e:  # noqa
                    d = dict(verdict='unknown', error=str(e))
                os.write(w, json.dumps(d, default=str).encode())
            finally:
                os._exit(0)
        os.close(w)
        kids[r] = (pid, name)
    verdict, backend, model = 'unknown', 'z3', None
    limit = timeout_ms / 1000.0 + 8
    bufs = {r: b'' for r in kids}
    open_fds = set(kids)
    refuted = None
    try:
        while open_fds:
            left = limit - (time.time() - t0)
            if left <= 0:
                backend = 'hard-timeout'
                break
            rl, _, _ = select.select(list(open_fds), [], [], left)
            if not rl:
                backend = 'hard-timeout'
                break
            done = False
            for r in rl:
                chunk = os.read(r, 1 << 16)
                if chunk:
                    bufs[r] += chunk
                    continue
                open_fds.discard(r)
                try:
                    d = json.loads(bufs[r].decode()) if bufs[r] else {'verdict': 'unknown'}
                except Exception:
                    d = {'verdict': 'unknown'}
                if d['verdict'] == 'proved':
                    verdict, backend, done = 'proved', kids[r][1], True
                    break
                if d['verdict'] == 'refuted':
                    refuted = (kids[r][1], d.get('model'))
            if done:
                break
            if refuted is not None:
                # a complete-hypothesis model: decisive
                verdict, backend, model = 'refuted', refuted[0], refuted[1]
                break
    finally:
        for r, (pid, name) in kids.items():
            try:
                os.kill(pid, signal.SIGKILL)
            except OSError:
                pass
            try:
                os.waitpid(pid, 0)
            except OSError:
                pass
            try:
                os.close(r)
            except OSError:
                pass
    return verdict, backend, model, time.time() - t0


def discharge_safe(o, timeout_ms=10000, hard_factor=3.0):
    """Discharge an obligation goal by goal with the solver portfolio (hard wall-clock limits)."""
    t0 = time.time()
    if o.expect_sat:
        return _discharge_cover(o, timeout_ms)
    backends = set()
    for hyps, goal, where in o.goals:
        v, be, m, dt = portfolio(hyps, goal, timeout_ms)
        backends.add(be)
        if v != 'proved':
            o.status, o.detail, o.model, o.backend, o.time = v, where, m, be, time.time() - t0
            return o
    o.status = 'proved'
    o.backend = '+'.join(sorted(backends)) if backends else 'trivial'
    o.time = time.time() - t0
    if o.kind == 'post' and o.goals:
        # vacuity guard: a postcondition proved only because every return path is contradictory is not a proof
        class _C:
            pass
        c = _C()
        c.goals, c.expect_sat, c.kind = o.goals, 'any', 'cover'
        c.status = c.detail = c.backend = None
        c.time = 0.0
        _discharge_cover(c, 2000)
        if c.status == 'vacuous':
            o.status, o.detail = 'vacuous', 'every path reaching this postcondition is contradictory (assumed contracts inconsistent)'
    return o


def _discharge_cover(o, timeout_ms):
    """Vacuity guards in a child process with a hard limit; anything but `unsat` counts as satisfiable."""
    import json
    import select
    import signal
    t0 = time.time()
    r, w = os.pipe()
    pid = os.fork()
    if pid == 0:
        try:
            os.close(r)
            try:
                discharge(o, min(timeout_ms, 3000))
                d = dict(status=o.status, detail=o.detail)
            except Exception as e:  # noqa
                d = dict(status='sat', detail=str(e))
            os.write(w, json.dumps(d).encode())
        finally:
            os._exit(0)
    os.close(w)
    buf = b''
    rl, _, _ = select.select([r], [], [], 8 + 3 * len(o.goals))
    if rl:
        while True:
            chunk = os.read(r, 1 << 16)
            if not chunk:
                break
            buf += chunk
    os.close(r)
    try:
        os.kill(pid, signal.SIGKILL)
    except OSError:
        pass
    try:
        os.waitpid(pid, 0)
    except OSError:
        pass
    o.status, o.backend, o.detail = 'sat', 'z3', ''
    if buf:
        try:
            d = json.loads(buf.decode())
            o.status, o.detail = d['status'], d.get('detail', '')
        except Exception:
            pass
    o.time = time.time() - t0
    return o
