"""Expression evaluation (code mode and spec mode) for PyVC."""
import ast
import z3

from . import ty as T
from .ty import SV
from .engine import Unsupported, ContractError, fresh_name, zand, zor, LOGGERS
from .vals import (is_none, none_sv, unify, coerce, ite, mk_seq, seq_len, seq_arr, seq_eq, py_divmod)

I = z3.IntVal


class ExprMixin:
    # ------------------------------------------------------------------ heap reads with store-chain peeling
    def rd(self, st, key, ref):
        """Select(heap[key], ref), skipping stores to references the path condition proves distinct from ref and
        distributing over merged (if-then-else) heaps; identical branch results collapse."""
        memo = {}

        def go(cur, depth):
            k = cur.get_id()
            if k in memo:
                return memo[k]
            r = None
            if z3.is_app(cur) and depth < 40:
                kind = cur.decl().kind()
                if kind == z3.Z3_OP_STORE:
                    base, idx, val = cur.children()
                    if idx.eq(ref):
                        r = val
                    elif self.distinct_refs(idx, ref, st):
                        r = go(base, depth + 1)
                    elif not self.involves_bound([ref]):
                        r = z3.If(idx == ref, val, go(base, depth + 1))
                elif kind == z3.Z3_OP_ITE:
                    c, a, b = cur.children()
                    ra, rb = go(a, depth + 1), go(b, depth + 1)
                    r = ra if ra.eq(rb) else z3.If(c, ra, rb)
            if r is None:
                r = z3.Select(cur, ref)
            memo[k] = r
            return r
        return go(st.h(key), 0)

    def distinct_refs(self, a, b, st):
        key = (a.get_id(), b.get_id(), len(st.pc))
        cache = self.__dict__.setdefault('_dcache', {})
        if key in cache:
            return cache[key]
        if self.involves_bound([a, b]):
            cache[key] = False
            return False
        s = z3.Solver()
        s.set('timeout', 150)
        for h in st.pc:
            if not z3.is_quantifier(h):
                s.add(h)
        s.add(a == b)
        r = s.check() == z3.unsat
        if not r and any(z3.is_quantifier(h) for h in st.pc):
            # second attempt with the quantified facts (separation preconditions), E-matching only
            s2 = z3.Solver()
            s2.set('timeout', 400)
            s2.set('smt.mbqi', False)
            s2.set('auto_config', False)
            for h in st.pc:
                s2.add(h)
            s2.add(a == b)
            r = s2.check() == z3.unsat
        cache[key] = r
        return r

    # ------------------------------------------------------------------ basic helpers
    def truthy(self, v, st):
        t = v.t
        if isinstance(t, T._Bool):
            return v.z
        if isinstance(t, T._Int):
            return v.z != 0
        if isinstance(t, T._Real):
            return v.z != 0
        if isinstance(t, T._Str):
            return z3.Length(v.z) > 0
        if isinstance(t, T._None):
            return z3.BoolVal(False)
        if isinstance(t, T.Opt):
            inner = SV(t.t, t.val(v.z))
            return z3.And(z3.Not(t.is_none(v.z)), self.truthy(inner, st))
        if isinstance(t, T.List):
            return z3.And(v.z != 0, z3.Select(st.h(self.eng.k_len()), v.z) > 0)
        if isinstance(t, T.Dict):
            return z3.And(v.z != 0, self.dict_nonempty(v, st))
        if isinstance(t, T.Ref):
            nn = v.z != 0
            if t.cls != '$any':
                mode = None
                for c in self.eng.class_chain(t.cls):
                    if self.eng.prop.classes[c].truthy:
                        mode = self.eng.prop.classes[c].truthy
                        break
                if mode == 'len' or (mode is None and self.eng.class_elem(t.cls) is not None):
                    return z3.And(nn, z3.Select(st.h(self.eng.k_len()), v.z) > 0)
            return nn
        if isinstance(t, T.Seq):
            return seq_len(v) > 0
        if isinstance(t, T.Tuple):
            return z3.BoolVal(len(t.ts) > 0)
        raise Unsupported('truthiness of %s' % t)

    def dict_nonempty(self, v, st):
        k = v.t.k.fresh(fresh_name('dk'))
        has = z3.Select(st.h(self.eng.k_dhas(v.t.k, v.t.v)), v.z)
        return z3.Exists([k], z3.Select(has, k))

    def as_seq(self, v, st):
        """View a list-like value as a pure sequence of the heap `st`."""
        t = v.t
        if isinstance(t, T.Seq):
            return v
        if isinstance(t, T.List):
            et = t.elem
        elif isinstance(t, T.Ref) and self.eng.class_elem(t.cls) is not None:
            et = self.eng.class_elem(t.cls)
        elif isinstance(t, T._Str):
            raise Unsupported('string as sequence')
        else:
            raise Unsupported('%s is not list-like' % t)
        n = self.rd(st, self.eng.k_len(), v.z)
        arr = self.rd(st, self.eng.k_elem(et), v.z)
        return mk_seq(et, n, arr)

    def elem_type(self, v):
        t = v.t
        if isinstance(t, (T.List, T.Seq)):
            return t.elem
        if isinstance(t, T.Ref):
            e = self.eng.class_elem(t.cls)
            if e is not None:
                return e
        raise Unsupported('%s has no element type' % t)

    def is_listlike(self, v):
        t = v.t
        return isinstance(t, (T.List, T.Seq)) or (isinstance(t, T.Ref) and t.cls != '$any' and self.eng.class_elem(t.cls) is not None)

    def from_storage(self, z, t):
        return SV(t, z)

    def raise_if(self, st, cond, exc, where=''):
        """Code mode: the current primitive raises `exc` when cond holds."""
        if self.spec:
            return
        if z3.is_false(cond):
            return
        e = st.copy()
        e.assume(cond, True)
        self.exits.append((e, exc, where))
        st.assume(z3.Not(cond), True)

    def nonnull(self, v, st, what='attribute'):
        if v.t.reflike and v.t.nullable:
            self.raise_if(st, v.z == 0, 'AttributeError' if what == 'attribute' else 'TypeError', what + ' on None')
        elif isinstance(v.t, T._None):
            self.raise_if(st, z3.BoolVal(True), 'AttributeError', what + ' on None')
            raise Unsupported('definite None dereference')

    # ------------------------------------------------------------------ equality
    def eq(self, a, b, st):
        ta, tb = a.t, b.t
        if is_none(a) and is_none(b):
            return z3.BoolVal(True)
        if is_none(a):
            a, b, ta, tb = b, a, tb, ta
        if is_none(b):
            if ta.reflike:
                return a.z == 0
            if isinstance(ta, T.Opt):
                return ta.is_none(a.z)
            return z3.BoolVal(False)
        if self.is_listlike(a) and self.is_listlike(b) and (self.spec or isinstance(ta, T.Seq) or isinstance(tb, T.Seq)
                                                            or isinstance(ta, T.List) or isinstance(tb, T.List)):
            if isinstance(ta, T.Ref) and isinstance(tb, T.Ref):
                return a.z == b.z
            sa, sb = self.as_seq(a, st), self.as_seq(b, st)
            if sa.t.elem != sb.t.elem or (not self.spec and sa.t.elem.reflike and getattr(self.eng.prop, 'hook_eq', None) is not None):
                # element-wise Python equality (elements of different static types, or classes with their own __eq__)
                k = z3.Int(fresh_name('k'))
                ea = SV(sa.t.elem, z3.Select(seq_arr(sa), k))
                eb = SV(sb.t.elem, z3.Select(seq_arr(sb), k))
                self.bound.append({})
                try:
                    body = self.eq(ea, eb, st)
                finally:
                    self.bound.pop()
                n_ = seq_len(sa)
                # boundary instances (first / last element) are stated explicitly: they give the solver ground terms to start from
                first = z3.Implies(n_ > 0, z3.substitute(body, (k, I(0))))
                last = z3.Implies(n_ > 0, z3.substitute(body, (k, n_ - 1)))
                return z3.And(n_ == seq_len(sb), z3.ForAll([k], z3.Implies(z3.And(0 <= k, k < n_), body)), first, last)
            return seq_eq(sa, sb)
        if isinstance(ta, T.Seq) or isinstance(tb, T.Seq):
            raise Unsupported('seq == %s' % tb)
        if ta.reflike and tb.reflike:
            hook = self.eq_hook(a, b, st)
            if hook is not None:
                return hook
            return a.z == b.z
        if isinstance(ta, T.Set) and isinstance(tb, T.Set):
            return a.z == b.z
        try:
            t = unify(ta, tb)
        except Unsupported:
            # values of unrelated types are never equal in Python (int vs str ...)
            if self.eq_hook(a, b, st) is not None:
                return self.eq_hook(a, b, st)
            return z3.BoolVal(False)
        return coerce(a, t).z == coerce(b, t).z

    def eq_hook(self, a, b, st):
        h = getattr(self.eng.prop, 'hook_eq', None)
        return h(self, a, b, st) if h else None

    # ------------------------------------------------------------------ main dispatcher
    def ev(self, n, st):
        m = getattr(self, 'ev_' + type(n).__name__, None)
        if m is None:
            raise Unsupported('expression %s at line %s' % (type(n).__name__, getattr(n, 'lineno', '?')))
        return m(n, st)

    def ev_Constant(self, n, st):
        v = n.value
        if v is None:
            return none_sv()
        if isinstance(v, bool):
            return SV(T.Bool, z3.BoolVal(v))
        if isinstance(v, int):
            return SV(T.Int, I(v))
        if isinstance(v, str):
            return SV(T.Str, z3.StringVal(v))
        if isinstance(v, float):
            return SV(T.Real, z3.RealVal(repr(v)))
        raise Unsupported('constant %r' % (v,))

    def const_sv(self, v):
        if isinstance(v, SV):
            return v
        if v is None or isinstance(v, (bool, int, str, float)):
            return self.ev_Constant(ast.Constant(v), None)
        if isinstance(v, (list, tuple)):
            vs = [self.const_sv(x) for x in v]
            if not vs:
                raise Unsupported('empty constant sequence')
            et = vs[0].t
            arr = z3.K(z3.IntSort(), vs[0].z)
            for i, x in enumerate(vs):
                arr = z3.Store(arr, I(i), coerce(x, et).z)
            return mk_seq(et, I(len(vs)), arr)
        raise Unsupported('constant %r' % (v,))

    def ev_Name(self, n, st):
        nm = n.id
        for b in reversed(self.bound):
            if nm in b:
                return b[nm]
        if nm in st.locals:
            v = st.locals[nm]
            if v is None:
                raise Unsupported('local %s may be unbound here (line %s)' % (nm, getattr(n, 'lineno', '?')))
            if isinstance(v.t, T.List) and isinstance(v.t.elem, (T.Ref, T.List, T.Dict)) and st is not None:
                self.assume_class(v, st)      # element typing of the list in the current heap (cached per heap version)
            return v
        if nm in ('True', 'False'):
            return SV(T.Bool, z3.BoolVal(nm == 'True'))
        if nm in self.eng.prop.consts:
            return self.const_sv(self.eng.prop.consts[nm])
        if nm in st.ghost:
            return st.ghost[nm]
        raise Unsupported('name %s (line %s)' % (nm, getattr(n, 'lineno', '?')))

    def ev_Tuple(self, n, st):
        vs = [self.ev(e, st) for e in n.elts]
        return self.mk_tuple(vs)

    def mk_tuple(self, vs):
        vs = [v if not is_none(v) else v for v in vs]
        for v in vs:
            if is_none(v):
                raise Unsupported('None inside a tuple value')
        tt = T.Tuple([v.t for v in vs])
        return SV(tt, tt.mk([v.z for v in vs]), aux=vs)

    def tuple_items(self, v):
        if isinstance(v.aux, list):
            return v.aux
        return [SV(t, v.t.get(v.z, i)) for i, t in enumerate(v.t.ts)]

    def ev_UnaryOp(self, n, st):
        v = self.ev(n.operand, st)
        if isinstance(n.op, ast.Not):
            return SV(T.Bool, z3.Not(self.truthy(v, st)))
        if self.is_opaque(v):
            return self.opaque_result(v.t.cls, st)
        if isinstance(n.op, ast.USub):
            if isinstance(v.t, T._Bool):
                v = coerce(v, T.Int)
            if isinstance(v.t, (T._Int, T._Real)):
                return SV(v.t, -v.z)
        if isinstance(n.op, ast.UAdd) and isinstance(v.t, (T._Int, T._Real)):
            return v
        raise Unsupported('unary %s on %s' % (type(n.op).__name__, v.t))

    def ev_BoolOp(self, n, st):
        """Python and/or: value semantics when all operands are bool, otherwise value of the deciding operand."""
        is_and = isinstance(n.op, ast.And)
        return self._boolop(n.values, is_and, st)

    def _boolop(self, values, is_and, st):
        first = self.ev(values[0], st)
        if len(values) == 1:
            return first
        c = self.truthy(first, st)
        go = c if is_and else z3.Not(c)
        if self.spec:
            rest = self._boolop(values[1:], is_and, st)
            if isinstance(first.t, T._Bool) and isinstance(rest.t, T._Bool):
                return SV(T.Bool, z3.And(first.z, rest.z) if is_and else z3.Or(first.z, rest.z))
            if isinstance(rest.t, T._Bool) or isinstance(first.t, T._Bool):
                # mixed: only truthiness is meaningful
                tr = self.truthy(rest, st)
                return SV(T.Bool, z3.And(c, tr) if is_and else z3.Or(c, tr))
            return ite(go, rest, first)
        # code mode: evaluate the rest on a branch state (it may raise / have effects)
        br = st.copy()
        br.assume(go, True)
        n_exits = len(self.exits)
        rest = self._boolop(values[1:], is_and, br)
        changed = any(not (br.heap.get(k) is st.heap.get(k)) for k in br.heap) or len(br.heap) != len(st.heap)
        new_exits = len(self.exits) > n_exits
        # conditions under which the rest raised are recorded with pc including `go`; the fall-through of the
        # branch carries extra assumptions (negated raise conditions) that must be kept, guarded by `go`.
        extra = br.pc[len(st.pc) + 1:]
        for e in extra:
            st.assume(z3.Implies(go, e))
        st.axd = br.axd
        if changed:
            for k in br.heap:
                a, b = br.heap[k], st.h(k)
                if a is not b:
                    st.heap[k] = z3.If(go, a, b)
        if isinstance(first.t, T._Bool) and isinstance(rest.t, T._Bool):
            return SV(T.Bool, z3.And(first.z, rest.z) if is_and else z3.Or(first.z, rest.z))
        if not is_and and isinstance(first.t, T.Opt) and not first.t.reflike and rest.t == first.t.t:
            # `x or default`: a falsy x (None included) is replaced, so the result is never None
            return SV(rest.t, z3.If(c, first.t.val(first.z), rest.z))
        try:
            return ite(go, rest, first)
        except Unsupported:
            tr = self.truthy(rest, st)
            return SV(T.Bool, z3.And(c, tr) if is_and else z3.Or(c, tr))

    def ev_IfExp(self, n, st):
        c = self.truthy(self.ev(n.test, st), st)
        if self.spec:
            a = self.ev(n.body, st)
            b = self.ev(n.orelse, st)
            return ite(c, a, b)
        sa, sb = st.copy(), st.copy()
        sa.assume(c, True)
        sb.assume(z3.Not(c), True)
        a = self.ev(n.body, sa)
        b = self.ev(n.orelse, sb)
        n0 = len(st.pc)
        for e in sa.pc[n0 + 1:]:
            st.assume(z3.Implies(c, e))
        for e in sb.pc[n0 + 1:]:
            st.assume(z3.Implies(z3.Not(c), e))
        keys = set(sa.heap) | set(sb.heap)
        for k in keys:
            x, y = sa.h(k), sb.h(k)
            st.heap[k] = x if x is y else z3.If(c, x, y)
        st.axd = {**sa.axd, **sb.axd}
        return ite(c, a, b)

    # ------------------------------------------------------------------ arithmetic / strings
    def ev_BinOp(self, n, st):
        a = self.ev(n.left, st)
        b = self.ev(n.right, st)
        return self.binop(n.op, a, b, st, n)

    def unwrap_opt(self, v, st):
        """Operand of an arithmetic / ordering operator: None raises TypeError, otherwise the payload."""
        if isinstance(v.t, T.Opt) and not v.t.reflike:
            self.raise_if(st, v.t.is_none(v.z), 'TypeError', 'operator on None')
            return SV(v.t.t, v.t.val(v.z))
        return v

    def is_opaque(self, v):
        """A reference typed with a universal class (an arbitrary Python object): operators on it are uninterpreted."""
        t = v.t
        if isinstance(t, T.Ref) and t.cls != '$any':
            d = self.eng.prop.classes.get(t.cls)
            return d is not None and d.universal
        return False

    def opaque_result(self, cls, st):
        r = z3.Int(fresh_name('opq'))
        st.assume(r >= 0)
        st.assume(r <= st.h(('alloc',)) + 0) if False else None
        return SV(T.Ref(cls, True), r)

    def binop(self, op, a, b, st, n=None):
        if self.is_opaque(a) or self.is_opaque(b):
            # arithmetic / concatenation on arbitrary objects (tokens, numbers, dimensions): an unconstrained result
            cls = a.t.cls if self.is_opaque(a) else b.t.cls
            return self.opaque_result(cls, st)
        a, b = self.unwrap_opt(a, st), self.unwrap_opt(b, st)
        ta, tb = a.t, b.t
        num = (T._Int, T._Real, T._Bool)
        if isinstance(op, ast.Mod) and isinstance(ta, T._Str):
            return self.str_format(a, b, st, n)
        if isinstance(ta, num) and isinstance(tb, num):
            if isinstance(ta, T._Bool):
                a = coerce(a, T.Int)
            if isinstance(tb, T._Bool):
                b = coerce(b, T.Int)
            real = isinstance(a.t, T._Real) or isinstance(b.t, T._Real)
            if isinstance(op, ast.Div):
                real = True
            if real:
                a, b = coerce(a, T.Real), coerce(b, T.Real)
            if isinstance(op, ast.Add):
                return SV(a.t, a.z + b.z)
            if isinstance(op, ast.Sub):
                return SV(a.t, a.z - b.z)
            if isinstance(op, ast.Mult):
                return SV(a.t, a.z * b.z)
            if isinstance(op, ast.Div):
                self.raise_if(st, b.z == 0, 'ZeroDivisionError', 'division')
                return SV(T.Real, a.z / b.z)
            if isinstance(op, (ast.FloorDiv, ast.Mod)) and not real:
                self.raise_if(st, b.z == 0, 'ZeroDivisionError', 'division')
                q, r = py_divmod(a.z, b.z)
                return SV(T.Int, q if isinstance(op, ast.FloorDiv) else r)
            raise Unsupported('numeric op %s' % type(op).__name__)
        if isinstance(ta, T._Str) and isinstance(tb, T._Str) and isinstance(op, ast.Add):
            if getattr(self.eng.prop, 'charset_mode', False) and not (z3.is_string_value(a.z) and z3.is_string_value(b.z)):
                # named concatenation so that the character-set axioms can be triggered on it
                cat = self.uf('str_cat', [T.Str, T.Str], T.Str)
                app = cat(a.z, b.z)
                st.add_axiom(('str_cat', app.get_id()), app == z3.Concat(a.z, b.z))
                self.charset_axioms(st)
                return SV(T.Str, app)
            return SV(T.Str, z3.Concat(a.z, b.z))
        if isinstance(op, ast.Mult) and isinstance(ta, T._Str) and isinstance(tb, T._Int):
            return self.call_spec_or_uf('rep', [a, b], st)
        if isinstance(op, ast.Add) and self.is_listlike(a) and self.is_listlike(b):
            sa, sb = self.as_seq(a, st), self.as_seq(b, st)
            r = self.seq_concat(sa, sb)
            if self.spec:
                return r
            return self.new_list_from_seq(r, st)
        if isinstance(ta, T.Set) and isinstance(tb, T.Set):
            if isinstance(op, ast.BitOr):
                return SV(ta, z3.SetUnion(a.z, b.z))
            if isinstance(op, ast.BitAnd):
                return SV(ta, z3.SetIntersect(a.z, b.z))
            if isinstance(op, ast.Sub):
                return SV(ta, z3.SetDifference(a.z, b.z))
        raise Unsupported('binary %s on %s, %s (line %s)' % (type(op).__name__, ta, tb, getattr(n, 'lineno', '?')))

    def seq_concat(self, sa, sb):
        et = sa.t.elem
        k = z3.Int(fresh_name('k'))
        la = seq_len(sa)
        arr = z3.Lambda([k], z3.If(k < la, z3.Select(seq_arr(sa), k), z3.Select(seq_arr(sb), k - la)))
        return mk_seq(et, la + seq_len(sb), arr)

    def str_format(self, a, b, st, n):
        if not z3.is_string_value(a.z):
            # a format string computed at run time: the result is some string (nothing is known about it)
            self.eng.notes.append('%% formatting with a computed format string at line %s: result abstracted to an arbitrary string' % getattr(n, 'lineno', '?'))
            return SV(T.Str, z3.String(fresh_name('fmtdyn')))
        fmt = a.z.as_string()
        args = self.tuple_items(b) if isinstance(b.t, T.Tuple) else [b]
        parts, i, ai = [], 0, 0
        cur = ''
        while i < len(fmt):
            if fmt[i] == '%' and i + 1 < len(fmt):
                if fmt[i + 1] == '%':
                    cur += '%'
                    i += 2
                    continue
                if fmt[i + 1:i + 4] == '.3d':
                    if cur:
                        parts.append(z3.StringVal(cur))
                        cur = ''
                    v = args[ai]
                    ai += 1
                    parts.append(self.call_spec_or_uf('fmt_03d', [v], st).z)
                    i += 4
                    continue
                if fmt[i + 1] in 'sd':
                    if cur:
                        parts.append(z3.StringVal(cur))
                        cur = ''
                    v = args[ai]
                    ai += 1
                    parts.append(self.to_str(v, st).z)
                    i += 2
                    continue
                raise Unsupported('format spec in %r' % fmt)
            cur += fmt[i]
            i += 1
        if cur:
            parts.append(z3.StringVal(cur))
        if ai != len(args):
            raise Unsupported('format arg count')
        if len(parts) == 1:
            return SV(T.Str, parts[0])
        return SV(T.Str, z3.Concat(*parts))

    def to_str(self, v, st):
        if isinstance(v.t, T._Str):
            return v
        if isinstance(v.t, T.Opt) and isinstance(v.t.t, T._Str):
            return SV(T.Str, z3.If(v.t.is_none(v.z), z3.StringVal('None'), v.t.val(v.z)))
        if isinstance(v.t, T._Int):
            return self.call_spec_or_uf('int_to_str', [v], st)
        if v.t.reflike:
            f = self.uf('obj_str', [T.Ref('$any')], T.Str)      # str(obj): uninterpreted
            return SV(T.Str, f(v.z))
        raise Unsupported('str() of %s' % v.t)

    def type_test(self, n, st):
        """type(X) == T / type(X) is T / != / is not, for builtin T: exact-type test."""
        if len(n.ops) != 1 or not isinstance(n.ops[0], (ast.Eq, ast.Is, ast.NotEq, ast.IsNot)):
            return None
        a, b = n.left, n.comparators[0]

        def is_type_call(x):
            return isinstance(x, ast.Call) and isinstance(x.func, ast.Name) and x.func.id == 'type' and len(x.args) == 1
        if is_type_call(a) and is_type_call(b):
            # type(x) is type(y): the two objects have the same dynamic class
            x, y = self.ev(a.args[0], st), self.ev(b.args[0], st)
            if isinstance(x.t, T.Ref) and isinstance(y.t, T.Ref):
                r = z3.And(x.z != 0, y.z != 0, self.eng.cls_of(x.z) == self.eng.cls_of(y.z))
                if isinstance(n.ops[0], (ast.NotEq, ast.IsNot)):
                    r = z3.Not(r)
                return SV(T.Bool, r)
        if not (isinstance(a, ast.Call) and isinstance(a.func, ast.Name) and a.func.id == 'type' and len(a.args) == 1
                and isinstance(b, ast.Name) and b.id in ('str', 'int', 'bool', 'float', 'list', 'dict', 'tuple')):
            return None
        v = self.ev(a.args[0], st)
        prim = {'str': T._Str, 'int': T._Int, 'bool': T._Bool, 'float': T._Real, 'list': T.List, 'dict': T.Dict, 'tuple': T.Tuple}[b.id]
        t = v.t
        if isinstance(t, T.Opt) and not t.reflike:
            r = z3.And(z3.Not(t.is_none(v.z)), z3.BoolVal(isinstance(t.t, prim)))
        else:
            r = z3.BoolVal(isinstance(t, prim) and not (isinstance(t, T.List) and False))
            if isinstance(t, (T.List, T.Dict)) and t.nullable:
                r = z3.And(v.z != 0, r)
        if isinstance(n.ops[0], (ast.NotEq, ast.IsNot)):
            r = z3.Not(r)
        return SV(T.Bool, r)

    def ev_Compare(self, n, st):
        tt = self.type_test(n, st)
        if tt is not None:
            return tt
        left = self.ev(n.left, st)
        conds = []
        for op, rn in zip(n.ops, n.comparators):
            right = self.ev_cmp_rhs(op, rn, st)
            conds.append(self.compare(op, left, right, st, n))
            left = right
        return SV(T.Bool, zand(conds))

    def ev_cmp_rhs(self, op, rn, st):
        # `x in list(d.keys())`, `x in d.keys()` -> dict membership without building a list
        if isinstance(op, (ast.In, ast.NotIn)):
            inner = rn
            if isinstance(inner, ast.Call) and isinstance(inner.func, ast.Name) and inner.func.id in ('list', 'tuple') \
                    and len(inner.args) == 1:
                inner = inner.args[0]
            if isinstance(inner, ast.Call) and isinstance(inner.func, ast.Attribute) and inner.func.attr == 'keys' \
                    and not inner.args:
                d = self.ev(inner.func.value, st)
                if isinstance(d.t, T.Dict):
                    self.nonnull(d, st)
                    return d
            if isinstance(rn, (ast.List, ast.Tuple)):
                return SV(None, None, aux=[self.ev(e, st) for e in rn.elts])
        return self.ev(rn, st)

    def compare(self, op, a, b, st, n=None):
        if isinstance(op, ast.Eq):
            return self.eq(a, b, st)
        if isinstance(op, ast.NotEq):
            return z3.Not(self.eq(a, b, st))
        if isinstance(op, ast.Is):
            return self.identical(a, b)
        if isinstance(op, ast.IsNot):
            return z3.Not(self.identical(a, b))
        if isinstance(op, (ast.In, ast.NotIn)):
            if self.is_opaque(a) and isinstance(b.t, (T._Str, T.Seq)) and getattr(self.eng.prop, 'hook_in', None) is None \
                    and not (isinstance(b.t, T._Str) and getattr(self.eng.prop, 'token_in_str', False)):
                return z3.Bool(fresh_name('opq_in'))       # membership of an arbitrary object: unconstrained
            r = self.contains(b, a, st)
            return r if isinstance(op, ast.In) else z3.Not(r)
        num = (T._Int, T._Real, T._Bool)
        a, b = self.unwrap_opt(a, st), self.unwrap_opt(b, st)
        if isinstance(a.t, num) and isinstance(b.t, num):
            t = T.Real if (isinstance(a.t, T._Real) or isinstance(b.t, T._Real)) else T.Int
            x, y = coerce(a, t).z, coerce(b, t).z
        elif isinstance(a.t, T._Str) and isinstance(b.t, T._Str):
            x, y = a.z, b.z
            if isinstance(op, ast.Lt):
                return z3.StrLT(x, y) if hasattr(z3, 'StrLT') else x < y
            if isinstance(op, ast.LtE):
                return x <= y
            if isinstance(op, ast.Gt):
                return y < x
            if isinstance(op, ast.GtE):
                return y <= x
        else:
            h = self.cmp_hook(op, a, b, st)
            if h is not None:
                return h
            if self.is_opaque(a) or self.is_opaque(b):
                return z3.Bool(fresh_name('opq_cmp'))
            raise Unsupported('comparison %s on %s, %s (line %s)' % (type(op).__name__, a.t, b.t, getattr(n, 'lineno', '?')))
        if isinstance(op, ast.Lt):
            return x < y
        if isinstance(op, ast.LtE):
            return x <= y
        if isinstance(op, ast.Gt):
            return x > y
        if isinstance(op, ast.GtE):
            return x >= y
        raise Unsupported('comparison op')

    def cmp_hook(self, op, a, b, st):
        h = getattr(self.eng.prop, 'hook_cmp', None)
        return h(self, op, a, b, st) if h else None

    def identical(self, a, b):
        if is_none(a) and is_none(b):
            return z3.BoolVal(True)
        if is_none(a):
            a, b = b, a
        if is_none(b):
            if a.t.reflike:
                return a.z == 0
            if isinstance(a.t, T.Opt):
                return a.t.is_none(a.z)
            return z3.BoolVal(False)
        if a.t.reflike and b.t.reflike:
            return a.z == b.z
        if isinstance(a.t, T._Bool) and isinstance(b.t, T._Bool):
            return a.z == b.z
        raise Unsupported('`is` on %s, %s' % (a.t, b.t))

    def str_contains(self, z, x, st=None):
        """x in z for strings.  In charset mode (Prop.charset_mode) membership of a one-character x is the uninterpreted
        predicate chr_in(x, z) -- "x is one of the characters of z" -- axiomatised for literals, concatenation (str_cat)
        and deletion of a character (A10); otherwise plain substring containment."""
        if not getattr(self.eng.prop, 'charset_mode', False) or st is None:
            return z3.Contains(z, x)
        return z3.If(z3.Length(x) == 1, self.chr_in(x, z, st), z3.Contains(z, x))

    def chr_in(self, x, z, st, depth=0):
        f = self.uf('chr_in', [T.Str, T.Str], T.Bool)
        z = z3.simplify(z) if depth == 0 else z
        if z3.is_string_value(z):
            return zor([x == z3.StringVal(ch) for ch in sorted(set(z.as_string()))])
        if z3.is_app(z) and depth < 30:
            k = z.decl().kind()
            if k == z3.Z3_OP_ITE:
                c, a, b = z.children()
                return z3.If(c, self.chr_in(x, a, st, depth + 1), self.chr_in(x, b, st, depth + 1))
            if k == z3.Z3_OP_SEQ_CONCAT:
                return zor([self.chr_in(x, p_, st, depth + 1) for p_ in z.children()])
        app = f(x, z)
        self.charset_axioms(st)
        return app

    def charset_axioms(self, st):
        f = self.uf('chr_in', [T.Str, T.Str], T.Bool)
        rep = self.uf('str_replace', [T.Str, T.Str, T.Str], T.Str)
        cat = self.uf('str_cat', [T.Str, T.Str], T.Str)
        x, s_, a, t_ = z3.Strings('cx cs ca ct')
        e = z3.StringVal('')
        st.add_axiom(('charset', 'del'), z3.ForAll([x, s_, a], z3.Implies(z3.And(z3.Length(x) == 1, z3.Length(a) == 1),
                     f(x, rep(s_, a, e)) == z3.And(f(x, s_), x != a)), patterns=[f(x, rep(s_, a, e))]))
        st.add_axiom(('charset', 'cat'), z3.ForAll([x, s_, t_], z3.Implies(z3.Length(x) == 1,
                     f(x, cat(s_, t_)) == z3.Or(f(x, s_), f(x, t_))), patterns=[f(x, cat(s_, t_))]))
        st.add_axiom(('charset', 'one'), z3.ForAll([x, a], z3.Implies(z3.And(z3.Length(x) == 1, z3.Length(a) == 1),
                     f(x, a) == (x == a)), patterns=[f(x, a)]))
        st.add_axiom(('charset', 'empty'), z3.ForAll([x], z3.Not(f(x, e)), patterns=[f(x, e)]))

    def contains(self, c, x, st):
        """x in c"""
        if c.t is None and c.aux is not None:     # literal list/tuple of alternatives
            return zor([self.eq(x, e, st) for e in c.aux])
        t = c.t
        if isinstance(t, T.Dict):
            has = self.rd(st, self.eng.k_dhas(t.k, t.v), c.z)
            return z3.Select(has, coerce(x, t.k).z)
        if isinstance(t, T.Set):
            return z3.Select(c.z, coerce(x, t.elem).z)
        if isinstance(t, T.Map):
            return z3.Select(t.has(c.z), coerce(x, t.k).z)
        if isinstance(t, T._Str) and isinstance(x.t, T._Str):
            return self.str_contains(c.z, x.z, st)
        if isinstance(t, T.Tuple):
            return zor([self.eq(x, e, st) for e in self.tuple_items(c)])
        if isinstance(t, T._Str) and isinstance(x.t, T.Ref) and getattr(self.eng.prop, 'token_in_str', False) and self.declares_field(x.t.cls, 'text'):
            # a Token is a str subclass: `token in "0123..."` is the substring test on its characters (the field `text`)
            self.nonnull(x, st, 'in')
            return self.str_contains(c.z, self.getattr(x, 'text', st).z, st)
        if isinstance(t, T.Ref) and t.cls != '$any' and not self.spec:
            for mname in ('__contains__',):
                m = self.eng.find_method(t.cls, mname)
                if m is not None:
                    self.nonnull(c, st, 'in')
                    return self.truthy(self.call_contract(m, [c, x], {}, st, None), st)
        dv = self.dictview(c)
        if dv is not None:
            return self.contains(dv, x, st)
        if self.is_listlike(c):
            s = self.as_seq(c, st)
            k = z3.Int(fresh_name('k'))
            ev = SV(s.t.elem, z3.Select(seq_arr(s), k))
            return z3.Exists([k], z3.And(0 <= k, k < seq_len(s), self.eq(x, ev, st)))
        raise Unsupported('`in` on %s' % t)

    # ------------------------------------------------------------------ attributes
    def ev_Attribute(self, n, st):
        # class-level constants:  Node.DOCUMENT_FRAGMENT_NODE, Token.CC_OTHER, sys.maxsize
        src = ast.unparse(n)
        if src in self.eng.prop.consts:
            return self.const_sv(self.eng.prop.consts[src])
        if src in self.c.calls and isinstance(n.ctx, ast.Load):
            # attribute read resolved by a contract (a property of an object whose class is not modelled)
            return self.call_contract(self.eng.prop.contracts[self.c.calls[src]], [self.ev(n.value, st)], {}, st, n)
        obj = self.ev(n.value, st)
        return self.getattr(obj, n.attr, st, n)

    def declares_field(self, cls, attr):
        for c in self.eng.class_chain(cls):
            d = self.eng.prop.classes.get(c)
            if d is not None and attr in d.fields:
                return True
        return False

    def getattr(self, obj, attr, st, n=None):
        t = obj.t
        if isinstance(t, T.Ref) or (t.reflike and attr in self.eng.prop.field_variants):
            self.nonnull(obj, st)
            if isinstance(t, T.Ref) and t.cls != '$any':
                cv = self.eng.class_const(t.cls, attr)
                if cv is not None:
                    return self.const_sv(cv)
                pc = self.eng.find_prop(t.cls, attr)
                if pc is not None:
                    return self.call_contract(pc, [obj], {}, st, n)
            if isinstance(t, T.Ref) and t.cls != '$any' and not self.declares_field(t.cls, attr) and (self.eng.find_method(t.cls, attr) is not None or
                                                                   (self.dictview(obj) is not None and attr in ('update', 'get', 'keys', 'has_key'))):
                # attribute read that names a method: a bound method object (only its identity is modelled)
                return self.bound_method(obj, attr)
            fid = self.eng.fid(attr, t.cls if isinstance(t, T.Ref) else None)
            ft = self.eng.field_type(fid)
            if attr in getattr(self.eng.prop, 'optional_attrs', ()) and not self.spec:
                # an attribute that may be absent: reading it raises AttributeError (hasattr / has-bit)
                self.raise_if(st, z3.Not(z3.Select(st.h(self.eng.k_has(fid)), obj.z)), 'AttributeError', 'missing attribute %s' % attr)
            z = self.rd(st, self.eng.k_field(fid), obj.z)
            if ft.reflike and (not self.spec or not self.involves_bound([z])):
                st.assume(z <= st.h(('alloc',)))
                st.assume(z >= 0)
                if not ft.nullable:
                    st.assume(z > 0)
                self.assume_class(SV(ft, z), st)
            return SV(ft, z)
        if isinstance(t, T.Tuple) and attr.startswith('_') and attr[1:].isdigit():
            i = int(attr[1:])
            return self.tuple_items(obj)[i]
        raise Unsupported('attribute .%s on %s (line %s)' % (attr, t, getattr(n, 'lineno', '?')))

    # ------------------------------------------------------------------ subscripts
    def norm_index(self, i, n):
        if z3.is_int_value(i):
            return i + n if i.as_long() < 0 else i
        if self.spec:
            # spec expressions: only literal negative indices count from the end
            return i
        return z3.If(i < 0, i + n, i)

    def ev_Subscript(self, n, st):
        src = ast.unparse(n)
        if src in self.c.calls and not self.spec:
            # a subscript whose value is given by a (trusted) accessor contract, e.g. attrs['rel'] of a parsed macro
            return self.call_contract(self.eng.prop.contracts[self.c.calls[src]], [], {}, st, n)
        obj = self.ev(n.value, st)
        if isinstance(n.slice, ast.Slice):
            return self.slice(obj, n.slice, st)
        idx = self.ev(n.slice, st)
        return self.getitem(obj, idx, st, n)

    def dictview(self, obj):
        """An instance of a declared dict subclass seen as the dict it is (raw dict content, not the overridden protocol)."""
        t = obj.t
        if isinstance(t, T.Ref) and t.cls != '$any':
            dt = self.eng.class_dictof(t.cls)
            if dt is not None:
                return SV(dt, obj.z)
        return None

    def getitem(self, obj, idx, st, n=None):
        t = obj.t
        if isinstance(t, T.Dict):
            self.nonnull(obj, st, 'subscript')
            k = coerce(idx, t.k)
            has = self.rd(st, self.eng.k_dhas(t.k, t.v), obj.z)
            self.raise_if(st, z3.Not(z3.Select(has, k.z)), 'KeyError', 'dict lookup')
            z = z3.Select(self.rd(st, self.eng.k_dval(t.k, t.v), obj.z), k.z)
            return self.loaded(SV(t.v, z), st, guard=z3.Select(has, k.z))
        if isinstance(t, T.Map):
            k = coerce(idx, t.k)
            return SV(t.v, z3.Select(t.mval(obj.z), k.z))
        if isinstance(t, T.Tuple):
            if not z3.is_int_value(idx.z):
                raise Unsupported('tuple index must be constant')
            return self.tuple_items(obj)[idx.z.as_long()]
        if isinstance(t, T._Str):
            if isinstance(idx.t, T._Bool):
                idx = coerce(idx, T.Int)
            ln = z3.Length(obj.z)
            self.raise_if(st, z3.Or(idx.z >= ln, idx.z < -ln), 'IndexError', 'string index')
            j = self.norm_index(idx.z, ln)
            return SV(T.Str, z3.SubString(obj.z, j, 1))
        if isinstance(t, T.Ref) and t.cls != '$any' and not self.spec:
            m = self.eng.find_method(t.cls, '__getitem__')
            if m is not None:
                self.nonnull(obj, st, 'subscript')
                return self.call_contract(m, [obj, idx], {}, st, n)
        dv = self.dictview(obj)
        if dv is not None:
            return self.getitem(dv, idx, st, n)
        if self.is_listlike(obj):
            if not isinstance(t, T.Seq):
                self.nonnull(obj, st, 'subscript')
            s = self.as_seq(obj, st)
            if isinstance(idx.t, T._Bool):
                idx = coerce(idx, T.Int)
            if not isinstance(idx.t, T._Int):
                raise Unsupported('list index of type %s' % idx.t)
            ln = seq_len(s)
            self.raise_if(st, z3.Or(idx.z >= ln, idx.z < -ln), 'IndexError', 'list index')
            j = self.norm_index(idx.z, ln)
            return self.loaded(SV(s.t.elem, z3.Select(seq_arr(s), j)), st, guard=z3.And(0 <= j, j < ln))
        raise Unsupported('subscript on %s (line %s)' % (t, getattr(n, 'lineno', '?')))

    def loaded(self, v, st, guard=None):
        """A reference read out of an allocated container is itself allocated (heap closure).  In specifications the read may be
        out of range / of an absent key (protected by an enclosing implication): the facts are then conditional on `guard`."""
        if v.t.reflike and (not self.spec or not self.involves_bound([v.z])):
            if guard is not None and self.spec:
                st.assume(z3.Implies(guard, z3.And(v.z <= st.h(('alloc',)), v.z >= 0)))
                if not v.t.nullable:
                    st.assume(z3.Implies(guard, v.z > 0))
                if isinstance(v.t, T.Ref) and v.t.cls != '$any' and v.t.cls in self.eng.prop.classes:
                    st.assume(z3.Implies(z3.And(guard, v.z != 0), self.eng.instance_of(v.z, v.t.cls)))
                elif isinstance(v.t, (T.List, T.Dict)):
                    st.assume(z3.Implies(z3.And(guard, v.z != 0), self.eng.cls_of(v.z) == 0))
                return v
            st.assume(v.z <= st.h(('alloc',)))
            st.assume(v.z >= 0)
            if not v.t.nullable:
                st.assume(v.z > 0)
            self.assume_class(v, st)
        return v

    def assume_class(self, v, st):
        """Typing assumption: a reference read from a typed field / container is an instance of the declared class."""
        t = v.t
        if isinstance(t, T.Ref) and t.cls != '$any' and t.cls in self.eng.prop.classes:
            st.assume(z3.Implies(v.z != 0, self.eng.instance_of(v.z, t.cls)))
        elif isinstance(t, (T.List, T.Dict)):
            # a value of a builtin container type is an instance of no declared class (class id 0)
            st.assume(z3.Implies(v.z != 0, self.eng.cls_of(v.z) == 0))
            if isinstance(t, T.List) and isinstance(t.elem, (T.List, T.Dict)) and not self.involves_bound([v.z]):
                # heap typing: the elements of a list of (non-optional) builtin containers are containers
                arr = st.h(self.eng.k_elem(t.elem))
                ln = st.h(self.eng.k_len())
                key = ('$elemtyping', arr.get_id(), ln.get_id(), v.z.get_id(), t.elem.key)
                if key not in st.axd:
                    k = z3.Int(fresh_name('k'))
                    e = z3.Select(z3.Select(arr, v.z), k)
                    concl = [self.eng.cls_of(e) == 0] if t.elem.nullable else [e > 0, self.eng.cls_of(e) == 0]
                    guard = [v.z != 0, 0 <= k, k < z3.Select(ln, v.z)] + ([e != 0] if t.elem.nullable else [])
                    body = z3.Implies(z3.And(*guard), z3.And(*concl))
                    try:
                        ax = z3.ForAll([k], body, patterns=[e])
                    except z3.Z3Exception:
                        ax = z3.ForAll([k], body)
                    st.add_axiom(key, ax)
            if isinstance(t, T.List) and isinstance(t.elem, T.Ref) and t.elem.cls != '$any' and t.elem.cls in self.eng.prop.classes \
                    and not getattr(self.eng.prop.classes[t.elem.cls], 'universal', False) and not self.involves_bound([v.z]):
                # heap typing: the elements of a list[C] are instances of C (or None where the element type is nullable)
                arr = st.h(self.eng.k_elem(t.elem))
                ln = st.h(self.eng.k_len())
                key = ('$elemtyping', arr.get_id(), ln.get_id(), v.z.get_id(), t.elem.cls)
                if key not in st.axd:
                    k = z3.Int(fresh_name('k'))
                    e = z3.Select(z3.Select(arr, v.z), k)
                    if t.elem.nullable:
                        body = z3.Implies(z3.And(v.z != 0, 0 <= k, k < z3.Select(ln, v.z), e != 0), self.eng.instance_of(e, t.elem.cls))
                    else:
                        body = z3.Implies(z3.And(v.z != 0, 0 <= k, k < z3.Select(ln, v.z)), z3.And(e > 0, self.eng.instance_of(e, t.elem.cls)))
                    try:
                        ax = z3.ForAll([k], body, patterns=[e])
                    except z3.Z3Exception:
                        ax = z3.ForAll([k], body)
                    st.add_axiom(key, ax)

    def slice_bounds(self, sl, ln, st):
        if sl.step is not None:
            raise Unsupported('slice step')
        lo = I(0)
        hi = ln
        if sl.lower is not None:
            l = self.ev(sl.lower, st).z
            l = z3.If(l < 0, l + ln, l)
            lo = z3.If(l < 0, I(0), z3.If(l > ln, ln, l))
        if sl.upper is not None:
            u = self.ev(sl.upper, st).z
            u = z3.If(u < 0, u + ln, u)
            hi = z3.If(u < 0, I(0), z3.If(u > ln, ln, u))
        return lo, hi

    def slice(self, obj, sl, st):
        if isinstance(obj.t, T._Str):
            ln = z3.Length(obj.z)
            lo, hi = self.slice_bounds(sl, ln, st)
            return SV(T.Str, z3.SubString(obj.z, lo, z3.If(hi > lo, hi - lo, I(0))))
        if self.is_listlike(obj):
            s = self.as_seq(obj, st)
            ln = seq_len(s)
            lo, hi = self.slice_bounds(sl, ln, st)
            k = z3.Int(fresh_name('k'))
            n_ = z3.If(hi > lo, hi - lo, I(0))
            if self.spec:
                arr = z3.Lambda([k], z3.Select(seq_arr(s), k + lo))
                return mk_seq(s.t.elem, n_, arr)
            # code mode: the copy is a fresh array constant related to the source in both directions (so that quantifier
            # instantiation works from an index of the copy and from an index of the source)
            src_arr = seq_arr(s)
            arr = z3.Const(fresh_name('slice'), src_arr.sort())
            j = z3.Int(fresh_name('j'))
            b1 = z3.Implies(z3.And(0 <= k, k < n_), z3.Select(arr, k) == z3.Select(src_arr, k + lo))
            b2 = z3.Implies(z3.And(lo <= j, j < hi), z3.Select(arr, j - lo) == z3.Select(src_arr, j))
            try:
                st.assume(z3.ForAll([k], b1, patterns=[z3.Select(arr, k)]))
            except z3.Z3Exception:
                st.assume(z3.ForAll([k], b1))
            try:
                st.assume(z3.ForAll([j], b2, patterns=[z3.Select(src_arr, j)]))
            except z3.Z3Exception:
                pass
            return self.new_list_from_seq(mk_seq(s.t.elem, n_, arr), st)
        raise Unsupported('slice of %s' % obj.t)

    # ------------------------------------------------------------------ literals of containers
    def ev_List(self, n, st):
        vs = [self.ev(e, st) for e in n.elts]
        hint = getattr(n, '_elem_hint', None)
        if not vs and hint is None and '[]' in self.c.locals:
            hint = self.eng.ptype(self.c.locals['[]']).elem
        if vs and hint is None and all(is_none(v) for v in vs) and '[None]' in self.c.locals:
            hint = self.eng.ptype(self.c.locals['[None]']).elem
        if not vs and hint is None:
            raise Unsupported('empty list literal needs a type hint (contract.locals) at line %s' % n.lineno)
        et = hint
        if et is None:
            et = vs[0].t
            for v in vs[1:]:
                et = unify(et, v.t)
        arr = z3.K(z3.IntSort(), self.default_z(self.eng.storage(et)))
        for i, v in enumerate(vs):
            arr = z3.Store(arr, I(i), coerce(v, et).z)
        s = mk_seq(et, I(len(vs)), arr)
        if self.spec:
            return s
        return self.new_list_from_seq(s, st)

    def default_z(self, t):
        if isinstance(t, (T._Int, T._None)) or t.reflike:
            return I(0)
        if isinstance(t, T._Bool):
            return z3.BoolVal(False)
        if isinstance(t, T._Str):
            return z3.StringVal('')
        if isinstance(t, T._Real):
            return z3.RealVal(0)
        return t.fresh(fresh_name('dflt'))

    def ev_Dict(self, n, st):
        hint = getattr(n, '_dict_hint', None)
        if hint is None and not n.keys and '{}' in self.c.locals:
            hint = self.eng.ptype(self.c.locals['{}'])
        if self.spec:
            raise Unsupported('dict literal in spec')
        if hint is None:
            if not n.keys:
                raise Unsupported('empty dict literal needs a type hint at line %s' % n.lineno)
            k0 = self.ev(n.keys[0], st)
            v0 = self.ev(n.values[0], st)
            hint = T.Dict(k0.t, v0.t)
        d = self.new_dict(hint, st)
        for kn, vn in zip(n.keys, n.values):
            self.dict_set(d, self.ev(kn, st), self.ev(vn, st), st)
        return d

    def ev_JoinedStr(self, n, st):
        parts = []
        for v in n.values:
            if isinstance(v, ast.Constant):
                parts.append(z3.StringVal(v.value))
            elif isinstance(v, ast.FormattedValue) and v.format_spec is None and v.conversion == -1:
                parts.append(self.to_str(self.ev(v.value, st), st).z)
            else:
                raise Unsupported('f-string feature')
        if not parts:
            return SV(T.Str, z3.StringVal(''))
        return SV(T.Str, z3.Concat(*parts) if len(parts) > 1 else parts[0])

    # ------------------------------------------------------------------ comprehension (spec: quantifiers; code: map/filter)
    def ev_ListComp(self, n, st):
        return self.comprehension_seq(n, st)

    def comprehension_seq(self, n, st):
        if len(n.generators) != 1:
            raise Unsupported('nested comprehension')
        g = n.generators[0]
        src = self.ev(g.iter, st)
        s = self.as_seq(src, st)
        if not g.ifs:
            # map: result[k] = f(s[k])
            k = z3.Int(fresh_name('k'))
            self.bound.append(self.bind_target(g.target, SV(s.t.elem, z3.Select(seq_arr(s), k))))
            self.qvars.append([k])
            was = self.spec
            self.spec = True
            try:
                e = self.ev(n.elt, st)
            finally:
                self.spec = was
                self.bound.pop()
                self.qvars.pop()
            r = mk_seq(e.t, seq_len(s), z3.Lambda([k], e.z))
            return r if self.spec else self.new_list_from_seq(r, st)
        # filter (with optional map): introduce a fresh sequence characterised by the FILTER spec axioms
        return self.filter_seq(n, g, s, st)

    def filter_seq(self, n, g, s, st):
        """[elt for x in xs if cond]: a fresh sequence R with a strictly increasing index map f into xs and its inverse g:
        R[k] == elt(xs[f(k)]), cond(xs[f(k)]); every xs[i] with cond(xs[i]) is some R[g(i)]."""
        if self.spec:
            raise Unsupported('filtering comprehension in a specification')
        ln = seq_len(s)
        src_arr = seq_arr(s)
        nres = z3.Int(fresh_name('fn'))
        f = z3.Function(fresh_name('fidx'), z3.IntSort(), z3.IntSort())
        gi = z3.Function(fresh_name('finv'), z3.IntSort(), z3.IntSort())
        k, a, b, i = (z3.Int(fresh_name(x)) for x in 'kabi')

        def at(idx):
            ev = SV(s.t.elem, z3.Select(src_arr, idx))
            self.bound.append(self.bind_target(g.target, ev))
            was = self.spec
            self.spec = True
            try:
                cond = zand([self.truthy(self.ev(c, st), st) for c in g.ifs])
                e = self.ev(n.elt, st)
            finally:
                self.spec = was
                self.bound.pop()
            return cond, e
        ck, ek = at(f(k))
        ci, _ = at(i)
        def fa(vs, body, pats=None):
            try:
                return z3.ForAll(vs, body, patterns=pats) if pats else z3.ForAll(vs, body)
            except z3.Z3Exception:
                return z3.ForAll(vs, body)
        res_arr = z3.Const(fresh_name('filt'), z3.ArraySort(z3.IntSort(), ek.t.sort() if not ek.t.reflike else z3.IntSort()))
        st.assume(z3.And(0 <= nres, nres <= ln))
        st.assume(fa([k], z3.Implies(z3.And(0 <= k, k < nres),
                                            z3.And(0 <= f(k), f(k) < ln, z3.Select(res_arr, k) == ek.z, ck, gi(f(k)) == k)),
                            pats=[z3.Select(res_arr, k)]))
        st.assume(fa([a, b], z3.Implies(z3.And(0 <= a, a < b, b < nres), f(a) < f(b)), pats=[z3.MultiPattern(f(a), f(b))]))
        st.assume(fa([i], z3.Implies(z3.And(0 <= i, i < ln, ci), z3.And(0 <= gi(i), gi(i) < nres, f(gi(i)) == i)),
                            pats=[z3.Select(src_arr, i)]))
        # consequences of the three axioms above, stated for the solver's benefit: the elements between two consecutive kept
        # ones, before the first and after the last kept one fail the condition
        m = z3.Int(fresh_name('m'))
        cm, _ = at(m)
        st.assume(fa([k, m], z3.Implies(z3.And(0 <= k, k + 1 < nres, f(k) < m, m < f(k + 1)), z3.Not(cm)),
                            pats=[z3.MultiPattern(f(k), z3.Select(src_arr, m))]))
        st.assume(fa([m], z3.Implies(z3.And(0 <= m, m < ln, z3.Or(nres == 0, m < f(0), m > f(nres - 1))), z3.Not(cm)),
                            pats=[z3.Select(src_arr, m)]))
        st.assume(z3.Implies(nres > 0, z3.And(0 <= f(0), f(nres - 1) < ln)))
        r = mk_seq(ek.t, nres, res_arr)
        return self.new_list_from_seq(r, st)

    def bind_target(self, target, v):
        if isinstance(target, ast.Name):
            return {target.id: v}
        if isinstance(target, ast.Tuple):
            items = self.tuple_items(v)
            out = {}
            for t_, it in zip(target.elts, items):
                out.update(self.bind_target(t_, it))
            return out
        raise Unsupported('binding target')

    def quantify(self, n, st, universal):
        """all(...)/any(...) over a generator expression."""
        if len(n.generators) != 1:
            inner = ast.GeneratorExp(elt=n.elt, generators=n.generators[1:])
            call = ast.Call(func=ast.Name(id='all' if universal else 'any', ctx=ast.Load()), args=[inner], keywords=[])
            outer = ast.GeneratorExp(elt=call, generators=n.generators[:1])
            ast.fix_missing_locations(ast.Expression(body=outer))
            return self.quantify(outer, st, universal)
        g = n.generators[0]
        it = g.iter
        guards = []
        if isinstance(it, ast.Call) and isinstance(it.func, ast.Name) and it.func.id == 'range':
            args = [self.ev(a, st) for a in it.args]
            k = z3.Int(fresh_name(g.target.id if isinstance(g.target, ast.Name) else 'q'))
            lo, hi = (I(0), args[0].z) if len(args) == 1 else (args[0].z, args[1].z)
            guards += [lo <= k, k < hi]
            binding = self.bind_target(g.target, SV(T.Int, k))
            qv = [k]
        elif isinstance(it, ast.Call) and isinstance(it.func, ast.Name) and it.func.id in ('Ints', 'Strs', 'Refs', 'Bools', 'OfType'):
            if it.func.id == 'Ints':
                t = T.Int
            elif it.func.id == 'Strs':
                t = T.Str
            elif it.func.id == 'Bools':
                t = T.Bool
            elif it.func.id == 'OfType':
                t = self.eng.ptype(it.args[0].value)
            else:
                t = T.Ref(it.args[0].value if isinstance(it.args[0], ast.Constant) else it.args[0].id)
            k = t.fresh(fresh_name(g.target.id))
            qv = [k]
            if isinstance(t, T.Ref):
                guards.append(k > 0)
                if t.cls != '$any':
                    guards.append(self.eng.instance_of(k, t.cls))
            binding = self.bind_target(g.target, SV(t, k))
        else:
            src = self.ev(it, st)
            if isinstance(src.t, T.Set):
                k = src.t.elem.fresh(fresh_name('q'))
                guards.append(z3.Select(src.z, k))
                binding = self.bind_target(g.target, SV(src.t.elem, k))
                qv = [k]
            elif isinstance(src.t, T._Str):
                k = z3.Int(fresh_name('q'))
                guards += [0 <= k, k < z3.Length(src.z)]
                binding = self.bind_target(g.target, SV(T.Str, z3.SubString(src.z, k, 1)))
                qv = [k]
            else:
                s = self.as_seq(src, st)
                k = z3.Int(fresh_name('q'))
                guards += [0 <= k, k < seq_len(s)]
                binding = self.bind_target(g.target, SV(s.t.elem, z3.Select(seq_arr(s), k)))
                qv = [k]
        self.bound.append(binding)
        self.qvars.append(qv)
        try:
            for c in g.ifs:
                guards.append(self.truthy(self.ev(c, st), st))
            body = self.truthy(self.ev(n.elt, st), st)
        finally:
            self.bound.pop()
            self.qvars.pop()
        if universal:
            return z3.ForAll(qv, z3.Implies(zand(guards), body))
        return z3.Exists(qv, z3.And(zand(guards), body))
