"""Sidecar contract language.  A sidecar module builds one `Prop` object.

Contracts are keyed by 'file::qualname' of the *real* function in the repository under test; loops by
static ordinal (source order) inside that function.  All conditions are Python expression strings which
are (a) translated to SMT by pyvc.engine and (b) evaluable by CPython for replay.
"""
import ast
import inspect
import textwrap


class Loop:
    def __init__(self, inv=(), decreases=None, index=None, seq=None, locals=None, modifies=None,
                 lemmas=(), havoc_extra=(), keep=(), at_end=(), at_head=(), at_exit=()):
        self.inv = [inv] if isinstance(inv, str) else list(inv)
        self.decreases = decreases
        self.index = index          # name under which the hidden iteration index is visible in invariants
        self.seq = seq              # name of the snapshot sequence (dict iteration / copies)
        self.locals = locals or {}  # types for locals first assigned inside the loop but live after it
        self.modifies = modifies
        self.lemmas = list(lemmas)
        self.havoc_extra = list(havoc_extra)
        self.keep = list(keep)
        self.at_end = [at_end] if isinstance(at_end, str) else list(at_end)
        self.at_head = [at_head] if isinstance(at_head, str) else list(at_head)
        # conditions proved (and then assumed) in every state that leaves the loop (exhaustion or break); entry(e) inside them is the
        # value of e when the loop was entered
        self.at_exit = [at_exit] if isinstance(at_exit, str) else list(at_exit)


class Mod:
    """Frame entry: objects r (of the old heap) whose `field` may be written; `where` is a predicate over r."""

    def __init__(self, field, where='True'):
        self.field = field  # field name, or 'list' (len+elements), 'dict'
        self.where = where


class Contract:
    def __init__(self, target, params=None, returns='none', requires=(), ensures=(), raises=None,
                 modifies=(), allocates=False, loops=None, decreases=None, locals=None, kind='function',
                 self_type=None, lemmas=(), exc_ensures=None, start_loop=None, start_assume=(),
                 name=None, notes='', trusted=False, body=None, stop_at_loop_exit=None, end_ensures=None,
                 calls=None, level='P', ghost=None, yields=None, rely=None, inline_src=None,
                 skip_frame=False, at_exit=(), fields=None, ghost_requires=(), ghost_sets=None,
                 start_after_loop=None, stop_after_loop=None, heap_consts=False, solver_ms=0, yield_type=None, yield_counter=None, stop_before_loop=None):
        self.target = target
        self.file, self.qualname = target.split('::') if '::' in target else (None, target)
        self.params = dict(params or {})
        self.returns = returns
        self.requires = [requires] if isinstance(requires, str) else list(requires)
        self.ensures = [ensures] if isinstance(ensures, str) else list(ensures)
        self.raises = dict(raises or {})        # exc class name -> condition over old state under which it MAY be raised
        self.exc_ensures = dict(exc_ensures or {})  # exc class name -> list of postconditions on raise
        self.modifies = list(modifies)
        self.allocates = allocates
        self.loops = dict(loops or {})
        self.decreases = decreases
        self.locals = dict(locals or {})
        self.kind = kind
        self.lemmas = list(lemmas)
        self.start_loop = start_loop
        self.start_assume = [start_assume] if isinstance(start_assume, str) else list(start_assume)
        self.name = name or self.qualname
        self.notes = notes
        self.trusted = trusted                  # contract assumed, body not verified (listed in evidence)
        self.body = body                        # for lemmas / ghost functions: python source text
        self.calls = dict(calls or {})          # call-site resolution overrides: source text of callee expr -> contract name
        self.level = level
        self.ghost = dict(ghost or {})
        self.yields = yields if isinstance(yields, dict) else ([yields] if isinstance(yields, str) else list(yields or []))
        self.rely = rely
        self.inline_src = inline_src
        self.skip_frame = skip_frame
        self.at_exit = [at_exit] if isinstance(at_exit, str) else list(at_exit)
        self.fields = dict(fields or {})
        self.ghost_sets = dict(ghost_sets or {})
        # tiling a function into segments at its top-level loops: a segment starts right after loop `start_after_loop` (locals from
        # contract.locals, start_assume as precondition) and ends right after loop `stop_after_loop`, where end_ensures is proved
        self.heap_consts = heap_consts
        self.solver_ms = solver_ms
        self.yield_type = yield_type          # generators: type of the yielded values
        self.yield_counter = yield_counter    # ghost global incremented at every yield
        self.start_after_loop = start_after_loop
        self.stop_after_loop = stop_after_loop
        self.stop_before_loop = stop_before_loop
        self.end_ensures = [end_ensures] if isinstance(end_ensures, str) else list(end_ensures or [])   # ghost global name -> expression (over old state) it is set to by a call


class ClassDecl:
    def __init__(self, name, bases=(), fields=None, elem=None, props=None, truthy=None, consts=None, attrmap=None, universal=False, dictof=None):
        self.name = name
        self.dictof = dictof        # if the class is a dict subclass: (key type, value type)
        self.bases = list(bases)
        self.fields = dict(fields or {})
        self.elem = elem            # if the class is a list subclass: element type
        self.props = dict(props or {})
        self.truthy = truthy
        self.consts = dict(consts or {})
        self.universal = universal  # every object (builtin containers included) is an instance: Python's `object`
        self.attrmap = attrmap      # field (a dict[str,T]) standing for the object's dynamic attribute namespace


class SpecFn:
    def __init__(self, fn, name, params, returns, src_body, fuel, heap=False):
        self.fn, self.name, self.params, self.returns, self.body, self.fuel = fn, name, params, returns, src_body, fuel
        self.heap = heap
        self.heap_keys = None


class Prop:
    def __init__(self, pid, title=''):
        self.id = pid
        self.title = title
        self.classes = {}
        self.fields = {}
        self.field_variants = {}
        self.specs = {}
        self.contracts = {}
        self.order = []
        self.lemmas = {}
        self.consts = {}
        self.ground = []
        self.bounded = []
        self.assumptions = []
        self.unverified = []
        self.replays = {}
        self.uf = {}
        self.axioms = []
        self.natives = {}
        self.ghosts = {}
        self.globals = {}

    def cls(self, name, bases=(), fields=None, elem=None, props=None, truthy=None, consts=None, attrmap=None, universal=False, dictof=None):
        c = ClassDecl(name, bases, fields, elem, props, truthy, consts, attrmap, universal, dictof)
        self.classes[name] = c
        for f, t in c.fields.items():
            self.fields.setdefault(f, t)
            self.field_variants.setdefault(f, {})[name] = t
        return c

    def ghost(self, name, typ):
        """Ghost global (call-protocol state); written only through Contract.ghost_sets of trusted contracts."""
        self.ghosts[name] = typ

    def global_obj(self, name, cls):
        """A module-level singleton (e.g. a class object whose attributes are read and written): name -> declared class."""
        self.globals[name] = cls

    def const(self, name, value):
        self.consts[name] = value

    def uninterp(self, name, params, returns, axioms=(), native=None):
        """Uninterpreted (library) function with assumed axioms (listed in evidence as assumptions)."""
        self.uf[name] = (list(params), returns, list(axioms))
        if native is not None:
            self.natives[name] = native

    def spec(self, fn=None, fuel=2, heap=False):
        def deco(f):
            src = textwrap.dedent(inspect.getsource(f))
            tree = ast.parse(src).body[0]
            params = []
            for a in tree.args.args:
                ann = a.annotation
                params.append((a.arg, ann.value if isinstance(ann, ast.Constant) else ast.unparse(ann)))
            r = tree.returns
            returns = r.value if isinstance(r, ast.Constant) else ast.unparse(r)
            body = [s for s in tree.body if not (isinstance(s, ast.Expr) and isinstance(s.value, ast.Constant))]
            self.specs[f.__name__] = SpecFn(f, f.__name__, params, returns, body, fuel, heap)
            return f
        if fn is not None:
            return deco(fn)
        return deco

    def fn(self, target, **kw):
        c = Contract(target, **kw)
        if c.name in self.contracts:
            raise ValueError('duplicate contract ' + c.name)
        self.contracts[c.name] = c
        self.order.append(c.name)
        return c

    def lemma(self, name, params, requires=(), ensures=(), body='pass', decreases=None, lemmas=()):
        c = Contract('lemma::' + name, params=params, requires=requires, ensures=ensures, body=body,
                     decreases=decreases, kind='lemma', name=name, lemmas=lemmas)
        self.lemmas[name] = c
        self.contracts[name] = c
        self.order.append(name)
        return c

    def client(self, name, params, requires=(), ensures=(), body='pass'):
        """A ghost client program verified against the contracts of the functions it calls (two-call lemmas such as
        inverse / order-independence properties).  Not usable as a lemma instance: its body has effects."""
        c = Contract('client::' + name, params=params, requires=requires, ensures=ensures, body=body, kind='client',
                     name=name, skip_frame=True, allocates=True)
        self.contracts[name] = c
        self.order.append(name)
        return c

    def assume(self, text):
        self.assumptions.append(text)

    def unverified_surrounding(self, text):
        self.unverified.append(text)
