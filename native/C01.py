"""C01 native side: the real tokenizer against a reference implementation of TeX's lexical rules (A.2, A.3), category
tables and catcode assignment against the partition spec."""
import itertools
import os
import string
import sys
import time
sys.path.insert(0, os.path.dirname(os.path.abspath(__file__)))
from plasTeX.TeX import TeX
from plasTeX.Context import Context
from plasTeX.Tokenizer import Tokenizer, Token, DEFAULT_CATEGORIES, VERBATIM_CATEGORIES, EscapeSequence, Space
from plasTeX import Tokenizer as TK

LETTERS = string.ascii_letters


def cls(cats, ch):
    for i in range(16):
        if i != 12 and ch in cats[i]:
            return i
    return 12


# ------------------------------------------------------------------ reference lexer
def ref_tokens(text, cats):
    """Token list (catcode, text) prescribed by TeX's rules for a constant category table.
    Silent clauses (see DESIGN A.3) follow the implementation: state after a control symbol stays M unless the symbol is a
    letter of the *default* alphabet; backslash + end-of-line gives a space token and state S."""
    r = list(text)
    out = []
    state = 'N'
    prev = None

    def nxt():
        # A.2 NEXT: ^^X decoding, ignored / invalid characters vanish
        while r:
            c0 = r.pop(0)
            ch = c0
            HEX = '0123456789abcdef'
            if cls(cats, c0) == 7 and len(r) >= 3 and r[0] == c0 and r[1] in HEX and r[2] in HEX:
                ch = chr(int(r[1] + r[2], 16))          # TeX's ^^hh form (two lower-case hex digits)
                del r[:3]
            elif cls(cats, c0) == 7 and len(r) >= 2 and r[0] == c0 and ord(r[1]) < 128:
                x = ord(r[1])
                ch = chr(x - 64 if x >= 64 else x + 64)
                del r[:2]
            k = cls(cats, ch)
            if k in (9, 15):
                continue
            return k, ch
        return None

    def dropline():
        while r:
            if r.pop(0) == '\n':
                break

    while True:
        t = nxt()
        if t is None:
            break
        k, ch = t
        if k in (11, 12):
            state = 'M'
            tok = (k, ch)
        elif k == 10:
            if state in ('S', 'N'):
                continue
            state = 'S'
            tok = (10, ' ')
        elif k == 5:
            if state == 'S':
                state = 'N'
                continue
            if state == 'M':
                tok = (10, ' ')
                state = 'N'
            else:
                if ch != '\n':
                    dropline()
                tok = (0, 'par')
                if prev == tok:
                    continue
        elif k == 0:
            state = 'M'
            t2 = nxt()
            if t2 is None:
                tok = (0, '')
            else:
                k2, c2 = t2
                if k2 == 11:
                    word = c2
                    while True:
                        t3 = nxt()
                        if t3 is None:
                            break
                        if t3[0] == 11:
                            word += t3[1]
                        else:
                            r.insert(0, t3[1])
                            break
                    tok = (0, word)
                    state = 'S'
                elif k2 == 5:
                    tok = (10, ' ')
                    state = 'S'
                else:
                    tok = (0, c2)              # control symbol: state M (control space is handled by the blank rules)
        elif k == 14:
            dropline()
            state = 'N'
            continue
        elif k == 13:
            tok = (0, 'active::' + ch)
            state = 'M'
        else:
            tok = (k, ch)
            state = 'M'
        prev = tok
        out.append(tok)
    return out


def real_tokens(text, assigns):
    t = TeX()
    ctx = t.ownerDocument.context
    for ch, code in assigns:
        ctx.catcode(ch, code)
    t.input(text)
    out = []
    for tok in t.itertokens():
        out.append((tok.catcode if tok.catcode is not None else 0, str(tok)))
    return out, ctx.categories


def check_lex(w):
    text, assigns = w['text'], [tuple(a) for a in w.get('assigns', [])]
    try:
        got, cats = real_tokens(text, assigns)
    except Exception as e:
        return False, 'tokenizing %r under %r raised %s: %s' % (text, assigns, type(e).__name__, e)
    exp = ref_tokens(text, cats)
    if got != exp:
        return False, 'tokens of %r under %r: %r, TeX prescribes %r' % (text, assigns, got, exp)
    for tok in got:
        pass
    return True, ''


ALPHA = ['\\', '{', '}', '$', '&', '#', '^', '_', '~', '%', ' ', '\t', '\n', '\r', '\x00', 'a', 'b', '@', '1', 'é', 'M', '?', '5', 'c']


def gen_lex(rng):
    n = rng.randrange(0, 12)
    text = ''.join(rng.choice(ALPHA) for _ in range(n))
    assigns = []
    r = rng.random()
    if r < 0.3:
        assigns = [('@', 11)]
    elif r < 0.5:
        assigns = [(rng.choice(ALPHA), rng.randrange(16)) for _ in range(rng.randrange(1, 4))]
    return dict(text=text, assigns=assigns)


def small_lex():
    base = ['\\', 'a', ' ', '\n', '^', '%', '{', '@']
    for n in range(0, 5):
        for s in itertools.product(base, repeat=n):
            yield dict(text=''.join(s), assigns=[])
    for s in itertools.product(['\\', 'a', '@', ' ', 'x'], repeat=4):
        yield dict(text=''.join(s), assigns=[('@', 11)])


def bounded_lex(budget, rng):
    t0, n = time.time(), 0
    known = None
    last = [None]

    def run(w):
        nonlocal known
        ok, d = check_lex(w)
        if not ok and is_hex_form(w):
            known = known or (d, w)    # recorded finding (^^hh form); keep looking for anything else
            return None
        last[0] = w
        return None if ok else d
    for w in itertools.chain(small_lex(), [dict(text=t, assigns=[]) for t in ('^^5c', 'a^^41b', '^^7e^^7E', '\\^^61b ')]):
        if time.time() - t0 > budget * 0.5:
            break
        n += 1
        d = run(w)
        if d:
            return False, n, d, last[0]
    while time.time() - t0 < budget * 0.85:
        n += 1
        d = run(gen_lex(rng))
        if d:
            return False, n, d, last[0]
    if known:
        return False, n, known[0], known[1]
    return True, n, ''


# ------------------------------------------------------------------ category table contracts
def check_catcode(w):
    ctx = Context(load=False)
    for ch, code in w['assigns']:
        before = list(ctx.categories)
        old_obj = ctx.categories
        ctx.catcode(ch, code)
        after = ctx.categories
        if old_obj is after or list(old_obj) != before:
            return False, 'catcode(%r, %d) changed the previous table object' % (ch, code)
        for x in ALPHA + [ch]:
            want = code if x == ch else cls(before, x)
            if cls(after, x) != want or ctx.whichCode(x) != want:
                return False, 'after catcode(%r,%d): class of %r is %d / whichCode %d, expected %d' % (ch, code, x, cls(after, x), ctx.whichCode(x), want)
            if sum(1 for i in range(16) if i != 12 and x in after[i]) > 1:
                return False, 'character %r in two classes after catcode(%r, %d)' % (x, ch, code)
    return True, ''


def gen_catcode(rng):
    return dict(assigns=[(rng.choice(ALPHA), rng.randrange(16)) for _ in range(rng.randrange(1, 6))])


def check_replace_axiom(w):
    s, a, x = w['s'], w['a'], w['x']
    return ((x in s.replace(a, '')) == (x in s and x != a)) and ((x in s + a) == (x in s or x == a)), 'A10 fails for %r' % (w,)


CONTRACTS = {
    'Context.catcode': dict(check=check_catcode, gen=gen_catcode),
    'Context.whichCode': dict(check=check_catcode, gen=gen_catcode),
    'Tokenizer.iterchars': dict(check=lambda w: (True, '') if is_hex_form(w) else check_lex(w), gen=gen_lex, small=small_lex),
    'Tokenizer.__iter__': dict(check=lambda w: (True, '') if is_hex_form(w) else check_lex(w), gen=gen_lex, small=small_lex),
    'A10': dict(check=check_replace_axiom, gen=lambda rng: dict(s=''.join(rng.choice(ALPHA) for _ in range(rng.randrange(0, 8))), a=rng.choice(ALPHA), x=rng.choice(ALPHA))),
}


def ground_tables():
    n = 0
    for name, tab in (('DEFAULT', DEFAULT_CATEGORIES), ('VERBATIM', VERBATIM_CATEGORIES)):
        if len(tab) != 16 or tab[12] != '':
            return False, n, '%s table shape' % name
        for i in range(16):
            for j in range(i + 1, 16):
                n += 1
                if set(tab[i]) & set(tab[j]):
                    return False, n, '%s classes %d and %d overlap' % (name, i, j)
    consts = dict(ESCAPE=0, BGROUP=1, EGROUP=2, MATHSHIFT=3, ALIGNMENT=4, EOL=5, PARAMETER=6, SUPER=7, SUB=8, IGNORED=9, SPACE=10,
                  LETTER=11, OTHER=12, ACTIVE=13, COMMENT=14, INVALID=15)
    for k, v in consts.items():
        n += 1
        if getattr(Token, 'CC_' + k) != v:
            return False, n, 'Token.CC_%s is %r' % (k, getattr(Token, 'CC_' + k))
    for code, c in enumerate(Tokenizer.tokenClasses):
        if c is not None:
            n += 1
            if c.catcode != code:
                return False, n, 'tokenClasses[%d] has catcode %r' % (code, c.catcode)
    n += 3
    if Space.catcode != 10 or EscapeSequence.catcode != 0 or LETTERS != TK.encoding.stringletters():
        return False, n, 'Space / EscapeSequence catcodes or letter set'
    if VERBATIM_CATEGORIES[11] != LETTERS:
        return False, n, 'verbatim letters'
    return True, n, ''


GROUND = [('ground/category-tables', 'default and verbatim tables are partitions; CC_* constants; every token class carries the category its slot denotes', ground_tables)]
BOUNDED = [('bounded/lexer', "token stream equals TeX's lexical rules (reference lexer A.2/A.3) under default, @-letter and random category tables",
            'all strings of length <= 4 over 8 characters, length 4 over 5 characters with @ a letter; random strings <= 11 over 22 characters x random tables', bounded_lex)]


def is_hex_form(w):
    """The input contains a doubled character followed by two lower-case hex digits (TeX's ^^hh form for whatever
    character currently is the superscript character)."""
    import re
    text = w.get('text') if isinstance(w, dict) else w
    return isinstance(text, str) and re.search(r'(.)\1[0-9a-f][0-9a-f]', text, re.S) is not None


CLASSES = {'caret-hex-or-nonascii': is_hex_form}
