"""C15 native side: the real Filenames generator against a reference model of the documented template grammar."""
import itertools
import os
import re
import sys
import time
sys.path.insert(0, os.path.dirname(os.path.abspath(__file__)))
from plasTeX.Filenames import Filenames


def subst(alt, ns, num, charsub):
    """Candidate name of one alternative, or None if a variable is unbound.  Returns (name, uses_num)."""
    ns = dict(ns)

    def clean(v):
        if charsub:
            for ch in charsub[0]:
                v = v.replace(ch, charsub[1])
        return v
    uses_num = False
    out = ''
    pos = 0
    for m in re.finditer(r'\$\{(\w+)(?:\.(\d+))?\}', alt):
        out += alt[pos:m.start()]
        pos = m.end()
        key, fmt = m.group(1), m.group(2)
        if key == 'num':
            uses_num = True
            out += ('%%.%sd' % (fmt or '')) % num if fmt else str(num)
            continue
        if key not in ns:
            return None, uses_num
        val = ns[key]
        if fmt:
            # limited to its first n words (an empty or blank value has none: it stays empty) ...
            val = ' '.join(val.split()[:int(fmt)])
        # ... and then the forbidden characters are replaced (a blank may be one of them: the limit must count the words first)
        out += clean(val)
    out += alt[pos:]
    return out, uses_num


def norm(alt):
    alt = re.sub(r'\$(\w+)', r'${\1}', alt)
    alt = re.sub(r'\}\(\s*(\d+)\s*\)', r'.\1}', alt)
    return alt


def reference(static, wild, requests, charsub, ext, reserved, prefix='', suffix=''):
    # text written directly before '[' / after ']' belongs to every alternative
    wild = [prefix + a + suffix for a in wild]
    invalid = set(reserved)
    num = 1
    out = []
    static = list(static)
    wild = [norm(a) for a in wild]
    if not wild and static:
        wild = [static.pop()]
    for bindings in requests:
        issued = None
        while static and issued is None:
            item = static.pop(0)
            name, uses = subst(norm(item), bindings, num, charsub)
            if name is None:
                continue
            if uses:
                num += 1
            if not os.path.splitext(name)[-1]:
                name += ext
            if name not in invalid:
                invalid.add(name)
                issued = name
        passes = 0
        ns = dict(bindings)
        while issued is None:
            passes += 1
            progressed = False
            for alt in wild:
                name, uses = subst(alt, ns, num, charsub)
                if name is None:
                    continue
                if uses:
                    num += 1
                if not os.path.splitext(name)[-1]:
                    name += ext
                if name not in invalid:
                    invalid.add(name)
                    issued = name
                    break
            if issued is None and passes > 100:
                return out + ['ValueError']
        out.append(issued)
    return out


def real(static, wild, requests, charsub, ext, reserved, prefix='', suffix=''):
    spec = ' '.join(static)
    if wild:
        spec += ' ' + prefix + '[' + ', '.join(wild) + ']' + suffix
    f = Filenames(spec, charsub, {}, ext, {r: None for r in reserved})
    out = []
    for b in requests:
        f.variables.update(b)
        try:
            out.append(f())
        except ValueError:
            out.append('ValueError')
    return out


def check_gen(w):
    args = (w['static'], w['wild'], w['requests'], tuple(w['charsub']) if w.get('charsub') else None, w['ext'], w.get('reserved', []),
            w.get('prefix', ''), w.get('suffix', ''))
    try:
        got = real(*args)
    except Exception as e:
        return False, 'generator for %r raised %s: %s' % (w, type(e).__name__, e)
    exp = reference(*args)
    # up to and including the first error the names are prescribed; after an error a request must again end in an error or in a fresh name
    # (never in nothing at all)
    if got[:len(exp)] != exp:
        return False, 'template %r: issued %r, reference model %r' % (w, got, exp)
    for x in got[len(exp):]:
        if not isinstance(x, str):
            return False, 'template %r: after the error a request returned %r (neither a name nor an error): %r' % (w, x, got)
    names = [g for g in got if g != 'ValueError']
    if len(set(names)) != len(names) or set(names) & set(w.get('reserved', [])):
        return False, 'template %r: duplicate or reserved name in %r' % (w, got)
    if w.get('charsub'):
        for nme in names:
            pass
    return True, ''


ALTS = ['$id', '$title(2)', 'sect$num(3)', '$id-$num', '${title.1}x', 'file$num', '$thing']
VALS = ['a', 'b', 'intro duction here', 'a:b', 'x y', '']


def gen_case(rng):
    static = rng.sample(['index', 'toc.html', 'front', '${title.2}-s', 'st-$id'], rng.randrange(0, 3))
    wild = rng.sample(ALTS, rng.randrange(1, 4))
    reqs = []
    for _ in range(rng.randrange(1, 8)):
        b = {}
        if rng.random() < 0.6:
            b['id'] = rng.choice(VALS[:4] + ['index'])
        if rng.random() < 0.5:
            b['title'] = rng.choice(VALS)
        reqs.append(b)
    return dict(static=static, wild=wild, requests=reqs, charsub=rng.choice([None, [':', '_'], [': ', '-'], [' :/', '-']]), ext='.html',
                reserved=rng.sample(['index.html', 'a.html', 'sect001.html'], rng.randrange(0, 2)),
                prefix=rng.choice(['', '', 'book-', 'p_']), suffix=rng.choice(['', '', '.htm', '-x']))


def bounded_gen(budget, rng):
    t0, n = time.time(), 0
    for wild in itertools.permutations(['$id', '$title(2)', 'sect$num(3)'], 2):
        for reqs in itertools.product([{}, {'id': 'a'}, {'id': 'a', 'title': 'b c d'}, {'title': 'b c d'}], repeat=3):
            for static in ([], ['index']):
                n += 1
                w = dict(static=static, wild=list(wild), requests=[dict(r) for r in reqs], charsub=None, ext='.html', reserved=[])
                ok, d = check_gen(w)
                if not ok:
                    return False, n, d, w
    for prefix, suffix in (('book-', ''), ('', '.htm'), ('b-', '-e')):
        for wild in itertools.permutations(['$id', '$title(2)', 'sect$num(3)'], 3):
            for reqs in itertools.product([{}, {'id': 'a'}, {'title': 'b c d'}], repeat=3):
                n += 1
                w = dict(static=['index'], wild=list(wild), requests=[dict(r) for r in reqs], charsub=None, ext='.html', reserved=[], prefix=prefix, suffix=suffix)
                ok, d = check_gen(w)
                if not ok:
                    return False, n, d, w
    while time.time() - t0 < min(budget, 40) * 0.6:
        n += 1
        w = gen_case(rng)
        ok, d = check_gen(w)
        if not ok:
            return False, n, d, w
    return True, n, ''


def check_ext(w):
    f = Filenames('x', None, {}, w['ext'])
    got = f.addExtension(w['name'])
    exp = w['name'] + w['ext'] if not os.path.splitext(w['name'])[-1] else w['name']
    return got == exp, 'addExtension(%r) = %r' % (w['name'], got)


CONTRACTS = {'Filenames._newFilename': dict(check=check_gen, gen=gen_case), 'Filenames.addExtension': dict(check=check_ext, small=lambda: (dict(name=n, ext=e) for n in ['a', 'a.b', '.a', 'a.', 'dir.x/a', ''] for e in ['.html', '']))}
GROUND = []
BOUNDED = [('bounded/filenames', 'the sequence of issued names equals the reference model of the template grammar (static names, wildcard alternatives, $num, word limits, forbidden characters, extension); names pairwise distinct and never reserved',
            'all orderings of 2 out of 3 wildcard alternatives x all sequences of 3 requests out of 4 bindings x static/no static, and 3 prefix/suffix pairs x all orderings of 3 alternatives x 27 request sequences (exhaustive); random templates with 1-3 alternatives, prefix / suffix text and <= 7 requests', bounded_gen)]
CLASSES = {}
