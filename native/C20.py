"""C20 native side: real save / corrupt / restore sequences on Context.persist and Context.restore."""
import itertools
import os
import pickle
import random
import sys
import tempfile
import time
sys.path.insert(0, os.path.dirname(os.path.abspath(__file__)))
from plasTeX.TeX import TeX


def mkdoc(labels):
    t = TeX()
    body = ''.join('\\section{S%s}\\label{%s}' % (l, l) for l in labels)
    t.input('\\documentclass{article}\\begin{document}%s\\end{document}' % body)
    return t.parse()


def check_file(w):
    """persist/restore never raise whatever bytes the file holds; the next save is complete and loadable."""
    d = mkdoc(w['labels'])
    p = tempfile.mktemp()
    try:
        if w.get('content') is not None:
            open(p, 'wb').write(bytes(w['content']))
        try:
            d.context.restore(p, w['rtype'])
            d.context.persist(p, w['rtype'])
        except Exception as e:
            return False, 'raised %s: %s for file content %r' % (type(e).__name__, e, bytes(w['content'] or b'')[:60])
        got = pickle.load(open(p, 'rb'))
        ok = isinstance(got, dict) and isinstance(got.get(w['rtype']), dict) and set(w['labels']) <= set(got[w['rtype']])
        return ok, 'saved file after content %r is %r' % (bytes(w['content'] or b'')[:60], got)
    finally:
        if os.path.exists(p):
            os.unlink(p)


def check_roundtrip(w):
    d = mkdoc(w['labels'])
    p = tempfile.mktemp()
    try:
        d.context.persist(p, 'R1')
        d.context.persist(p, 'R2')
        e = mkdoc([])
        e.context.restore(p, 'R1')
        for l in w['labels']:
            n, m = d.context.labels[l], e.context.labels.get(l)
            if m is None:
                return False, 'label %r lost in round trip' % l
            for a in ('id', 'macroName'):
                if getattr(m, a, None) != getattr(n, a, None):
                    return False, 'label %r attribute %s: %r != %r' % (l, a, getattr(m, a, None), getattr(n, a, None))
            if str(m.ref) != str(n.ref.textContent if hasattr(n.ref, 'textContent') else n.ref) and str(m.ref) != str(n.ref):
                return False, 'label %r number %r != %r' % (l, m.ref, n.ref)
        return True, ''
    finally:
        if os.path.exists(p):
            os.unlink(p)


def check_renderers(w):
    """entries saved for other renderers survive a save by this renderer"""
    d = mkdoc(w['labels'])
    p = tempfile.mktemp()
    try:
        for r in w['order']:
            d.context.persist(p, r)
        got = pickle.load(open(p, 'rb'))
        ok = set(got) == set(w['order']) and all(set(w['labels']) <= set(got[r]) for r in w['order'])
        return ok, 'after saving for %r the file holds %r' % (w['order'], {k: sorted(v) for k, v in got.items()})
    finally:
        if os.path.exists(p):
            os.unlink(p)


GOOD = None


def good():
    global GOOD
    if GOOD is None:
        d = mkdoc(['a', 'b'])
        p = tempfile.mktemp()
        d.context.persist(p, 'R')
        GOOD = open(p, 'rb').read()
        os.unlink(p)
    return GOOD


def gen_file(rng):
    g = bytearray(good())
    r = rng.random()
    if r < 0.3:
        g = g[:rng.randrange(0, len(g) + 1)]
    elif r < 0.6:
        for _ in range(rng.randrange(1, 4)):
            i = rng.randrange(len(g))
            g[i] ^= 1 << rng.randrange(8)
    elif r < 0.8:
        g = bytearray(pickle.dumps(rng.choice([[], {'R': []}, {'R': None}, {'R': {'a': 3}}, {'R': {'a': {'macroName': 'nosuch'}}}, 'str', 7, None, {'X': {}}, {3: 4}])))
    else:
        g = bytearray(rng.randbytes(rng.randrange(0, 40)))
    return dict(labels=rng.choice([[], ['a'], ['a', 'c']]), rtype=rng.choice(['R', 'X']), content=list(g))


def small_file():
    g = good()
    for i in range(0, len(g) + 1):
        yield dict(labels=['a'], rtype='R', content=list(g[:i]))
    for obj in ([], {'R': []}, {'R': None}, {'R': 3}, 'x', None, {'R': {'a': 1}}):
        yield dict(labels=['a'], rtype='R', content=list(pickle.dumps(obj)))
    yield dict(labels=['a'], rtype='R', content=None)


CONTRACTS = {
    'Context.persist': dict(check=lambda w: check_renderers(w) if 'order' in w else check_file(w), gen=gen_file,
                            small=lambda: itertools.chain(iter([dict(labels=['a'], order=['R1', 'R2']), dict(labels=['a', 'b'], order=['R1', 'R2', 'R1', 'R3'])]), small_file())),
    'Context.restore': dict(check=check_file, gen=gen_file),
    'roundtrip': dict(check=check_roundtrip, small=lambda: iter([dict(labels=['a']), dict(labels=['a', 'b', 'c']), dict(labels=[])])),
}
CONTRACTS['Macro.persist'] = CONTRACTS['Macro.restore'] = CONTRACTS['roundtrip']
GROUND = []
BOUNDED = []
CLASSES = {}
