"""C18 native side (bounded): generated index entries through the real parser / IndexUtils against an independent reading of the
makeindex entry syntax; splitColumns exhaustively over small inputs; executable forms of the splitColumns / groups contracts."""
import itertools
import os
import sys
import time
sys.path.insert(0, os.path.dirname(os.path.abspath(__file__)))

WORDS = ['apple', 'Apple', 'APPLE', 'Banana', 'cherry', 'delta', '42', '7up', '#hash', '_under', '_other', 'zeta', 'Echo', 'echo', 'mango', 'Mango', 'kiwi fruit', 'a b']
ACCENTED = ['\u00e9clair', '\u00c5ngstr\u00f6m']
ODD = ['\U0001F600smile', '\u200bzero']      # initials that transliterate to nothing / to a blank


def parse_entry(s):
    """makeindex syntax: levels separated by !, sort@display, |format; " quotes the next character."""
    levels, cur, sort, fmt = [], '', None, None
    i = 0
    while i < len(s):
        ch = s[i]
        if ch == '"' and i + 1 < len(s):
            cur += s[i + 1]
            i += 2
            continue
        if ch == '!':
            levels.append((sort if sort is not None else cur, cur))
            cur, sort = '', None
        elif ch == '@':
            sort, cur = cur, ''
        elif ch == '|':
            fmt = s[i + 1:]
            break
        else:
            cur += ch
        i += 1
    levels.append((sort if sort is not None else cur, cur))
    return levels, fmt


def display_text(d):
    # \textbf{X} / \emph{X} display as X
    import re
    return re.sub(r'\\[a-zA-Z]+\{([^{}]*)\}', r'\1', d)


def gen_entries(rng, accented=False):
    pool = WORDS + (ACCENTED if accented else []) + ODD
    n = rng.randrange(1, 9)
    entries = []
    used_sort = {}
    for _ in range(n):
        depth = rng.choice([1, 1, 1, 2, 2, 3])
        parts = []
        for lv in range(depth):
            w = rng.choice(pool)
            r = rng.random()
            if r < 0.15:
                # sort@display with a display part that renders to text; the sort key is private to this display so that distinct
                # paths never collate equal at a level
                disp = rng.choice(['\\textbf{%s}' % w.upper(), '\\emph{%s}' % w, w + 'x'])
                sk = 'q' + w
                if used_sort.setdefault(sk, disp) != disp:
                    disp = used_sort[sk]
                parts.append('%s@%s' % (sk, disp))
            elif r < 0.22:
                parts.append(w + '"!')          # quoted special character inside a key
            else:
                parts.append(w)
        e = '!'.join(parts)
        r = rng.random()
        if r < 0.12:
            e += '|textbf'
        elif r < 0.2:
            e += '|see{%s}' % rng.choice(WORDS[:4])
        elif r < 0.25:
            e += '|('
        entries.append(e)
    # repeat some entries (merging)
    for _ in range(rng.randrange(0, 4)):
        entries.insert(rng.randrange(len(entries) + 1), rng.choice(entries))
    return entries


def build_doc(entries, rng):
    body = []
    for i, e in enumerate(entries):
        r = rng.random()
        if r < 0.2:
            body.append('\\section{S%d}' % i)
        elif r < 0.3:
            body.append('\n\n')
        body.append('w%d\\index{%s} ' % (i, e))
    return '\\documentclass{article}\\usepackage{makeidx}\\makeindex\\begin{document}%s\\printindex\\end{document}' % ''.join(body)


def run_doc(src, cols):
    from plasTeX.TeX import TeX
    t = TeX()
    t.ownerDocument.config['document']['index-columns'] = cols
    t.input(src)
    from util import time_limit
    with time_limit(20):
        d = t.parse()
    return d, d.getElementsByTagName('printindex')[0]


def actual_tree(node):
    out = []
    for c in node:
        out.append(((c.sortkey, c.key.textContent), [('see' if p.see else 'seealso' if p.seealso else 'normal') for p in c.pages], actual_tree(c)))
    return out


def expected_tree(entries):
    from plasTeX.Base.LaTeX.Index import collator
    root = {}

    def ins(levels, kind):
        cur = root
        for i, (sk, disp) in enumerate(levels):
            key = (sk.strip() if False else sk, display_text(disp))
            node = cur.setdefault(key, dict(pages=[], kids={}))
            if i == len(levels) - 1:
                node['pages'].append(kind)
            cur = node['kids']
    for e in entries:
        levels, fmt = parse_entry(e)
        kind = 'normal'
        if fmt is not None and fmt.startswith('seealso'):
            kind = 'seealso'
        elif fmt is not None and fmt.startswith('see'):
            kind = 'see'
        ins([(display_text(sk) if sk == d else sk, d) for sk, d in levels], kind)

    def order(kids):
        items = sorted(kids.items(), key=lambda kv: (collator(kv[0][0]), collator(kv[0][1])))
        return [(k, v['pages'], order(v['kids'])) for k, v in items]
    return order(root)


def heading(sortkey):
    try:
        from unidecode import unidecode
    except ImportError:
        unidecode = lambda s: s
    import string
    if not sortkey:
        return 'Symbols'
    t = unidecode(sortkey[0]).upper()
    if t and t in string.ascii_letters:
        return t
    if t == '_':
        return '_ (Underscore)'
    return 'Symbols'


def check_index(entries, cols, rng):
    src = build_doc(entries, rng)
    d, pi = run_doc(src, cols)
    act, exp = actual_tree(pi), expected_tree(entries)
    if act != exp:
        return False, 'index tree %r, expected %r for entries %r' % (act, exp, entries), src
    # groups and columns
    tops = [c for c in pi]
    groups = pi.groups
    flat = []
    prev = None
    for g in groups:
        if len(g) != cols:
            return False, 'group %r has %d columns, index-columns is %d (entries %r)' % (g.title, len(g), cols, entries), src
        members = [x for col in g for x in col]
        if not members:
            return False, 'empty group %r' % g.title, src
        for m in members:
            if heading(m.sortkey) != g.title:
                return False, 'entry %r under heading %r' % (m.sortkey, g.title), src
        if g.title == prev:
            return False, 'adjacent groups share the heading %r' % prev, src
        prev = g.title
        flat += members
        seen_empty = False
        for col in g:
            if not col:
                seen_empty = True
            elif seen_empty:
                return False, 'empty column before a non-empty one in group %r' % g.title, src
    if len(flat) != len(tops) or any(a is not b for a, b in zip(flat, tops)):
        return False, 'columns of the groups are not a partition of the top-level entries in order (entries %r)' % (entries,), src
    return True, '', src


def bounded_index(budget, rng):
    t0 = time.time()
    n = 0
    seen, samples = set(), []
    while time.time() - t0 < budget or n < 30:
        entries = gen_entries(rng)
        cols = rng.randrange(1, 5)
        n += 1
        # non-trivial: at least two distinct paths or a repeated entry; distinct: the (entries, columns) pair was not seen before
        if len(entries) >= 2 and (tuple(entries), cols) not in seen:
            seen.add((tuple(entries), cols))
            if len(samples) < 3:
                samples.append(dict(entries=entries, columns=cols))
        try:
            ok, d, src = check_index(entries, cols, rng)
        except Exception as e:
            import traceback
            return False, n, 'raised %s for entries %r: %s' % (type(e).__name__, entries, traceback.format_exc()[-300:]), dict(text=repr(entries), entries=entries, cols=cols)
        if not ok:
            return False, n, d, dict(text=src, entries=entries, cols=cols)
    return True, n, '', None, dict(distinct=len(seen), samples=samples,
                                   rule='random entry lists (see bound); non-trivial = at least two entries, distinct = (entry list, index-columns) not seen before in this run')


def bounded_formats(budget, rng):
    """every page format of the property's list goes through \\printindex (with and without makeidx)"""
    from plasTeX.TeX import TeX
    n = 0
    for pre in ('', '\\usepackage{makeidx}\\makeindex'):
        for f in ('', '|textbf', '|see{b}', '|seealso{b}', '|(', '|)', '|emph'):
            n += 1
            src = '\\documentclass{article}%s\\begin{document}x\\index{a%s}y\\index{a}\\printindex\\end{document}' % (pre, f)
            t = TeX()
            t.input(src)
            try:
                d = t.parse()
                pi = d.getElementsByTagName('printindex')[0]
                got = [(c.key.textContent, len(c.pages)) for c in pi]
            except Exception as e:
                return False, n, '%s raised %s: %s' % (src, type(e).__name__, e), dict(text=src)
            if got != [('a', 2)]:
                return False, n, 'index %r for %s, expected one line a with 2 pages' % (got, src), dict(text=src)
    return True, n, ''


def bounded_accents(budget, rng):
    """group headings are unique (an accented initial belongs with its base letter)"""
    src = build_doc(['eagle', '\u00e9clair', 'zeta', 'echo'], rng)
    d, pi = run_doc(src, 2)
    titles = [g.title for g in pi.groups]
    if len(titles) != len(set(titles)):
        return False, 1, 'headings %r: the same letter heads two groups' % titles, dict(text=src, accents=True)
    return True, 1, ''


# ----------------------------------------------------------------------------------------------- splitColumns
class FakeItem:
    def __init__(self, n, i):
        self.totallen, self.i = n, i

    def __repr__(self):
        return 'I%d/%d' % (self.i, self.totallen)


def split_ok(lens, cols):
    from plasTeX.Base.LaTeX.Index import IndexUtils
    items = [FakeItem(n, i) for i, n in enumerate(lens)]
    out = IndexUtils.splitColumns(None, list(items), cols)
    flat = [x for col in out for x in col]
    if len(out) != cols:
        return False, 'splitColumns(%r, %d) gives %d columns' % (lens, cols, len(out))
    if len(flat) != len(items) or any(a is not b for a, b in zip(flat, items)):
        return False, 'splitColumns(%r, %d) = %r is not an order-preserving partition' % (lens, cols, out)
    seen_empty = False
    for col in out:
        if not col:
            seen_empty = True
        elif seen_empty:
            return False, 'splitColumns(%r, %d) = %r has an empty column before a non-empty one' % (lens, cols, out)
    return True, ''


def bounded_split(budget, rng):
    n = 0
    for ln in range(0, 7):
        for lens in itertools.product((1, 2, 3, 5), repeat=ln):
            for cols in (1, 2, 3, 4):
                n += 1
                ok, d = split_ok(list(lens), cols)
                if not ok:
                    return False, n, d, dict(lens=list(lens), cols=cols, text=repr(lens))
    return True, n, '', None, dict(distinct=n, samples=[dict(lens=[1, 2, 3, 5], cols=3)],
                                   rule='exhaustive enumeration: every (length list, columns) pair is distinct by construction')


def check_split(w):
    return split_ok(w['lens'], w['cols'])


def gen_split(rng):
    return dict(lens=[rng.randrange(1, 9) for _ in range(rng.randrange(0, 12))], cols=rng.randrange(1, 6))


def split_from_model(m):
    return None


CONTRACTS = {'splitColumns/%d' % k: dict(check=check_split, gen=gen_split) for k in (1, 2, 3, 4)}
BOUNDED = [('bounded/index', 'index tree == trie of the entries read by the makeindex syntax, pages merged per path in document order, levels in collation order; groups and columns partition the top level',
            'random documents: 1-12 entries over 13 keys, 1-3 levels, sort@display, quoted !, |textbf |see |( formats, index-columns 1-4', bounded_index),
           ('bounded/formats', 'every page format goes through \\printindex and merges with the plain entry', '7 formats x with/without makeidx', bounded_formats),
           ('bounded/split-columns', 'splitColumns is an order-preserving partition into exactly cols columns, empty ones last',
            'all item-length lists of length <= 6 over {1,2,3,5} x cols 1-4', bounded_split),
           ('bounded/accent-groups', 'an accented initial is grouped with its base letter (unique headings)', '1 document', bounded_accents)]
CLASSES = {'accent-groups': lambda w: isinstance(w, dict) and bool(w.get('accents'))}


def bounded_symbol_headings(budget, rng):
    """every heading occurs once: symbol-initial entries form ONE group wherever their initials fall in the collation order"""
    src = build_doc([':colon', 'zeta', '"|bar', 'alpha'], rng)
    d, pi = run_doc(src, 2)
    titles = [g.title for g in pi.groups]
    if len(titles) != len(set(titles)):
        return False, 1, 'headings %r: the same heading (and element id) occurs twice' % titles, dict(text=src, kind='split-symbols')
    return True, 1, ''


BOUNDED.append(('bounded/symbol-headings', 'symbol-initial entries are gathered under one heading', '1 document (symbols that collate before and after the letters)', bounded_symbol_headings))
CLASSES['split-symbols'] = lambda w: isinstance(w, dict) and w.get('kind') == 'split-symbols'


# ----------------------------------------------------------------------------------------------- kinds of a page reference
def check_kind(w):
    """executable form of the contracts IndexEntry.see / seealso / normal and IndexDestination.see / seealso / normal"""
    from plasTeX.Base.LaTeX.Index import IndexEntry, IndexDestination
    t = w['type']
    for what, obj in (('IndexEntry', IndexEntry([], None, type=t)), ('IndexDestination', IndexDestination(t, None))):
        got = (bool(obj.see), bool(obj.seealso), bool(obj.normal))
        want = (t == 1, t == 2, t != 1 and t != 2)
        if got != want:
            return False, '%s of type %r: (see, seealso, normal) = %r, expected %r' % (what, t, got, want)
        if sum(got) != 1:
            return False, '%s of type %r is of %d kinds at once' % (what, t, sum(got))
    return True, ''


def small_kind():
    return [dict(type=t, text='type=%d' % t) for t in range(-2, 6)]


for _n in ('IndexEntry.see', 'IndexEntry.seealso', 'IndexEntry.normal', 'IndexDestination.see', 'IndexDestination.seealso', 'IndexDestination.normal'):
    CONTRACTS[_n] = dict(check=check_kind, small=small_kind, gen=lambda rng: dict(type=rng.randrange(-5, 9)))


def ground_entry_kinds():
    """the class constants the sidecar contracts use are the real ones, pairwise distinct, and `type(self)` can only be IndexEntry"""
    from plasTeX.Base.LaTeX.Index import IndexEntry as E
    got = (E.TYPE_NORMAL, E.TYPE_SEE, E.TYPE_SEEALSO)
    if got != (0, 1, 2):
        return False, 3, 'IndexEntry.TYPE_NORMAL / TYPE_SEE / TYPE_SEEALSO = %r, the contracts assume (0, 1, 2)' % (got,)
    subs = E.__subclasses__()
    if subs:
        return False, 4, 'IndexEntry has subclasses %r: type(self).TYPE_* may differ from IndexEntry.TYPE_*' % subs
    return True, 4, ''


GROUND = [('ground/entry-kinds', 'IndexEntry.TYPE_NORMAL / TYPE_SEE / TYPE_SEEALSO are 0 / 1 / 2 as the contracts assume; IndexEntry has no subclass', ground_entry_kinds)]
