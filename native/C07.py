"""C07 native side (bounded): generated documents through the real parser; every word once and in order, tree well-formedness,
sectioning / paragraph nesting, typographic substitutions only outside verbatim and mathematics."""
import os
import sys
import time
sys.path.insert(0, os.path.dirname(os.path.abspath(__file__)))

SECS = ['section', 'subsection', 'subsubsection', 'paragraph']
LEVEL = {'part': -1, 'chapter': 0, 'section': 1, 'subsection': 2, 'subsubsection': 3, 'paragraph': 4, 'subparagraph': 5}


class Gen:
    def __init__(self, rng, book=False):
        self.rng, self.n, self.words, self.book = rng, 0, [], book
        self.verbwords, self.mathwords = [], []

    def word(self, kind='w'):
        self.n += 1
        w = '%sq%dz' % (kind.upper(), self.n)
        self.words.append(w)
        return w

    def inline(self, depth):
        r = self.rng.random()
        if depth >= 4 or r < 0.45:
            return self.word()
        if r < 0.55:
            return '\\textbf{%s}' % self.inlines(depth + 1)
        if r < 0.62:
            return '\\emph{%s %s}' % (self.word(), self.inline(depth + 1))
        if r < 0.68:
            return '{\\itshape %s}' % self.inlines(depth + 1)
        if r < 0.74:
            return '\\mbox{%s}' % self.inlines(depth + 1)
        if r < 0.80:
            return '%s\\footnote{%s}' % (self.word(), self.inlines(depth + 1))
        if r < 0.86:
            return '$%s^{%s}$' % (self.word('m'), self.word('m'))
        if r < 0.90:
            w = self.word('v')
            self.verbwords.append(w)
            return '\\verb|%s--``|' % w
        if r < 0.95:
            return "``%s'' --- %s" % (self.word(), self.word())
        l = 'lab%d' % self.n
        return '%s\\label{%s} \\ref{%s}' % (self.word(), l, l)

    def inlines(self, depth):
        return ' '.join(self.inline(depth) for _ in range(self.rng.randrange(1, 4)))

    def block(self, depth):
        r = self.rng.random()
        if depth >= 4 or r < 0.4:
            return self.inlines(depth) + '\n\n'
        if r < 0.55:
            env = self.rng.choice(['itemize', 'enumerate'])
            items = ''.join('\\item %s %s' % (self.inlines(depth + 1), self.block(depth + 2) if self.rng.random() < 0.25 else '')
                            for _ in range(self.rng.randrange(1, 4)))
            return '\\begin{%s}%s\\end{%s}\n' % (env, items, env)
        if r < 0.62:
            items = ''.join('\\item[%s] %s' % (self.word(), self.inlines(depth + 1)) for _ in range(self.rng.randrange(1, 3)))
            return '\\begin{description}%s\\end{description}\n' % items
        if r < 0.72:
            rows = ' \\\\ '.join(' & '.join(self.inlines(depth + 2) for _ in range(2)) for _ in range(self.rng.randrange(1, 3)))
            return '\\begin{tabular}{ll}%s\\end{tabular}\n\n' % rows
        if r < 0.80:
            env = self.rng.choice(['quote', 'center', 'flushleft'])
            # with and without a paragraph break inside
            inner = self.block(depth + 1) if self.rng.random() < 0.5 else "%s ``%s'' --- %s" % (self.inlines(depth + 1), self.word(), self.word())
            return '\\begin{%s}%s\\end{%s}\n' % (env, inner, env)
        if r < 0.86:
            return '\\[ %s + %s \\]\n' % (self.word('m'), self.word('m'))
        if r < 0.92:
            w = self.word('v')
            self.verbwords.append(w)
            return "\\begin{verbatim}\n%s --- ``x''\n\\end{verbatim}\n" % w
        return self.inlines(depth) + '\n\n'

    def section(self, lv):
        out = ''
        for _ in range(self.rng.randrange(1, 3)):
            star = '*' if self.rng.random() < 0.15 else ''
            out += '\\%s%s{%s %s}\n' % (SECS[lv], star, self.word('t'), self.inline(3) if self.rng.random() < 0.3 else self.word('t'))
            for _ in range(self.rng.randrange(1, 3)):
                out += self.block(1)
            if lv + 1 < len(SECS) and self.rng.random() < 0.55:
                out += self.section(lv + 1)
        return out

    def document(self):
        cls = 'book' if self.book else 'article'
        head = '\\chapter{%s}\n' % self.word('t') if self.book else ''
        body = head + self.block(1) + self.section(0)
        return '\\documentclass{%s}\\begin{document}\n%s\\end{document}\n' % (cls, body)


def parse(src):
    from plasTeX.TeX import TeX
    from util import time_limit
    t = TeX()
    t.input(src)
    with time_limit(20):
        return t.parse()


def walk(node, fn, seen, path):
    """depth-first, arguments before content; reports every node with its container chain"""
    from plasTeX.DOM import Node
    if id(node) in seen:
        return 'node %r is reachable from two places' % getattr(node, 'nodeName', node)
    seen[id(node)] = True
    fn(node, path)
    attrs = getattr(node, 'attributes', None)
    if attrs:
        for k, v in attrs.items():
            if k == 'self':
                continue        # the argument named `self` IS the content (its nodes are the child nodes)
            if isinstance(v, Node):
                r = walk(v, fn, seen, path + [node])
                if r:
                    return r
            elif isinstance(v, list):
                for x in v:
                    if isinstance(x, Node):
                        r = walk(x, fn, seen, path + [node])
                        if r:
                            return r
    if getattr(node, 'nodeType', None) != 3:
        for c in getattr(node, 'childNodes', []):
            r = walk(c, fn, seen, path + [node])
            if r:
                return r
    return None


def check_doc(w):
    import re
    src, words = w['src'], w['words']
    try:
        d = parse(src)
    except Exception as e:
        return False, 'parsing raised %s: %s' % (type(e).__name__, e)
    texts = []
    problems = []

    def visit(n, path):
        from plasTeX.DOM import Node
        if n.nodeType == Node.TEXT_NODE:
            texts.append((str(n), path))
            return
        # parent chain leads through the actual containers
        if path and n.nodeType == Node.ELEMENT_NODE:
            p = n.parentNode
            if p is None:
                problems.append('%s has no parent' % n.nodeName)
            else:
                chain, k = [], p
                while k is not None and len(chain) < 200:
                    chain.append(k)
                    k = k.parentNode
                if not any(c is path[-1] for c in chain) and not any(c is p for c in path):
                    problems.append('parent chain of %s does not pass through its container %s' % (n.nodeName, path[-1].nodeName))
        if n.nodeType == Node.ELEMENT_NODE and n.nodeName in LEVEL:
            for c in n.childNodes:
                if c.nodeType == Node.ELEMENT_NODE and c.nodeName in LEVEL:
                    if LEVEL[c.nodeName] <= LEVEL[n.nodeName]:
                        problems.append('%s directly contains %s' % (n.nodeName, c.nodeName))
                elif c.nodeType == Node.ELEMENT_NODE and c.nodeName != 'par':
                    problems.append('%s contains %s outside a paragraph' % (n.nodeName, c.nodeName))
                elif c.nodeType == Node.TEXT_NODE and str(c).strip():
                    problems.append('%s contains running text outside a paragraph' % n.nodeName)
        # running text of this container: its direct text children joined (text may be split over several nodes)
        if n.nodeType in (Node.ELEMENT_NODE, Node.DOCUMENT_FRAGMENT_NODE) and getattr(n, 'nodeName', '') not in ('verb', 'verbatim', 'math', 'displaymath') \
                and not any(getattr(q, 'nodeName', '') in ('verb', 'verbatim', 'math', 'displaymath', 'equation') for q in path):
            run = ''.join(str(c) for c in n.childNodes if c.nodeType == Node.TEXT_NODE)
            if '---' in run or '``' in run or "''" in run:
                problems.append('typographic substitution missing in running text %r of %s' % (run[:60], n.nodeName))
        if n.nodeType == Node.ELEMENT_NODE and n.nodeName == 'par':
            for c in n.childNodes:
                if c.nodeType == Node.ELEMENT_NODE and c.nodeName == 'par':
                    problems.append('a paragraph contains a paragraph')

    r = walk(d, visit, {}, [])
    if r:
        return False, r
    if problems:
        return False, problems[0]
    flat = ''.join(t for t, _ in texts)
    found = re.findall(r'[WTMV]q\d+z', flat)
    if found != words:
        missing = [x for x in words if x not in found]
        dup = sorted({x for x in found if found.count(x) > 1})
        return False, 'words read depth-first %s; missing %r, repeated %r, first difference at %d' % (
            'differ from the source order', missing[:4], dup[:4], next((i for i, (a, b) in enumerate(zip(found, words)) if a != b), min(len(found), len(words))))
    # typographic substitutions: applied in running text, never in verbatim / math
    for t, path in texts:
        inverb = any(getattr(p, 'nodeName', '') in ('verb', 'verbatim') for p in path)
        inmath = any(getattr(p, 'nodeName', '') in ('math', 'displaymath') for p in path)
        if inverb and any(v in t for v in w.get('verbwords', [])):
            if '--' not in t and '\u2013' in t or '\u201c' in t:
                return False, 'typographic substitution inside verbatim text %r' % t
        if not inverb and not inmath and ('---' in t or '``' in t):
            return False, 'typographic substitution missing in running text %r' % t
    if d.context.depth != 1:
        return False, 'context depth %d after the document' % d.context.depth
    return True, ''


def gen_doc(rng):
    g = Gen(rng, book=rng.random() < 0.3)
    src = g.document()
    return dict(src=src, words=g.words, verbwords=g.verbwords, text=src)


def bounded_docs(budget, rng):
    t0, n = time.time(), 0
    seen, samples = set(), []
    while time.time() - t0 < budget or n < 25:
        w = gen_doc(rng)
        n += 1
        if w['src'] not in seen and len(w['words']) >= 4:
            seen.add(w['src'])
            if len(samples) < 2:
                samples.append(w['src'][:600])
        ok, d = check_doc(w)
        if not ok:
            return False, n, d, dict(text=w['src'], words=w['words'])
    return True, n, '', None, dict(distinct=len(seen), samples=samples,
                                   rule='random documents of the grammar (see bound); non-trivial = at least 4 marker words, distinct = source not seen before')


CONTRACTS = {}
BOUNDED = [('bounded/documents', 'every marker word once and in source order (depth-first, arguments before content); every node reachable from one place with a parent '
            'chain through its containers; sections hold paragraphs and strictly deeper sections only; no paragraph in a paragraph; substitutions only in running text',
            'random documents: article / book, sectioning to 4 levels (starred and not), paragraphs, font commands and declarations, nested lists, description lists, '
            'tabulars, quote / center, footnotes, boxes, inline and display math, verbatim, labels and references, nesting <= 4', bounded_docs)]
CLASSES = {}


def bounded_math_substitution(budget, rng):
    """typographic substitutions never touch a formula, also not inside its brace groups and macro arguments"""
    n = 0
    for src in ("$x_{i'}$ Wq1z", "\\[ y^{k''} \\] Wq1z", "$\\frac{a'}{b--c}$ Wq1z"):
        n += 1
        doc = '\\documentclass{article}\\begin{document}' + src + '\\end{document}'
        d = parse(doc)
        bad = []

        def visit(node, inmath):
            inmath = inmath or getattr(node, 'nodeName', '') in ('math', 'displaymath')
            for c in getattr(node, 'childNodes', []):
                if c.nodeType == 3:
                    if inmath and any(ch in str(c) for ch in '\u2019\u201d\u2013\u2014'):
                        bad.append(str(c))
                else:
                    visit(c, inmath)
        visit(d, False)
        if bad:
            return False, n, 'typographic substitution inside a formula: %r in %s' % (bad[0], src), dict(text=doc, kind='math-substitution')
    return True, n, ''


BOUNDED.append(('bounded/math-substitution', 'no typographic substitution inside mathematics, brace groups and macro arguments of the formula included', '3 documents',
                bounded_math_substitution))
CLASSES['math-substitution'] = lambda w: isinstance(w, dict) and w.get('kind') == 'math-substitution'
