"""C08 native side: executable contracts on the real functions, ground tables."""
import plasTeX
from plasTeX import numToRoman

H = ["", "C", "CC", "CCC", "CD", "D", "DC", "DCC", "DCCC", "CM"]
T = ["", "X", "XX", "XXX", "XL", "L", "LX", "LXX", "LXXX", "XC"]
U = ["", "I", "II", "III", "IV", "V", "VI", "VII", "VIII", "IX"]


def ROMAN(x):
    return "M" * (x // 1000) + H[(x // 100) % 10] + T[(x // 10) % 10] + U[x % 10]


def check_roman(w):
    x = w['x']
    got = numToRoman(x)
    return got == ROMAN(x), 'numToRoman(%d) = %r, expected %r' % (x, got, ROMAN(x))


def model_x(model):
    for k, v in (model or {}).items():
        if k == 'p_x':
            return {'x': int(v)}
    return None


CONTRACTS = {
    'numToRoman': dict(check=check_roman, small=lambda: ({'x': i} for i in range(0, 5000)),
                       gen=lambda rng: {'x': rng.randrange(0, 60000)}, from_model=model_x),
}
GROUND = []
BOUNDED = []
CLASSES = {}

# ---------------------------------------------------------------- Counter objects on a real Context
import random as _random


def _mk_context(spec):
    """spec: list of (name, resetby or None, value)."""
    from plasTeX.Context import Context
    ctx = Context(load=False)
    for nm, rb, val in spec:
        ctx.counters[nm] = plasTeX.Counter(ctx, nm, rb, val)
    return ctx


def _within(spec, c, top):
    rb = dict((n, r) for n, r, _ in spec)
    seen = set()
    cur = c
    while rb.get(cur):
        if rb[cur] == top:
            return True
        cur = rb[cur]
        if cur in seen or cur not in rb:
            return False
        seen.add(cur)
    return False


def check_step(w):
    spec, who, op, arg = w['spec'], w['who'], w['op'], w.get('arg', 0)
    ctx = _mk_context(spec)
    c = ctx.counters[who]
    old = dict((n, v) for n, _, v in spec)
    if op == 'step':
        c.stepcounter(); exp_self = old[who] + 1
    elif op == 'set':
        c.setcounter(arg); exp_self = arg
    elif op == 'add':
        c.addtocounter(arg); exp_self = old[who] + arg
    else:
        c.resetcounters(); exp_self = old[who]
    for n, _, _ in spec:
        got = ctx.counters[n].value
        if n == who:
            exp = exp_self
        elif op in ('set', 'add'):
            exp = old[n]            # LaTeX: \\setcounter / \\addtocounter are plain assignments, nothing is reset
        else:
            exp = 0 if (who != '' and _within(spec, n, who)) else old[n]
        if got != exp:
            return False, 'after %s on %r: counter %r = %r, expected %r (spec %r)' % (op, who, n, got, exp, spec)
    return True, ''


def gen_forest(rng):
    n = rng.randrange(1, 7)
    names = ['c%d' % i for i in range(n)]
    spec = []
    for i, nm in enumerate(names):
        rb = rng.choice([None] + names[:i]) if i else None     # parent has a smaller index: acyclic
        if rng.random() < 0.1:
            rb = 'nosuch'
        spec.append((nm, rb, rng.randrange(0, 9)))
    rng.shuffle(spec)
    return dict(spec=spec, who=rng.choice(names), op=rng.choice(['step', 'set', 'add', 'reset']), arg=rng.randrange(-3, 9))


def check_alph(w):
    from plasTeX.Context import Context
    ctx = Context(load=False)
    c = plasTeX.Counter(ctx, 'x', None, w['v'])
    v = w['v']
    ok = c.Alph == chr(64 + v) and c.alph == chr(96 + v) and c.arabic == str(v) and c.Roman == ROMAN(v) \
        and c.roman == ROMAN(v).lower() and c.fnsymbol == '*' * v
    return ok, 'representations of %d: %r' % (v, (c.Alph, c.alph, c.arabic, c.Roman, c.roman, c.fnsymbol))


def _gen_op(op):
    def g(rng):
        w = gen_forest(rng)
        w['op'] = op
        return w
    return g


for _nm, _op in (('Counter.resetcounters', 'reset'), ('Counter.stepcounter', 'step'), ('Counter.setcounter', 'set'), ('Counter.addtocounter', 'add')):
    CONTRACTS[_nm] = dict(check=check_step, gen=_gen_op(_op))
for _nm in ('Counter.Alph', 'Counter.alph', 'Counter.arabic', 'Counter.Roman', 'Counter.roman', 'Counter.fnsymbol'):
    CONTRACTS[_nm] = dict(check=check_alph, small=lambda: ({'v': v} for v in range(1, 27)))

LATEX_CHAINS = [('subsubparagraph', 'subparagraph'), ('subparagraph', 'paragraph'), ('paragraph', 'subsubsection'),
                ('subsubsection', 'subsection'), ('subsection', 'section'), ('section', 'chapter'),
                ('enumii', 'enumi'), ('enumiii', 'enumii'), ('enumiv', 'enumiii')]
BOOK_ONLY = [('equation', 'chapter'), ('figure', 'chapter'), ('table', 'chapter')]


def ground_hierarchy():
    """Declared within-relation after ProcessOptions: contains LaTeX's chains and is acyclic (precondition of resetcounters)."""
    from plasTeX.TeX import TeX
    n = 0
    for cls in ('book', 'report', 'article'):
        t = TeX()
        t.input('\\documentclass{%s}\\begin{document}x\\end{document}' % cls)
        d = t.parse()
        cs = d.context.counters
        rel = dict((k, v.resetby) for k, v in cs.items())
        for k, v in cs.items():
            n += 1
            if v.name != k or v.counters is not cs:
                return False, n, 'counter table not well formed at %r in %s' % (k, cls)
        for a, b in LATEX_CHAINS + (BOOK_ONLY if cls != 'article' else []):
            n += 1
            if rel.get(a) != b:
                return False, n, '%s: %s should be within %s, is within %r' % (cls, a, b, rel.get(a))
        for k in rel:                      # acyclic: following resetby from every counter terminates
            seen, cur = set(), k
            while rel.get(cur):
                n += 1
                if cur in seen:
                    return False, n, '%s: within-relation has a cycle through %r' % (cls, cur)
                seen.add(cur)
                cur = rel[cur]
    return True, n, ''


GROUND.append(('ground/counter-hierarchy', 'declared within-relation of book/report/article contains LaTeX chains, acyclic, table well formed', ground_hierarchy))


# ---------------------------------------------------------------- nested enumerate lists: items count 1,2,3 within each list
def _gen_list(rng, depth):
    items = []
    for _ in range(rng.randrange(1, 4)):
        body = 'x'
        if depth < 4 and rng.random() < 0.6:
            body += ''.join(_gen_list(rng, depth + 1) for _ in range(rng.randrange(1, 3)))
        items.append('\\item ' + body)
    return '\\begin{enumerate}' + ' '.join(items) + '\\end{enumerate}'


def check_lists(w):
    from plasTeX.TeX import TeX
    from plasTeX.Base.LaTeX.Lists import List
    List.depth = 0
    t = TeX()
    t.input('\\documentclass{article}\\begin{document}%s\\end{document}' % w['src'])
    d = t.parse()
    ok, detail = True, ''

    def walk(node):
        nonlocal ok, detail
        for ch in getattr(node, 'childNodes', []):
            if getattr(ch, 'nodeName', None) == 'enumerate':
                pos = [it.position for it in ch.childNodes if getattr(it, 'nodeName', None) == 'item']
                if pos != list(range(1, len(pos) + 1)):
                    ok, detail = False, 'items of a list numbered %r in %s' % (pos, w['src'])
            walk(ch)
    walk(d)
    List.depth = 0
    return ok, detail


CONTRACTS['List.invoke'] = dict(check=check_lists, gen=lambda rng: {'src': ' '.join(_gen_list(rng, 1) for _ in range(rng.randrange(1, 3)))})


# ---------------------------------------------------------------- bounded: numbers of generated documents vs LaTeX's counter rules
class _Latex:
    """Independent reading of LaTeX's counter rules (latex.ltx \\stepcounter / \\setcounter / \\addtocounter / \\@startsection, article.cls)."""
    def __init__(self, depth):
        self.v = dict(section=0, subsection=0, subsubsection=0, equation=0, figure=0, table=0)
        self.within = dict(subsection='section', subsubsection='subsection')
        self.depth = depth
        self.fmt = {}

    def new(self, name, within=None):
        self.v[name] = 0
        if within:
            self.within[name] = within

    def step(self, name):
        self.v[name] += 1
        self._reset(name)

    def _reset(self, name):
        for c, w in self.within.items():
            if w == name:
                self.v[c] = 0
                self._reset(c)

    def the(self, name):
        if name == 'subsection':
            return '%d.%d' % (self.v['section'], self.v['subsection'])
        if name == 'subsubsection':
            return '%d.%d.%d' % (self.v['section'], self.v['subsection'], self.v['subsubsection'])
        if name in self.fmt:
            return '%s.%d' % (self.the(self.fmt[name]), self.v[name])
        return str(self.v[name])


SECLEVEL = dict(section=1, subsection=2, subsubsection=3)


def gen_numbering(rng):
    """A random article: sectioning (starred or not), equations, floats with captions, theorem-like environments (own counter, numbered
    within section, shared counter), a user counter declared within another, and explicit \\setcounter / \\addtocounter / \\stepcounter."""
    L = _Latex(2)
    pre, body, expect, marks = [], [], [], []
    thm_within = rng.choice([None, 'section', 'subsection'])
    pre.append('\\newtheorem{thm}{Theorem}' + ('[%s]' % thm_within if thm_within else ''))
    L.new('thm', thm_within)
    if thm_within:
        L.fmt['thm'] = thm_within
    shared = rng.random() < 0.6
    if shared:
        pre.append('\\newtheorem{lem}[thm]{Lemma}')
    cx_within = rng.choice([None, 'section', 'subsection', 'thm', 'equation'])
    pre.append('\\newcounter{cx}' + ('[%s]' % cx_within if cx_within else ''))
    L.new('cx', cx_within)
    names = ['section', 'subsection', 'equation', 'cx', 'thm', 'figure']
    for _ in range(rng.randrange(4, 16)):
        r = rng.random()
        if r < 0.30:
            kind = rng.choice(['section', 'section', 'subsection', 'subsection', 'subsubsection'])
            star = rng.random() < 0.2
            body.append('\\%s%s{T}' % (kind, '*' if star else ''))
            if star:
                expect.append((kind, None))
            elif SECLEVEL[kind] > L.depth:
                expect.append((kind, None))          # deeper than the numbering depth: no number (and LaTeX does not step)
            else:
                L.step(kind)
                expect.append((kind, L.the(kind)))
        elif r < 0.42:
            body.append('\\begin{equation}x\\end{equation}')
            L.step('equation')
            expect.append(('equation', L.the('equation')))
        elif r < 0.52:
            fl = rng.choice(['figure', 'table'])
            body.append('\\begin{%s}\\caption{c}\\end{%s}' % (fl, fl))
            L.step(fl)
            expect.append(('caption', L.the(fl)))
        elif r < 0.66:
            env = 'lem' if (shared and rng.random() < 0.5) else 'thm'
            body.append('\\begin{%s}x\\end{%s}' % (env, env))
            L.step('thm')
            expect.append(('thmenv', L.the('thm')))
        elif r < 0.76:
            body.append('\\stepcounter{cx}')
            L.step('cx')
        elif r < 0.84:
            nm, val = rng.choice(names), rng.randrange(0, 9)
            body.append('\\setcounter{%s}{%d}' % (nm, val))
            L.v[nm] = val
        elif r < 0.90:
            nm, val = rng.choice(names), rng.randrange(1, 4)
            body.append('\\addtocounter{%s}{%d}' % (nm, val))
            L.v[nm] += val
        else:
            nm = rng.choice(['cx', 'cx', 'equation', 'section', 'thm'])
            body.append('<<\\the%s>>' % nm)
            marks.append(L.the(nm))
    body.append('<<\\thecx>>')
    marks.append(L.the('cx'))
    src = '\\documentclass{article}\n%s\n\\begin{document}\n%s\n\\end{document}\n' % ('\n'.join(pre), '\n'.join(body))
    return dict(src=src, expect=expect, marks=marks, text=src)


def check_numbering(w):
    import re
    from plasTeX.TeX import TeX
    from util import time_limit
    t = TeX()
    t.input(w['src'])
    try:
        with time_limit(20):
            d = t.parse()
    except Exception as e:
        return False, 'parsing raised %s: %s' % (type(e).__name__, e)
    got = []

    def walk(n):
        for c in n.childNodes:
            if c.nodeType == 1:
                if c.nodeName in ('section', 'subsection', 'subsubsection', 'equation', 'caption', 'thmenv'):
                    r = getattr(c, 'ref', None)
                    got.append((c.nodeName, None if r is None else r.textContent))
                walk(c)
    walk(d)
    exp = [(k, v) for k, v in w['expect']]
    if got != exp:
        i = next((j for j, (a, b) in enumerate(zip(got, exp)) if a != b), min(len(got), len(exp)))
        return False, 'numbered object #%d: plasTeX %r, LaTeX rules %r (all: %r vs %r)' % (i, got[i:i + 1], exp[i:i + 1], got, exp)
    marks = re.findall(r'<<(.*?)>>', d.textContent)
    if marks != w['marks']:
        return False, 'printed counter values %r, LaTeX rules %r' % (marks, w['marks'])
    return True, ''


def classify_numbering(w, detail):
    return None


def bounded_numbering(budget, rng):
    import time
    t0, n, seen, samples = time.time(), 0, set(), []
    while time.time() - t0 < budget or n < 40:
        w = gen_numbering(rng)
        n += 1
        if w['src'] not in seen:
            seen.add(w['src'])
            if len(samples) < 2:
                samples.append(w['src'][:500])
        ok, d = check_numbering(w)
        if not ok:
            return False, n, d, dict(text=w['src'], expect=w['expect'], marks=w['marks'])
    return True, n, '', None, dict(distinct=len(seen), samples=samples, rule='random articles of the grammar (see bound); distinct = source not seen before')


BOUNDED.append(('bounded/numbering', 'the number attached to every numbered object and every printed counter value equal the ones LaTeX\'s counter rules give '
                '(independent reading of latex.ltx / article.cls: step resets the counters declared within, transitively; set / add are plain assignments; '
                'starred forms and objects deeper than the numbering depth get no number)',
                'random articles: 4-15 constructs among sectioning to 3 levels (starred or not), equations, figure / table captions, theorem-like environments '
                '(own counter, within section / subsection, shared counter), a user counter declared within another counter, \\setcounter / \\addtocounter / '
                '\\stepcounter, printed \\the<counter>', bounded_numbering))
