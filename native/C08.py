"""C08 native side: executable contracts on the real functions, ground tables."""
import plasTeX
from plasTeX import numToRoman

H = ["", "C", "CC", "CCC", "CD", "D", "DC", "DCC", "DCCC", "CM"]
T = ["", "X", "XX", "XXX", "XL", "L", "LX", "LXX", "LXXX", "XC"]
U = ["", "I", "II", "III", "IV", "V", "VI", "VII", "VIII", "IX"]


def ROMAN(x):
    return "M" * (x // 1000) + H[(x // 100) % 10] + T[(x // 10) % 10] + U[x % 10]


def check_roman(w):
    x = w['x']
    got = numToRoman(x)
    return got == ROMAN(x), 'numToRoman(%d) = %r, expected %r' % (x, got, ROMAN(x))


def model_x(model):
    for k, v in (model or {}).items():
        if k == 'p_x':
            return {'x': int(v)}
    return None


CONTRACTS = {
    'numToRoman': dict(check=check_roman, small=lambda: ({'x': i} for i in range(0, 5000)),
                       gen=lambda rng: {'x': rng.randrange(0, 60000)}, from_model=model_x),
}
GROUND = []
BOUNDED = []
CLASSES = {}

# ---------------------------------------------------------------- Counter objects on a real Context
import random as _random


def _mk_context(spec):
    """spec: list of (name, resetby or None, value)."""
    from plasTeX.Context import Context
    ctx = Context(load=False)
    for nm, rb, val in spec:
        ctx.counters[nm] = plasTeX.Counter(ctx, nm, rb, val)
    return ctx


def _within(spec, c, top):
    rb = dict((n, r) for n, r, _ in spec)
    seen = set()
    cur = c
    while rb.get(cur):
        if rb[cur] == top:
            return True
        cur = rb[cur]
        if cur in seen or cur not in rb:
            return False
        seen.add(cur)
    return False


def check_step(w):
    spec, who, op, arg = w['spec'], w['who'], w['op'], w.get('arg', 0)
    ctx = _mk_context(spec)
    c = ctx.counters[who]
    old = dict((n, v) for n, _, v in spec)
    if op == 'step':
        c.stepcounter(); exp_self = old[who] + 1
    elif op == 'set':
        c.setcounter(arg); exp_self = arg
    elif op == 'add':
        c.addtocounter(arg); exp_self = old[who] + arg
    else:
        c.resetcounters(); exp_self = old[who]
    for n, _, _ in spec:
        got = ctx.counters[n].value
        if n == who:
            exp = exp_self
        else:
            exp = 0 if (who != '' and _within(spec, n, who)) else old[n]
        if got != exp:
            return False, 'after %s on %r: counter %r = %r, expected %r (spec %r)' % (op, who, n, got, exp, spec)
    return True, ''


def gen_forest(rng):
    n = rng.randrange(1, 7)
    names = ['c%d' % i for i in range(n)]
    spec = []
    for i, nm in enumerate(names):
        rb = rng.choice([None] + names[:i]) if i else None     # parent has a smaller index: acyclic
        if rng.random() < 0.1:
            rb = 'nosuch'
        spec.append((nm, rb, rng.randrange(0, 9)))
    rng.shuffle(spec)
    return dict(spec=spec, who=rng.choice(names), op=rng.choice(['step', 'set', 'add', 'reset']), arg=rng.randrange(-3, 9))


def check_alph(w):
    from plasTeX.Context import Context
    ctx = Context(load=False)
    c = plasTeX.Counter(ctx, 'x', None, w['v'])
    v = w['v']
    ok = c.Alph == chr(64 + v) and c.alph == chr(96 + v) and c.arabic == str(v) and c.Roman == ROMAN(v) \
        and c.roman == ROMAN(v).lower() and c.fnsymbol == '*' * v
    return ok, 'representations of %d: %r' % (v, (c.Alph, c.alph, c.arabic, c.Roman, c.roman, c.fnsymbol))


for _nm in ('Counter.resetcounters', 'Counter.stepcounter', 'Counter.setcounter', 'Counter.addtocounter'):
    CONTRACTS[_nm] = dict(check=check_step, gen=gen_forest)
for _nm in ('Counter.Alph', 'Counter.alph', 'Counter.arabic', 'Counter.Roman', 'Counter.roman', 'Counter.fnsymbol'):
    CONTRACTS[_nm] = dict(check=check_alph, small=lambda: ({'v': v} for v in range(1, 27)))

LATEX_CHAINS = [('subsubparagraph', 'subparagraph'), ('subparagraph', 'paragraph'), ('paragraph', 'subsubsection'),
                ('subsubsection', 'subsection'), ('subsection', 'section'), ('section', 'chapter'),
                ('enumii', 'enumi'), ('enumiii', 'enumii'), ('enumiv', 'enumiii')]
BOOK_ONLY = [('equation', 'chapter'), ('figure', 'chapter'), ('table', 'chapter')]


def ground_hierarchy():
    """Declared within-relation after ProcessOptions: contains LaTeX's chains and is acyclic (precondition of resetcounters)."""
    from plasTeX.TeX import TeX
    n = 0
    for cls in ('book', 'report', 'article'):
        t = TeX()
        t.input('\\documentclass{%s}\\begin{document}x\\end{document}' % cls)
        d = t.parse()
        cs = d.context.counters
        rel = dict((k, v.resetby) for k, v in cs.items())
        for k, v in cs.items():
            n += 1
            if v.name != k or v.counters is not cs:
                return False, n, 'counter table not well formed at %r in %s' % (k, cls)
        for a, b in LATEX_CHAINS + (BOOK_ONLY if cls != 'article' else []):
            n += 1
            if rel.get(a) != b:
                return False, n, '%s: %s should be within %s, is within %r' % (cls, a, b, rel.get(a))
        for k in rel:                      # acyclic: following resetby from every counter terminates
            seen, cur = set(), k
            while rel.get(cur):
                n += 1
                if cur in seen:
                    return False, n, '%s: within-relation has a cycle through %r' % (cls, cur)
                seen.add(cur)
                cur = rel[cur]
    return True, n, ''


GROUND.append(('ground/counter-hierarchy', 'declared within-relation of book/report/article contains LaTeX chains, acyclic, table well formed', ground_hierarchy))


# ---------------------------------------------------------------- nested enumerate lists: items count 1,2,3 within each list
def _gen_list(rng, depth):
    items = []
    for _ in range(rng.randrange(1, 4)):
        body = 'x'
        if depth < 4 and rng.random() < 0.6:
            body += ''.join(_gen_list(rng, depth + 1) for _ in range(rng.randrange(1, 3)))
        items.append('\\item ' + body)
    return '\\begin{enumerate}' + ' '.join(items) + '\\end{enumerate}'


def check_lists(w):
    from plasTeX.TeX import TeX
    from plasTeX.Base.LaTeX.Lists import List
    List.depth = 0
    t = TeX()
    t.input('\\documentclass{article}\\begin{document}%s\\end{document}' % w['src'])
    d = t.parse()
    ok, detail = True, ''

    def walk(node):
        nonlocal ok, detail
        for ch in getattr(node, 'childNodes', []):
            if getattr(ch, 'nodeName', None) == 'enumerate':
                pos = [it.position for it in ch.childNodes if getattr(it, 'nodeName', None) == 'item']
                if pos != list(range(1, len(pos) + 1)):
                    ok, detail = False, 'items of a list numbered %r in %s' % (pos, w['src'])
            walk(ch)
    walk(d)
    List.depth = 0
    return ok, detail


CONTRACTS['List.invoke'] = dict(check=check_lists, gen=lambda rng: {'src': ' '.join(_gen_list(rng, 1) for _ in range(rng.randrange(1, 3)))})
