"""C08 native side: executable contracts on the real functions, ground tables."""
import plasTeX
from plasTeX import numToRoman

H = ["", "C", "CC", "CCC", "CD", "D", "DC", "DCC", "DCCC", "CM"]
T = ["", "X", "XX", "XXX", "XL", "L", "LX", "LXX", "LXXX", "XC"]
U = ["", "I", "II", "III", "IV", "V", "VI", "VII", "VIII", "IX"]


def ROMAN(x):
    return "M" * (x // 1000) + H[(x // 100) % 10] + T[(x // 10) % 10] + U[x % 10]


def check_roman(w):
    x = w['x']
    got = numToRoman(x)
    return got == ROMAN(x), 'numToRoman(%d) = %r, expected %r' % (x, got, ROMAN(x))


def model_x(model):
    for k, v in (model or {}).items():
        if k == 'p_x':
            return {'x': int(v)}
    return None


CONTRACTS = {
    'numToRoman': dict(check=check_roman, small=lambda: ({'x': i} for i in range(0, 5000)),
                       gen=lambda rng: {'x': rng.randrange(0, 60000)}, from_model=model_x),
}
GROUND = []
BOUNDED = []
CLASSES = {}
