"""C05 native side: numeric scanners and argument binding on the real TeX object."""
import os
import sys
import time
sys.path.insert(0, os.path.dirname(os.path.abspath(__file__)))
import plasTeX
from plasTeX import ParameterCommand, Command
from plasTeX.TeX import TeX

UNITS = {'pt': 1.0, 'pc': 12.0, 'in': 72.27, 'bp': 72.27 / 72, 'cm': 72.27 / 2.54, 'mm': 72.27 / 25.4, 'dd': 1238.0 / 1157,
         'cc': 1238.0 * 12 / 1157, 'sp': 1.0 / 65536}


def fresh(src):
    ParameterCommand._enablelevel = 0
    ParameterCommand.enabled = True
    t = TeX()
    t.input(src)
    return t


def rest(t):
    return ''.join(str(x) for x in t.itertokens())


def check_int(w):
    signs, lit, val, tail = w['signs'], w['lit'], w['val'], w['tail']
    t = fresh(signs + lit + tail)
    got = t.readInteger()
    nminus = signs.count('-')
    exp = (-1) ** nminus * val
    r = rest(t)
    ok = int(got) == exp and ParameterCommand._enablelevel == 0 and ParameterCommand.enabled is True
    exp_rest = tail[1:] if tail.startswith(' ') else tail
    if ok and r != exp_rest:
        return False, 'after readInteger(%r) the stream holds %r, expected %r' % (signs + lit + tail, r, exp_rest)
    return ok, 'readInteger(%r) = %r, expected %r (enable level %r)' % (signs + lit + tail, got, exp, ParameterCommand._enablelevel)


def gen_int(rng):
    signs = ''.join(rng.choice(['+', '-', ' ', '']) for _ in range(rng.randrange(0, 4)))
    k = rng.randrange(4)
    n = rng.randrange(0, 5000)
    if k == 0:
        lit, val = str(n), n
    elif k == 1:
        lit, val = "'" + oct(n)[2:], n
    elif k == 2:
        lit, val = '"' + hex(n)[2:].upper(), n
    else:
        ch = rng.choice('aZ7*')
        lit, val = '`' + ch, ord(ch)
    tail = rng.choice(['', ' x', 'x', ' ', '.5']) if k != 3 else rng.choice(['', 'x', ' x', ' '])      # one optional space follows every kind of constant
    if k == 2 and tail[:1] in 'abcdefABCDEF':
        tail = ' ' + tail
    return dict(signs=signs, lit=lit, val=val, tail=tail)


def check_dimen(w):
    src = w['signs'] + w['num'] + w['sp'] + w['true'] + w['unit'] + w['tail']
    t = fresh(src)
    got = t.readDimen()
    exp = (-1) ** w['signs'].count('-') * float(w['num'].replace(',', '.')) * UNITS[w['unit']] * 65536
    ok = abs(float(got) - exp) <= max(2.0, abs(exp) * 1e-6) and ParameterCommand._enablelevel == 0
    return ok, 'readDimen(%r) = %r sp, expected %r sp (enable level %r)' % (src, float(got), exp, ParameterCommand._enablelevel)


def gen_dimen(rng):
    num = rng.choice(['1', '2.5', '.5', '0', '12,25', '100'])
    return dict(signs=''.join(rng.choice(['+', '-', '']) for _ in range(rng.randrange(0, 3))), num=num, sp=rng.choice(['', ' ']),
                true=rng.choice(['', '', 'true ']), unit=rng.choice(sorted(UNITS)), tail=rng.choice(['', ' x', '\\relax']))


def check_any_balance(w):
    """F5 witness class: reading a typeless 'any' argument leaves the parameter switch balanced."""
    t = fresh('\\documentclass{article}\\begin{document}\\newwrite\\foo\\openout\\foo=bar \\parindent=5pt text\\end{document}')
    d = t.parse()
    ok = ParameterCommand._enablelevel == 0 and d.textContent.strip() == 'text'
    ParameterCommand._enablelevel, ParameterCommand.enabled = 0, True
    return ok, 'after \\openout the document text is %r' % d.textContent.strip()


class _sig(Command):
    args = '* [ opt ] first second:int ( pos ) third:str'


def check_bind(w):
    parts = []
    exp = {}
    if w['star']:
        parts.append('*')
    exp['*modifier*'] = '*' if w['star'] else None
    if w['opt'] is not None:
        parts.append('[%s]' % w['opt'])
    exp['opt'] = None if w['opt'] is None else w['opt'].replace('{', '').replace('}', '')
    parts.append('{%s}' % w['first']); exp['first'] = w['first']
    parts.append('{%d}' % w['second']); exp['second'] = w['second']
    if w['pos'] is not None:
        parts.append('(%s)' % w['pos'])
    exp['pos'] = w['pos']
    parts.append('{%s}' % w['third']); exp['third'] = w['third'].replace('{', '').replace('}', '')      # braces group, they are not characters of the string
    src = ''.join(parts) + 'REST'
    t = fresh(src)
    m = _sig()
    m.ownerDocument = t.ownerDocument
    m.parse(t)
    a = m.attributes
    got = {k: (None if a.get(k) is None else (a[k] if isinstance(a[k], int) else (str(a[k]) if isinstance(a[k], str) else a[k].textContent))) for k in exp}
    r = rest(t)
    return got == exp and r == 'REST', 'call %r bound %r (expected %r), rest %r' % (src, got, exp, r)


def gen_bind(rng):
    ws = ['a', 'bc', 'x y', 'q[r]', 'u(v)', 'w]']
    return dict(star=rng.random() < 0.5, opt=rng.choice([None, 'o', 'p q', '{[}', 'a[b]c', '{]}']), first=rng.choice(ws), second=rng.randrange(0, 99),
                pos=rng.choice([None, '1,2', 'z']), third=rng.choice(['s', 't u', 'a{b}c', '{xy}z', 'k{}']))


def ref_group(text, o, c):
    """TeX's rule for a delimited optional argument over a character string (every character one token; { } are groups):
    returns (argument text or None, rest)."""
    if not text.startswith(o):
        return None, text
    level, bl, k = 1, 0, 1
    while k < len(text):
        ch = text[k]
        if ch == '{':
            bl += 1
        elif ch == '}':
            bl -= 1
        elif bl > 0:
            pass
        elif ch == o:
            level += 1
        elif ch == c:
            level -= 1
            if level == 0:
                return text[1:k], text[k + 1:]
        k += 1
    return text[1:], ''


def check_group(w):
    text, chars = w['text'], w['chars']
    t = fresh(text)
    toks, src = t.readGrouping(chars)
    got = None if toks is None else ''.join(str(x) for x in toks)
    r = rest(t)
    exp, exp_rest = ref_group(text, chars[0], chars[1])
    return (got == exp and r == exp_rest), 'readGrouping(%r) on %r took %r leaving %r; the delimiter rule gives %r leaving %r' % (chars, text, got, r, exp, exp_rest)


def gen_group(rng):
    chars = rng.choice(['[]', '()', '<>'])
    alphabet = [chars[0], chars[1], '{', '}', 'a', 'b']
    # balanced braces: generate then repair
    body = ''.join(rng.choice(alphabet) for _ in range(rng.randrange(0, 10)))
    depth, out = 0, ''
    for ch in body:
        if ch == '}' and depth == 0:
            continue
        depth += (ch == '{') - (ch == '}')
        out += ch
    out += '}' * depth
    return dict(text=(chars[0] if rng.random() < 0.85 else '') + out + chars[1] + 'REST', chars=chars)


def small_group():
    import itertools
    for n in range(0, 6):
        for body in itertools.product('[]{}a', repeat=n):
            s, depth, ok = ''.join(body), 0, True
            for ch in s:
                depth += (ch == '{') - (ch == '}')
                if depth < 0:
                    ok = False
                    break
            if ok and depth == 0:
                yield dict(text='[' + s + ']R', chars='[]')


CONTRACTS = {
    'TeX.readGrouping/spec': dict(check=check_group, gen=gen_group, small=small_group),
    'TeX.readInteger': dict(check=check_int, gen=gen_int),
    'TeX.readOptionalSigns': dict(check=check_int, gen=gen_int),
    'TeX.readDimen': dict(check=check_dimen, gen=gen_dimen),
    'TeX.readUnitOfMeasure': dict(check=check_dimen, gen=gen_dimen),
    'TeX.readArgumentAndSource': dict(check=lambda w: check_any_balance(w) if w.get('any') else check_bind(w),
                                      gen=gen_bind, small=lambda: iter([dict(any=True)])),
}
GROUND = []
BOUNDED = []
CLASSES = {}


# ---------------------------------------------------------------- bounded: glue with stretch / shrink components (3 fil orders, every unit)
FILS = ['fil', 'fill', 'filll']


def gen_glue(rng):
    def comp(allow_fil):
        neg = rng.random() < 0.2
        num = rng.choice(['1', '2', '0.5', '3', '1.5', '10', '0'])
        unit = rng.choice(FILS if (allow_fil and rng.random() < 0.6) else sorted(UNITS))
        kw = rng.choice([unit, unit, unit.upper(), unit.capitalize()])
        return dict(neg=neg, num=num, unit=unit, text=('-' if neg else '') + num + rng.choice(['', ' ']) + kw)
    base = comp(False)
    plus = comp(True) if rng.random() < 0.7 else None
    minus = comp(True) if rng.random() < 0.6 else None
    src = base['text']
    if plus:
        src += rng.choice([' plus ', ' PLUS ', 'plus', ' plus']) + plus['text']
    if minus:
        src += rng.choice([' minus ', ' Minus ', 'minus', ' minus']) + minus['text']
    tail = rng.choice([' Z', '\\relax Z', ' \\relax'])
    return dict(base=base, plus=plus, minus=minus, src=src + tail, tail=tail, text=src + tail)


def _decode(x):
    """(coefficient, order) of a plasTeX dimen as its own `source` prints it: '<number><unit>' with unit pt / fil / fill / filll"""
    import re
    m = re.fullmatch(r'(-?[0-9.]+(?:e[-+]?[0-9]+)?)(pt|fil|fill|filll)', x.source)
    if not m:
        return None
    return float(m.group(1)), m.group(2)


def check_glue(w):
    t = fresh(w['src'])
    try:
        g = t.readGlue()
    except Exception as e:
        return False, 'readGlue(%r) raised %s: %s' % (w['src'], type(e).__name__, e)
    r = rest(t)
    exp_rest = w['tail'][1:] if w['tail'].startswith(' ') else w['tail']
    exp_rest = exp_rest.replace('\\relax', 'relax').replace(' ', '') if False else exp_rest
    got_rest = r
    # rest(t) prints tokens by their characters: a control word loses its backslash and the blank after it
    norm = lambda s: s.replace('\\', '').replace(' ', '')
    if norm(got_rest) != norm(exp_rest):
        return False, 'after readGlue(%r) the stream holds %r, expected %r' % (w['src'], got_rest, exp_rest)
    if ParameterCommand._enablelevel != 0:
        return False, 'readGlue(%r) left the parameter switch at level %r' % (w['src'], ParameterCommand._enablelevel)

    def expect(c):
        v = (-1 if c['neg'] else 1) * float(c['num'])
        if c['unit'] in FILS:
            return v, c['unit']
        return v * UNITS[c['unit']], 'pt'
    for name, comp, got in (('natural size', w['base'], plasTeX.dimen(float(g))), ('stretch', w['plus'], g.stretch), ('shrink', w['minus'], g.shrink)):
        if comp is None:
            if got is not None and name != 'natural size':
                return False, 'readGlue(%r): %s is %r, expected none' % (w['src'], name, got.source)
            continue
        if got is None:
            return False, 'readGlue(%r): %s missing' % (w['src'], name)
        d = _decode(got)
        ev, eu = expect(comp)
        if d is None or d[1] != eu or abs(d[0] - ev) > max(1e-3, abs(ev) * 1e-4):
            return False, 'readGlue(%r): %s is %s, TeX reads %s%s' % (w['src'], name, got.source, ev, eu)
    return True, ''


def bounded_glue(budget, rng):
    t0, n, seen, samples = time.time(), 0, set(), []
    while time.time() - t0 < budget or n < 300:
        w = gen_glue(rng)
        n += 1
        if w['src'] not in seen:
            seen.add(w['src'])
            if len(samples) < 3:
                samples.append(w['src'])
        ok, d = check_glue(w)
        if not ok:
            return False, n, d, dict(text=w['src'])
    return True, n, '', None, dict(distinct=len(seen), samples=samples, rule='random glue specifications of the grammar (see bound); distinct = source not seen before')


BOUNDED.append(('bounded/glue', 'readGlue returns the natural size, stretch and shrink TeX reads (coefficient and fil order / unit of each component), consumes exactly the '
                'specification (and one optional blank) and leaves the parameter switch balanced',
                'random glue: <dimen> [plus <dimen | fil | fill | filll>] [minus ...], coefficients 0 / 0.5 / 1 / 1.5 / 2 / 3 / 10 with optional sign, 9 physical units and '
                'the 3 fil orders, keywords in lower / upper / capitalised form, with and without blanks, followed by a letter or \\relax', bounded_glue))
