"""C19 native side: the real ifthenelse.evaluate against an independent evaluator of the expression grammar."""
import itertools
import os
import sys
import time
sys.path.insert(0, os.path.dirname(os.path.abspath(__file__)))
import plasTeX
from plasTeX import number
from plasTeX.TeX import TeX
from plasTeX.Tokenizer import Token, Other, Space
from plasTeX.Packages import ifthen as I


def fresh():
    t = TeX()
    t.ownerDocument.context.loadPackage(t, 'ifthen')     # makes \and \or \not available (not needed for direct calls)
    return t


_TEX = [None]


def tex():
    if _TEX[0] is None:
        _TEX[0] = TeX()
    return _TEX[0]


def mk(sym):
    """Token objects of a symbolic expression item."""
    if sym == 'T':
        return [I._true()]
    if sym == 'F':
        return [I._false()]
    if sym == 'and':
        return [I._and()]
    if sym == 'or':
        return [I._or()]
    if sym == 'not':
        return [I._not()]
    if sym in ('<', '>', '='):
        return [Other(sym)]
    if sym in ('(', ')'):
        o = Other(sym)
        class P(Other):
            pass
        # parentheses arrive as command tokens \( \) whose nodeName is '(' / ')'
        c = plasTeX.Command()
        c.nodeName_ = sym
        return [_Paren(sym)]
    if isinstance(sym, int):
        return [Other(ch) for ch in str(sym)]
    raise ValueError(sym)


class _Paren(plasTeX.Command):
    def __init__(self, s):
        plasTeX.Command.__init__(self)
        self._s = s
    catcode = None

    @property
    def nodeName(self):
        return self._s


# ---- independent evaluator: recursive descent for E ::= E and E | E or E | not E | ( E ) | atom | n REL n
class Bad(Exception):
    pass


def parse(toks):
    pos = [0]

    def peek():
        return toks[pos[0]] if pos[0] < len(toks) else None

    def eat():
        pos[0] += 1
        return toks[pos[0] - 1]

    def unary():
        t = peek()
        if t == 'not':
            eat()
            return not unary()
        if t == '(':
            eat()
            v = expr()
            if peek() != ')':
                raise Bad()
            eat()
            return v
        if t in ('T', 'F'):
            eat()
            return t == 'T'
        if isinstance(t, int):
            a = eat()
            r = peek()
            if r not in ('<', '>', '='):
                raise Bad()
            eat()
            b = peek()
            if not isinstance(b, int):
                raise Bad()
            eat()
            return {'<': a < b, '>': a > b, '=': a == b}[r]
        raise Bad()

    def expr():
        v = unary()
        while peek() in ('and', 'or'):
            op = eat()
            w = unary()
            v = (v and w) if op == 'and' else (v or w)     # equal precedence, left to right
        return v

    v = expr()
    if pos[0] != len(toks):
        raise Bad()
    return v


def run_real(seq):
    toks = []
    for i, s in enumerate(seq):
        if isinstance(s, int) and i and isinstance(seq[i - 1], int):
            raise Bad()
        toks += mk(s)
    obj = I.ifthenelse()
    return obj.evaluate(tex(), toks).state


def check_expr(w):
    seq = [int(x) if isinstance(x, str) and x.lstrip('-').isdigit() else x for x in w['seq']]
    try:
        exp = parse(seq)
    except Bad:
        return True, 'not grammatical'
    try:
        got = run_real(seq)
    except Exception as e:
        return False, 'evaluate(%r) raised %s: %s (expected %r)' % (seq, type(e).__name__, e, exp)
    return got == exp, 'evaluate(%r) = %r, expected %r' % (seq, got, exp)


ATOMS = ['T', 'F', 'and', 'or', 'not', '(', ')', 1, 2, '<', '>', '=']


def gen_tree(rng, depth):
    r = rng.random()
    if depth <= 0 or r < 0.3:
        if rng.random() < 0.5:
            return [rng.choice(['T', 'F'])]
        return [rng.randrange(0, 4), rng.choice(['<', '>', '=']), rng.randrange(0, 4)]
    if r < 0.5:
        return ['not'] + gen_tree(rng, depth - 1)
    if r < 0.65:
        return ['('] + gen_tree(rng, depth - 1) + [')']
    return gen_tree(rng, depth - 1) + [rng.choice(['and', 'or'])] + gen_tree(rng, depth - 1)


def bounded_infix(budget, rng):
    """All token-kind sequences up to length L that are grammatical (exhaustive), then random trees to depth 4."""
    t0 = time.time()
    n = 0
    L = 7 if budget < 100 else 9
    small = ['T', 'F', 'and', 'or', 'not', '(', ')', 1, 2, '<', '=']
    for ln in range(1, L + 1):
        for seq in itertools.product(small, repeat=ln):
            if time.time() - t0 > budget * 0.6:
                break
            try:
                parse(list(seq))
            except Bad:
                continue
            n += 1
            ok, d = check_expr({'seq': list(seq)})
            if not ok:
                return False, n, d
    while time.time() - t0 < budget * 0.9:
        seq = gen_tree(rng, 4)
        n += 1
        ok, d = check_expr({'seq': seq})
        if not ok:
            return False, n, d
    return True, n, ''


def check_postfix(w):
    """The postfix phase in isolation is exercised through whole expressions (the function has one entry point)."""
    return check_expr(w)


def check_isodd(w):
    t = TeX()
    t.input('\\documentclass{article}\\usepackage{ifthen}\\begin{document}\\ifthenelse{\\isodd{%d}}{T}{F}\\end{document}' % w['n'])
    got = t.parse().textContent.strip()
    return got == ('T' if w['n'] % 2 == 1 else 'F'), 'isodd{%d} -> %r' % (w['n'], got)


def check_equal(w):
    t = TeX()
    t.input('\\documentclass{article}\\usepackage{ifthen}\\begin{document}\\ifthenelse{\\equal{%s}{%s}}{T}{F}\\end{document}' % (w['a'], w['b']))
    got = t.parse().textContent.strip()
    return got == ('T' if w['a'] == w['b'] else 'F'), 'equal{%s}{%s} -> %r' % (w['a'], w['b'], got)


def check_prec(w):
    o = I.ifthenelse()
    vals = dict(cmp=o.prec(Other('<')), n=o.prec(I._not()), a=o.prec(I._and()), o=o.prec(I._or()), A=o.prec(I.AND()),
                num=o.prec(number(3)), t=o.prec(I._true()))
    ok = vals['cmp'] > vals['n'] > vals['a'] == vals['o'] == vals['A'] > vals['num'] == vals['t'] == 0
    return ok, 'precedences %r' % vals


CONTRACTS = {
    'evaluate/postfix-phase': dict(check=check_postfix, gen=lambda rng: {'seq': gen_tree(rng, 3)}, bounded=True),
    'ifthenelse.prec': dict(check=check_prec, small=lambda: iter([{}])),
    'isodd.invoke': dict(check=check_isodd, small=lambda: ({'n': n} for n in range(0, 7))),
    'equal.invoke': dict(check=check_equal, small=lambda: ({'a': a, 'b': b} for a in ('x', 'yy', '') for b in ('x', 'yy', ''))),
}


def ground_token_eq():
    """Assumptions of the token-equality hooks: Command / number never equal a str, Token == str compares text."""
    n = 0
    for c in (I._and(), I._or(), I._not(), I.AND(), I.OR(), I.NOT()):
        for s in ('>', '<', '=', 'and', ''):
            n += 1
            if c == s:
                return False, n, '%r == %r' % (c, s)
    for v in (0, 1, 61, 62):
        for s in ('>', '<', '=', '1', chr(61)):
            n += 1
            if number(v) == s:
                return False, n, 'number(%d) == %r' % (v, s)
    for s in ('>', '<', '='):
        n += 1
        if not (Other(s) == s) or I._true() == s:
            return False, n, 'Other(%r) == %r fails' % (s, s)
    n += 2
    if I._true.state is not True or I._false.state is not False or I._boolToken.state is not False:
        return False, n, 'truth token states'
    return True, n, ''


GROUND = [('ground/token-eq', 'token equality and truth-token class attributes as assumed by the contracts', ground_token_eq)]
BOUNDED = [('bounded/infix', 'infix-to-postfix phase + evaluation equals an independent recursive-descent evaluation of the grammar',
            'all grammatical token sequences of length <= 7 (quick) / 9 (thorough) over 11 token kinds, plus random trees of depth <= 4', bounded_infix)]
CLASSES = {}


# ---------------------------------------------------------------- bounded: \lengthtest over lengths in mixed units (document level)
from fractions import Fraction
LUNIT = {'pt': Fraction(1), 'pc': Fraction(12), 'in': Fraction(7227, 100), 'bp': Fraction(7227, 7200), 'cm': Fraction(7227, 254), 'mm': Fraction(7227, 2540),
         'dd': Fraction(1238, 1157), 'cc': Fraction(14856, 1157), 'sp': Fraction(1, 65536)}
# the same length written in two units (exact rational arithmetic), and unequal neighbours
SAME = [('1cm', '10mm'), ('1in', '72.27pt'), ('1pc', '12pt'), ('2.54cm', '1in'), ('1cc', '12dd'), ('10mm', '1cm'), ('72.27pt', '1in'), ('25.4mm', '1in'), ('3pt', '3pt'),
        ('0.5in', '36.135pt')]


def _val(s):
    import re
    m = re.fullmatch(r'(-?[0-9.]+)([a-z]+)', s)
    return Fraction(m.group(1)) * LUNIT[m.group(2)]


def gen_lengthtest(rng):
    if rng.random() < 0.5:
        a, b = rng.choice(SAME)
    else:
        a = '%s%s' % (rng.choice(['1', '2', '0.5', '10', '7.3', '28.45']), rng.choice(sorted(LUNIT)))
        b = '%s%s' % (rng.choice(['1', '2', '0.5', '10', '7.3', '28.45']), rng.choice(sorted(LUNIT)))
    return dict(a=a, b=b, rel=rng.choice('<>='))


def check_lengthtest(w):
    va, vb = _val(w['a']), _val(w['b'])
    # TeX compares lengths as integers of scaled points; two lengths less than a scaled point apart may round either way, so only clear
    # cases are asserted: exactly equal lengths, and lengths at least 2sp apart
    if va != vb and abs(va - vb) * 65536 < 2:
        return True, ''
    exp = {'<': va < vb, '>': va > vb, '=': va == vb}[w['rel']]
    t = TeX()
    t.input('\\documentclass{article}\\usepackage{ifthen}\\begin{document}\\ifthenelse{\\lengthtest{%s%s%s}}{YES}{NO}\\end{document}' % (w['a'], w['rel'], w['b']))
    got = t.parse().textContent.strip()
    if got != ('YES' if exp else 'NO'):
        return False, '\\lengthtest{%s%s%s} takes the %s branch; the comparison is %s' % (w['a'], w['rel'], w['b'], got, exp)
    return True, ''


def bounded_lengthtest(budget, rng):
    import time
    t0, n = time.time(), 0
    for a, b in SAME:
        for rel in '<>=':
            n += 1
            w = dict(a=a, b=b, rel=rel)
            ok, d = check_lengthtest(w)
            if not ok:
                return False, n, d, w
    while time.time() - t0 < min(budget, 40) * 0.5:
        n += 1
        w = gen_lengthtest(rng)
        ok, d = check_lengthtest(w)
        if not ok:
            return False, n, d, w
    return True, n, ''


BOUNDED.append(('bounded/lengthtest', 'a length comparison in mixed units takes the branch of the comparison it spells: exactly one of < = > holds, the same length written '
                'in two units is equal',
                '10 pairs of equal lengths in different units x 3 relations (exhaustive); random pairs over 6 coefficients x 9 units (lengths closer than 2sp but unequal are '
                'not asserted)', bounded_lengthtest))
