"""C11 native side (bounded): verbatim bodies, \\verb delimiters and generated formulas through the real parser; executable forms of
the scan-loop / character-map contracts."""
import itertools
import os
import re
import sys
import time
sys.path.insert(0, os.path.dirname(os.path.abspath(__file__)))

PRINTABLE = ''.join(chr(c) for c in range(32, 127))


def parse(body, pre=''):
    from plasTeX.TeX import TeX
    t = TeX()
    t.input('\\documentclass{article}%s\\begin{document}%s\\end{document}' % (pre, body))
    from util import time_limit
    with time_limit(10):
        return t.parse()


# ----------------------------------------------------------------------------------------------- verbatim environment
SNIPPETS = ['\\', '{', '}', '%', '$', '&', '#', '^', '_', '~', '^^M', '^^41', '--', '---', '``', "''", '  ', '\n', '\n\n', '\\end', '\\end{', '\\end{verb',
            '\\end{verbatim', 'end{verbatim}', '\\begin{verbatim}', '\\endverbati', '\\textbf{x}', '% comment', '?`', '<', '>', '"']


def gen_verbatim(rng):
    parts = []
    for _ in range(rng.randrange(0, 9)):
        r = rng.random()
        if r < 0.5:
            parts.append(rng.choice(SNIPPETS))
        else:
            parts.append(''.join(rng.choice(PRINTABLE + '\n') for _ in range(rng.randrange(1, 6))))
    body = ''.join(parts)
    # the body must not contain a complete end marker (pieces may combine into one, so repeat until none is left)
    while '\\end{verbatim}' in body or '\\endverbatim' in body or '\\end{verbatim*}' in body:
        body = body.replace('\\end{verbatim}', '\\end{verbatim').replace('\\endverbatim', '\\endverbati').replace('\\end{verbatim*}', '\\end{verbatim*')
    star = rng.random() < 0.2
    return dict(body=body, star=star)


def check_verbatim(w):
    body, env = w['body'], 'verbatim*' if w.get('star') else 'verbatim'
    src = 'before \\begin{%s}%s\\end{%s}after \\textbf{bold} ---' % (env, body, env)
    try:
        d = parse(src)
    except Exception as e:
        return False, 'parsing raised %s for the verbatim body %r' % (type(e).__name__, body)
    vs = d.getElementsByTagName(env)
    if len(vs) != 1:
        return False, '%d verbatim nodes for body %r' % (len(vs), body)
    got = vs[0].textContent
    if got != body:
        return False, 'verbatim body %r came out as %r' % (body, got)
    # text after it is processed normally again
    if len(d.getElementsByTagName('textbf')) != 1 or d.getElementsByTagName('textbf')[0].textContent != 'bold':
        return False, 'text after the verbatim body %r is not processed normally' % body
    if d.context.depth != 1:
        return False, 'context depth %d after the document with verbatim body %r' % (d.context.depth, body)
    return True, ''


def small_verbatim():
    for body in ['', 'a', '\\', '\\end', '\\end{verbatim', ' \\end{verbati}m ', '%', '{', '}', '$$', '^^M', 'a\n\nb', '  x  ', '\\end{verbatim*}', '\\endverbati m']:
        yield dict(body=body, star=False)


# ----------------------------------------------------------------------------------------------- \verb
def gen_verb(rng):
    delim = rng.choice('|+!/=:;.,?@"\'`-#$&~^_')
    body = ''.join(rng.choice([c for c in PRINTABLE if c != delim]) for _ in range(rng.randrange(0, 9)))
    star = rng.random() < 0.3
    if star and rng.random() < 0.15:
        delim = rng.choice('aZq')          # after the star a letter can delimit too
        body = body.replace(delim, '')
    if delim == '^' and body == '':
        body = 'k'          # \\verb^^ : the two carets are a ^^-notation for the tokenizer's look-ahead (C01), not two delimiters
    return dict(delim=delim, body=body, star=star)


def check_verb(w):
    delim, body = w['delim'], w['body']
    src = 'x \\verb%s%s%s%s y \\emph{z}' % ('*' if w.get('star') else '', delim, body, delim)
    try:
        d = parse(src)
    except Exception as e:
        return False, 'parsing raised %s for %r' % (type(e).__name__, src)
    vs = d.getElementsByTagName('verb')
    if len(vs) != 1 or vs[0].textContent != body:
        return False, '\\verb%s...%s with body %r gave %r' % (delim, delim, body, [v.textContent for v in vs])
    if len(d.getElementsByTagName('emph')) != 1 or d.context.depth != 1:
        return False, 'text after \\verb (body %r, delimiter %r) is not processed normally' % (body, delim)
    return True, ''


# ----------------------------------------------------------------------------------------------- mathematics
def lex(s):
    """TeX's lexical view of a formula: control words, control symbols, single characters; blanks dropped."""
    out, i = [], 0
    while i < len(s):
        ch = s[i]
        if ch == '\\':
            j = i + 1
            if j < len(s) and s[j].isalpha():
                while j < len(s) and s[j].isalpha():
                    j += 1
                out.append(s[i:j])
                i = j
            else:
                out.append(s[i:j + 1])
                i = j + 1
        elif ch.isspace():
            i += 1
        else:
            out.append(ch)
            i += 1
    return out


ATOMS = ['a', 'b', 'x', 'y', '1', '2', '\\alpha', '\\beta', '\\infty', '+', '-', '=', '<', '>', '\\leq', '\\cdot', '\\ldots']


def gen_formula(rng, depth=0):
    parts = []
    for _ in range(rng.randrange(1, 4)):
        r = rng.random()
        if r < 0.45 or depth >= 4:
            parts.append(rng.choice(ATOMS))
        elif r < 0.55:
            parts.append('^{%s}' % gen_formula(rng, depth + 1) if rng.random() < 0.7 else '^' + rng.choice('abxy12'))
            parts.insert(-1, rng.choice('abxy'))
        elif r < 0.63:
            parts.append(rng.choice('abxy') + '_{%s}' % gen_formula(rng, depth + 1))
        elif r < 0.72:
            parts.append('\\frac{%s}{%s}' % (gen_formula(rng, depth + 1), gen_formula(rng, depth + 1)))
        elif r < 0.79:
            parts.append('\\sqrt{%s}' % gen_formula(rng, depth + 1) if rng.random() < 0.6 else '\\sqrt[3]{%s}' % gen_formula(rng, depth + 1))
        elif r < 0.86:
            l, rr = rng.choice([('(', ')'), ('[', ']'), ('\\{', '\\}'), ('|', '|')])
            parts.append('\\left%s %s \\right%s' % (l, gen_formula(rng, depth + 1), rr))
        elif r < 0.92:
            parts.append('\\mbox{if $%s$}' % gen_formula(rng, depth + 1))
        else:
            # sparse arrays too: an empty cell keeps its separator
            cells = [gen_formula(rng, depth + 2) if rng.random() < 0.75 else '' for _ in range(4)]
            for a, b in ((0, 1), (2, 3)):
                if not cells[a] and not cells[b]:
                    cells[rng.choice((a, b))] = rng.choice('abxy')      # a row without any content is a recorded finding (bounded/empty-array-row)
            parts.append('\\begin{array}{cc} %s & %s \\\\ %s & %s \\end{array}' % tuple(cells))
    return ' '.join(parts)


def gen_math(rng):
    f = gen_formula(rng)
    env = rng.choice(['dollar', 'paren', 'bracket', 'equation', 'textarg'])
    usemacro = rng.random() < 0.25
    return dict(formula=f, env=env, macro=usemacro)


def check_math(w):
    f, env = w['formula'], w['env']
    pre = ''
    written = f
    if w.get('macro'):
        # a user macro is expanded in the reconstructed source
        pre = '\\newcommand{\\myq}{q + 1}'
        written = f + ' \\myq'
        f = f + ' q + 1'
    wrap = {'dollar': ('$', '$', 'math'), 'paren': ('\\(', '\\)', 'math'), 'bracket': ('\\[', '\\]', 'displaymath'),
            'equation': ('\\begin{equation}', '\\end{equation}', 'equation'), 'textarg': ('\\textbf{see $', '$}', 'math')}[env]
    src = 'T %s%s%s U' % (wrap[0], written, wrap[1])
    try:
        d = parse(src, pre)
    except Exception as e:
        return False, 'parsing raised %s for %r' % (type(e).__name__, src)
    ns = d.getElementsByTagName(wrap[2])
    if not ns:
        return False, 'no %s node for %r' % (wrap[2], src)
    n = ns[0]
    got = n.source
    opener = {'math': ('$', '$'), 'displaymath': ('\\[', '\\]'), 'equation': ('\\begin{equation}', '\\end{equation}')}[wrap[2]]
    exp = lex(opener[0] + f + opener[1])
    if lex(got) != exp:
        return False, 'source of %r is %r: tokens %r, the author wrote %r' % (src, got, lex(got), exp)
    mj = getattr(n, 'mathjax_source', None)
    if mj is not None:
        inner = {'math': ('\\(', '\\)')}.get(wrap[2], opener)
        expm = lex(inner[0] + f.replace('<', '\\lt ').replace('>', '\\gt ') + inner[1])
        if lex(mj) != expm:
            return False, 'mathjax source of %r is %r, expected tokens %r' % (src, mj, expm)
        if '<' in mj or '>' in mj:
            return False, 'mathjax source %r still contains < or >' % mj
    return True, ''


# ----------------------------------------------------------------------------------------------- character map
def check_ltgt(w):
    from plasTeX.Base.LaTeX.Math import mathjax_lt_gt
    s = w['s']
    got = mathjax_lt_gt(s)
    exp = ''.join('\\lt ' if c == '<' else '\\gt ' if c == '>' else c for c in s)
    return got == exp, 'mathjax_lt_gt(%r) = %r, expected %r' % (s, got, exp)


def gen_ltgt(rng):
    return dict(s=''.join(rng.choice('<>ab\\ lt') for _ in range(rng.randrange(0, 8))))


def _bounded(check, gen, small=None):
    def run(budget, rng):
        t0, n = time.time(), 0
        seen, samples = set(), []
        if small is not None:
            for w in small():
                n += 1
                ok, d = check(w)
                if not ok:
                    return False, n, d, dict(w, text=repr(w))
        while time.time() - t0 < budget / 3.0 or n < 40:
            w = gen(rng)
            n += 1
            key = repr(sorted(w.items()))
            if key not in seen:
                seen.add(key)
                if len(samples) < 2:
                    samples.append(w)
            ok, d = check(w)
            if not ok:
                return False, n, d, dict(w, text=repr(w))
        return True, n, '', None, dict(distinct=len(seen), samples=samples, rule='random cases; distinct = not generated before in this run')
    return run


def bounded_empty_row(budget, rng):
    """an array row whose cells are all empty is still a row of the formula"""
    w = dict(formula='\\begin{array}{cc} a & b \\\\ & \\\\ c & d \\end{array}', env='dollar', macro=False)
    ok, d = check_math(w)
    if not ok:
        return False, 1, d, dict(text=w['formula'], kind='empty-array-row')
    return True, 1, ''


CONTRACTS = {
    'VerbatimEnvironment.invoke/scan': dict(check=check_verbatim, gen=gen_verbatim, small=small_verbatim, bounded=True),
    'verb.invoke/scan': dict(check=check_verb, gen=gen_verb, bounded=True),
    'verb.digest': dict(check=check_verb, gen=gen_verb, bounded=True),
    'mathjax_lt_gt': dict(check=check_ltgt, gen=gen_ltgt),
    'mathjax_lt_gt/empty': dict(check=check_ltgt, gen=gen_ltgt),
}
BOUNDED = [('bounded/verbatim', 'the content of a verbatim environment is reproduced character for character and text after it is processed normally',
            'hand-written corner bodies; random bodies <= 9 pieces over the printable alphabet, newlines, ^^ sequences, partial end markers', _bounded(check_verbatim, gen_verbatim, small_verbatim)),
           ('bounded/verb', '\\verb reproduces the characters between its delimiters for every delimiter', 'random bodies <= 8 characters x 15 delimiters, starred and not',
            _bounded(check_verb, gen_verb)),
           ('bounded/math-source', 'reconstructed source / MathJax source of a formula equals what the author wrote, token for token (blanks aside, user macro expanded, < > mapped for MathJax)',
            'random formulas of a grammar of depth <= 4 (scripts, fractions, roots, delimiters, arrays, text boxes) in $ $, \\( \\), \\[ \\], equation and inside a text argument',
            _bounded(check_math, gen_math)),
           ('bounded/empty-array-row', 'an array row without content is kept', '1 formula', bounded_empty_row)]
CLASSES = {'empty-array-row': lambda w: isinstance(w, dict) and w.get('kind') == 'empty-array-row'}
