"""C17 native side: inventory of interpreter-wide stores (ground), per-family state-leak probes and the bounded
A;B-versus-B comparison of whole documents (each run in a fresh interpreter)."""
import json
import os
import subprocess
import sys
import time
sys.path.insert(0, os.path.dirname(os.path.abspath(__file__)))
import inventory

HERE = os.path.dirname(os.path.abspath(__file__))
REPO = next((p for p in sys.path if os.path.isdir(os.path.join(p, 'plasTeX'))), '/repo')
INV = os.path.join(os.path.dirname(HERE), 'contracts', 'C17_inventory.json')

# ----------------------------------------------------------------------------------------------- families of known leaks
# location predicates over (module, class, attribute)
FAMILIES = {
    'list-depth': lambda m, c, a: a == 'depth' and m.endswith('Lists'),
    'math-inenv': lambda m, c, a: a == 'inEnv',
    'register-values': lambda m, c, a: a == 'value',
    'class-patching': lambda m, c, a: a in ('counter', 'level', 'format') and c in ('thesection', 'theindex', 'printindex', 'bibliography', 'theequation', 'thebibliography'),
    'idgen': lambda m, c, a: (m, c, a) == ('plasTeX', '', 'idgen'),
    'class-registries': lambda m, c, a: (c, a) in (('ColumnType', 'columnTypes'), ('defcitealias', 'aliases')),
}
# lazily initialised values that are functions of the class alone (compiled argument strings etc.): reviewed idempotent caches
IDEMPOTENT = lambda m, c, a: a in ('_arguments', '_Macro__arguments', 'arguments', 'nodeName', 'macroName') or a.startswith('_cached')


def family_of(loc):
    m, c, a = loc
    for k, p in FAMILIES.items():
        if p(m, c, a):
            return k
    return None


# ----------------------------------------------------------------------------------------------- driver run in a fresh interpreter
DRIVER = r'''
import sys, json, logging, types
sys.path.insert(0, sys.argv[1])
logging.disable(logging.CRITICAL)
from plasTeX.TeX import TeX
job = json.loads(sys.stdin.read())

def stable(v, d=0):
    if isinstance(v, (int, float, str, bool, type(None))):
        return repr(v)
    if isinstance(v, (list, tuple)) and d < 3:
        return '[' + ','.join(stable(x, d + 1) for x in v) + ']'
    if isinstance(v, dict) and d < 3:
        return '{' + ','.join(sorted(stable(k, d + 1) + ':' + stable(x, d + 1) for k, x in v.items())) + '}'
    if isinstance(v, (set, frozenset)) and d < 3:
        return '{' + ','.join(sorted(stable(x, d + 1) for x in v)) + '}'
    if isinstance(v, type):
        return '<class %s.%s>' % (v.__module__, v.__qualname__)
    src = getattr(v, 'source', None)
    if isinstance(src, str) and type(v).__module__.startswith('plasTeX'):
        return '%s(%s)' % (type(v).__name__, src)
    return '<%s>' % type(v).__name__

def snapshot():
    out = {}
    for mn, mod in list(sys.modules.items()):
        if not (mn == 'plasTeX' or mn.startswith('plasTeX.')) or mod is None:
            continue
        for gn, g in list(vars(mod).items()):
            if gn.startswith('__'):
                continue
            if isinstance(g, type) and g.__module__ == mn:
                for an, av in list(vars(g).items()):
                    if an.startswith('__') or isinstance(av, (types.FunctionType, classmethod, staticmethod, property)) or callable(av) and not isinstance(av, type):
                        continue
                    out[mn + '|' + g.__qualname__ + '|' + an] = stable(av)
            elif isinstance(g, (int, float, str, bool, list, dict, set, tuple)):
                out[mn + '||' + gn] = stable(g)
            elif isinstance(g, types.GeneratorType) and g.gi_frame is not None:
                out[mn + '||' + gn] = 'generator' + stable(dict(g.gi_frame.f_locals))
    return out

def run(src):
    t = TeX()
    t.input(src)
    try:
        d = t.parse()
    except Exception as e:
        return 'EXC %s' % type(e).__name__
    try:
        x = d.toXML()
    except Exception as e:
        return 'XMLEXC %s' % type(e).__name__
    if job.get('canon_ids'):
        # generated ids come from the process-wide generator plasTeX.idgen (recorded finding): rename them in order of appearance
        import re
        seen = {}
        x = re.sub(r'a\d{10}', lambda m: seen.setdefault(m.group(0), 'id%d' % len(seen)), x)
    return x

res = {}
if job['mode'] == 'snap':
    # importing the macro modules has no effect on them (ProcessOptions only runs when a document loads the package); it makes
    # the snapshot cover their classes
    import importlib
    for w in job.get('warm', []):
        importlib.import_module(w)
    s0 = snapshot()
    out = run(job['a'])
    s1 = snapshot()
    diff = {k: [s0.get(k), s1.get(k)] for k in set(s0) | set(s1) if s0.get(k) != s1.get(k) and k in s0}
    res = dict(diff=diff, out=out[:200], new=len([k for k in s1 if k not in s0]))
elif job['mode'] == 'seq':
    import copy
    import importlib
    for w in job.get('warm', []):
        importlib.import_module(w)
    saved = {}
    fams = job.get('restore') or []
    def listed(mn, cn, an):
        return any(f[0] in ('*', mn) and f[1] in ('*', cn) and f[2] == an for f in fams)
    for mn, mod in list(sys.modules.items()):
        if not (mn == 'plasTeX' or mn.startswith('plasTeX.')) or mod is None:
            continue
        for gn, g in list(vars(mod).items()):
            if isinstance(g, type) and g.__module__ == mn:
                for an, av in list(vars(g).items()):
                    if listed(mn, g.__qualname__, an) and not callable(av):
                        saved[(g, an)] = copy.copy(av) if isinstance(av, (list, dict)) else av
    outs = []
    for i, src in enumerate(job['docs']):
        if i == len(job['docs']) - 1 and i > 0:
            # put the recorded leak locations back to their values before the first document
            for (g, an), v in saved.items():
                cur = vars(g).get(an)
                if isinstance(v, (list, dict)) and isinstance(cur, type(v)):
                    if cur != v:
                        cur.clear()
                        (cur.extend if isinstance(v, list) else cur.update)(v)
                elif cur is not v:
                    setattr(g, an, v)
        outs.append(run(src))
    res = dict(outs=outs, restored=len(saved))
print(json.dumps(res))
'''


def fresh(job, timeout=120):
    p = subprocess.run([sys.executable, '-c', DRIVER, REPO], input=json.dumps(job), capture_output=True, text=True, timeout=timeout)
    if p.returncode != 0:
        raise RuntimeError('driver failed: ' + p.stderr[-400:])
    return json.loads(p.stdout.strip().splitlines()[-1])


def doc(body, cls='article', pre=''):
    return r'\documentclass{%s}%s\begin{document}%s\end{document}' % (cls, pre, body)


WARM = ['plasTeX.Base', 'plasTeX.Base.TeX', 'plasTeX.Base.LaTeX', 'plasTeX.Packages.article', 'plasTeX.Packages.book', 'plasTeX.Packages.report',
        'plasTeX.Packages.ifthen', 'plasTeX.Packages.natbib', 'plasTeX.Packages.longtable']
# documents exercising the stateful features (first component: short name)
PROBES = [
    ('plain', doc(r'Hello \textbf{world} $x^2$ \(y\) \[z\]')),
    ('lists', doc(r'\begin{itemize}\item a\begin{enumerate}\item b\end{enumerate}\end{itemize}')),
    ('unclosed-list', doc(r'\begin{itemize}\item unclosed').replace(r'\end{document}', '')),
    ('unclosed-math', r'\documentclass{article}\begin{document}text $x'),
    ('hbox-math', doc(r'\hbox{a $x$ b} \mbox{$y$}')),
    ('registers', doc(r'\parindent=7pt \setlength{\parskip}{3pt}\addtolength{\textwidth}{1in} x')),
    ('counters', doc(r'\newcounter{foo}\setcounter{foo}{5}\stepcounter{section}\section{A}\thefoo')),
    ('defs', doc(r'\def\foo#1{[#1]}\newcommand{\bar}[1][x]{<#1>}\foo{a}\bar\bar[b]\catcode`\@=11 \let\x@y=\foo \x@y{1}')),
    ('newif', doc(r'\newif\ifzz \zztrue \ifzz yes\else no\fi')),
    ('ifthen', doc(r'\ifthenelse{\(1<2\) \and \not \isodd{2}}{T}{F} \(a\)', pre=r'\usepackage{ifthen}')),
    ('ifthen-error', r'\documentclass{article}\usepackage{ifthen}\begin{document}\ifthenelse{\(1<2'),
    ('tabular', doc(r'\begin{tabular}{l|c}a&b\\\hline c&d\end{tabular}')),
    ('newcolumntype', doc(r'\newcolumntype{Z}{c}\begin{tabular}{Z}a\end{tabular}')),
    ('natbib-alias', doc(r'\defcitealias{k}{Alias}x', pre=r'\usepackage{natbib}')),
    ('verbatim', doc(r'\begin{verbatim}a $ \b{c}' + '\n' + r'\end{verbatim} \verb|x_y|')),
    ('book', doc(r'\chapter{One}\section{S}\label{a}\ref{a}', 'book')),
    ('report', doc(r'\chapter{One}\begin{equation}x\end{equation}', 'report')),
    ('labels', doc(r'\section{A}\label{s}\ref{s} \ref{missing}')),
    ('openout', doc(r'\newwrite\foo \openout\foo=bar \parindent=5pt x')),
    ('param-error', r'\documentclass{article}\begin{document}\parindent='),
    # every kind of value scanner, with the value coming from another parameter / register
    ('scan-muglue', doc(r'\thickmuskip=\medmuskip \newmuskip\mymu \mymu=\thinmuskip x')),
    ('scan-glue', doc(r'\parskip=\baselineskip \newskip\mysk \mysk=2pt plus 1pt minus 1pt \hskip\mysk y')),
    ('scan-dimen', doc(r'\newdimen\myd \myd=2\parindent \parindent=\myd \newcount\myc \myc=\tolerance z')),
    ('scan-mudimen', doc(r'\mkern 3mu \thinmuskip=2mu w')),
    # token-typed arguments (Tok / XTok): operands that expand to several tokens, to one, to nothing
    ('scan-xtok', doc(r'\def\first{xy}\def\second{xy}\def\none{}\def\one{z}\ifx\first\second A\else B\fi \ifx\none\first C\else D\fi \ifx\one z E\fi \if ab F\fi \ifcat a1 G\fi')),
    # environments whose classes derive from one another (class-level caches must not be inherited)
    ('tabular', doc(r'\begin{tabular}{ll}a&b\\c&d\end{tabular}')),
    ('eqnarray-star', doc(r'\begin{eqnarray*}a&=&b\\c&=&d\end{eqnarray*}')),
    ('itemize', doc(r'\begin{itemize}\item a\end{itemize}')),
]
# documents whose result is compared (B)
TARGETS = [
    ('enumerate', doc(r'\begin{enumerate}\item a\begin{enumerate}\item b\end{enumerate}\end{enumerate}')),
    ('math', doc(r'a $x$ \(y\) b \hbox{$z$}')),
    ('the-registers', doc(r'\the\parindent,\the\parskip,\the\textwidth')),
    ('book-index', doc(r'\chapter{C}\section{S}\thesection,\theequation \printindex', 'book')),
    ('article', doc(r'\section{S}\subsection{T}\thesection \begin{equation}x\end{equation}', 'article')),
    ('newif', doc(r'\newif\ifzz \ifzz yes\else no\fi')),
    ('ifthen', doc(r'\ifthenelse{\(1<2\) \or \isodd{2}}{T}{F} \(a\)', pre=r'\usepackage{ifthen}')),
    ('tabular', doc(r'\begin{tabular}{lZr}a&b&c\end{tabular}')),
    ('param', doc(r'\parindent=5pt \the\parindent \def\x{1}\x \catcode`\@=12 a@b')),
    ('cite', doc(r'\citetalias{k}', pre=r'\usepackage{natbib}')),
    ('assign', doc(r'\newcount\mycount \mycount=42 \the\mycount \tolerance=300 \the\tolerance')),
    ('longtable', doc(r'\begin{longtable}{ll}h&h\endhead a&b\\c&d\end{longtable}', pre=r'\usepackage{longtable}')),
    ('eqnarray', doc(r'\begin{eqnarray}a&=&b\\c&=&d\end{eqnarray}')),
    ('description', doc(r'\begin{description}\item[k] a\end{description}\begin{enumerate}\item b\end{enumerate}')),
]


# ----------------------------------------------------------------------------------------------- ground: inventory
def ground_inventory():
    inv = json.load(open(INV))
    inv.pop('_doc', None)
    found = ['%s :: %s :: %s' % o for o in inventory.scan(REPO)]
    n = len(found)
    new = [f for f in found if f not in inv]
    if new:
        return False, n, 'store to an interpreter-wide location that is not in the reviewed inventory: ' + '; '.join(new[:5])
    ok_disp = ('balanced', 'per-document', 'idempotent', 'logging', 'render')
    bad = [k for k, v in inv.items() if not (v in ok_disp or v.startswith('finding:'))]
    if bad:
        return False, n, 'unknown disposition for ' + bad[0]
    if n == 0:
        return False, 0, 'inventory scan found nothing (vacuous)'
    return True, n, '%d stores, %d reviewed entries' % (n, len(inv))


# ----------------------------------------------------------------------------------------------- bounded: state leaks per family
_cache = {}


def leaks():
    """name of probe -> list of (location, before, after) for every class attribute / module global that differs after the document"""
    if 'leaks' in _cache:
        return _cache['leaks']
    from concurrent.futures import ThreadPoolExecutor
    with ThreadPoolExecutor(8) as ex:
        rs = list(ex.map(lambda p: fresh(dict(mode='snap', warm=WARM, a=p[1])), PROBES))
    out = {}
    for (name, _), r in zip(PROBES, rs):
        ds = []
        for k, (b, a) in sorted(r['diff'].items()):
            loc = tuple(k.split('|'))
            if IDEMPOTENT(*loc) or loc[0] == 'plasTeX.Logging':
                # logging handlers / logger registry: log formatting state, reviewed as not part of the result
                continue
            ds.append((loc, b, a))
        out[name] = ds
    _cache['leaks'] = out
    return out


def mk_family_check(fam):
    def chk(budget, rng):
        ls = leaks()
        n = 0
        for name, ds in ls.items():
            n += 1
            for loc, b, a in ds:
                if family_of(loc) == fam:
                    src = dict(PROBES)[name]
                    return False, n, '%s.%s is %s before and %s after the document %r' % (loc[1], loc[2], b, a, name), \
                        dict(family=fam, probe=name, location='.'.join(loc), text=src)
        return True, n, ''
    return chk


def chk_other(budget, rng):
    ls = leaks()
    n = 0
    for name, ds in ls.items():
        n += 1
        for loc, b, a in ds:
            if family_of(loc) is None:
                return False, n, '%s is %s before and %s after the document %r' % ('.'.join(loc), b, a, name), \
                    dict(family=None, probe=name, location='.'.join(loc), text=dict(PROBES)[name])
    if n == 0:
        return False, 0, 'no probes ran'
    return True, n, ''


def chk_isolation(budget, rng):
    """B after A (recorded leak locations put back to their values before A) equals B alone, both in fresh interpreters."""
    fams = [list(x) for x in RESTORE]
    from concurrent.futures import ThreadPoolExecutor
    pairs = [(a, b) for a in PROBES for b in TARGETS]
    rng.shuffle(pairs)
    t0 = time.time()
    alone = {}
    with ThreadPoolExecutor(8) as ex:
        for (bn, bsrc), r in zip(TARGETS, ex.map(lambda b: fresh(dict(mode='seq', warm=WARM, docs=[b[1]], canon_ids=True)), TARGETS)):
            alone[bn] = r['outs'][-1]
    n = 0
    # group by A: one interpreter per (A, B)
    def one(p):
        (an, asrc), (bn, bsrc) = p
        r = fresh(dict(mode='seq', warm=WARM, docs=[asrc, bsrc], restore=fams, canon_ids=True))
        return r['outs'][-1]
    i = 0
    while i < len(pairs) and (time.time() - t0 < budget or i < 24):
        chunk = pairs[i:i + 16]
        with ThreadPoolExecutor(16) as ex:
            outs = list(ex.map(one, chunk))
        for ((an, asrc), (bn, bsrc)), o in zip(chunk, outs):
            n += 1
            if o != alone[bn]:
                return False, n, 'document %r gives a different tree after document %r than alone' % (bn, an), \
                    dict(family='isolation', a=asrc, b=bsrc, text=asrc)
        i += 16
    return True, n, ''


# locations put back between A and B in the isolation comparison: exactly the recorded findings' locations
RESTORE = [
    ('plasTeX.Base.LaTeX.Lists', 'List', 'depth'),
    ('plasTeX.Base.TeX.Primitives', 'MathShift', 'inEnv'),
    ('*', '*', 'value'),
    ('*', 'thesection', 'format'), ('*', 'theequation', 'format'),
    ('*', 'theindex', 'counter'), ('*', 'theindex', 'level'), ('*', 'printindex', 'counter'), ('*', 'printindex', 'level'),
    ('*', 'bibliography', 'counter'), ('*', 'bibliography', 'level'), ('*', 'thebibliography', 'counter'), ('*', 'thebibliography', 'level'),
    ('*', 'ColumnType', 'columnTypes'), ('*', 'defcitealias', 'aliases'),
]

GROUND = [('ground/inventory', 'every store to a class attribute / module global in plasTeX/**/*.py is in the reviewed inventory', ground_inventory)]
BOUNDED = [('bounded/leak/' + f, 'no class attribute / module global of family %s differs after a document' % f,
            '%d probe documents, each in a fresh interpreter' % len(PROBES), mk_family_check(f)) for f in FAMILIES] + \
          [('bounded/leak/other', 'no other class attribute / module global of plasTeX.* differs after a document',
            '%d probe documents, each in a fresh interpreter' % len(PROBES), chk_other),
           ('bounded/isolation', 'the tree of B after A equals the tree of B alone (recorded leak locations put back between them)',
            '%d x %d document pairs (time-limited prefix of a shuffled list, at least 24), fresh interpreter per pair' % (len(PROBES), len(TARGETS)), chk_isolation)]


def in_family(f):
    return lambda w: isinstance(w, dict) and w.get('family') == f


CLASSES = {f: in_family(f) for f in FAMILIES}


# ----------------------------------------------------------------------------------------------- executable forms of the balance contracts
def _run_here(src):
    from plasTeX.TeX import TeX
    t = TeX()
    t.input(src)
    try:
        t.parse()
    except Exception as e:
        return type(e).__name__
    return None


def check_ifthen(w):
    from plasTeX.Base.LaTeX.Math import BeginMath, EndMath
    exc = _run_here(w['text'])
    if exc is not None:
        return True, ''
    return (not BeginMath.disableMath and not EndMath.disableMath), \
        'after %r: BeginMath.disableMath=%r EndMath.disableMath=%r' % (w['text'], BeginMath.disableMath, EndMath.disableMath)


def gen_ifthen(rng):
    tests = [r'1<2', r'\(1<2\) \and \isodd{3}', r'\not \isodd{2}', r'\equal{a}{b} \or 3>2', r'\(\isodd{1}\)']
    return dict(text=doc(r'\ifthenelse{%s}{T}{F}' % rng.choice(tests), pre=r'\usepackage{ifthen}'))


def check_param(w):
    from plasTeX import ParameterCommand
    before = (ParameterCommand.enabled, ParameterCommand._enablelevel)
    exc = _run_here(w['text'])
    if exc is not None:
        return True, ''
    after = (ParameterCommand.enabled, ParameterCommand._enablelevel)
    return before == after, 'ParameterCommand (enabled, _enablelevel) %r before and %r after %r' % (before, after, w['text'])


def gen_param(rng):
    body = rng.choice([r'\parindent=%dpt x' % rng.randrange(1, 30), r'\parskip=\parindent y', r'\tolerance=%d z' % rng.randrange(0, 9999),
                       r'\newwrite\foo \openout\foo=bar \parindent=5pt x', r'\hskip 3pt plus 1pt a', r'\setlength{\parindent}{2em}'])
    return dict(text=doc(body))


CONTRACTS = {
    'ifthenelse.invoke': dict(check=check_ifthen, gen=gen_ifthen),
    'ParameterCommand.invoke': dict(check=check_param, gen=gen_param),
    'PCClass.enable': dict(check=check_param, gen=gen_param),
    'PCClass.disable': dict(check=check_param, gen=gen_param),
}
