"""C10 native side: border marking and column counting on real ArrayCell / cline objects."""
import os
import sys
sys.path.insert(0, os.path.dirname(os.path.abspath(__file__)))
from plasTeX.TeX import TeX
from plasTeX.Base.LaTeX.Arrays import Array

_DOC = [None]


def doc():
    if _DOC[0] is None:
        t = TeX()
        t.input('\\documentclass{article}\\begin{document}x\\end{document}')
        _DOC[0] = t.parse()
    return _DOC[0]


def mkcells(spans):
    d = doc()
    cells = []
    for sp in spans:
        c = Array.ArrayCell()
        c.ownerDocument = d
        if sp:
            c.attributes['colspan'] = sp
        cells.append(c)
    return cells


def check_borders(w):
    spans, start, end, loc = w['spans'], w['start'], w['end'], w.get('loc')
    cells = mkcells(spans)
    b = Array.cline()
    b.ownerDocument = doc()
    if start is not None:
        b.attributes['span'] = [start, end]
    b.applyBorders(cells, loc)
    eff = loc or 'top'
    col = 1
    for c, sp in zip(cells, spans):
        inside = (start is None) or (start <= col <= end)
        marked = all(('border-%s-%s' % (eff, k)) in c.style for k in ('style', 'color', 'width'))
        any_marked = any(k.startswith('border-') for k in c.style)
        if marked != inside or (not inside and any_marked):
            return False, 'spans %r range %r-%r: cell starting in column %d marked=%r' % (spans, start, end, col, marked)
        col += sp if sp else 1
    return True, ''


def gen_borders(rng):
    n = rng.randrange(0, 6)
    spans = [rng.choice([None, 0, 1, 1, 2, 3]) for _ in range(n)]
    if rng.random() < 0.2:
        return dict(spans=spans, start=None, end=None, loc=rng.choice([None, 'bottom']))
    a = rng.randrange(1, 8)
    return dict(spans=spans, start=a, end=a + rng.randrange(0, 4), loc=rng.choice([None, 'bottom', 'left']))


def small_borders():
    for spans in ([2, 1], [1, 2, 1], [3, 1, 1], [None, 2, 1]):
        for a in range(1, 5):
            for b in range(a, 5):
                yield dict(spans=spans, start=a, end=b)


def check_numcols(w):
    t = TeX()
    rows = w['rows']
    ncol = max(sum(r) for r in rows)
    body = ' \\\\ '.join(' & '.join(('\\multicolumn{%d}{c}{x}' % s) if s > 1 else 'y' for s in r) for r in rows)
    t.input('\\documentclass{article}\\begin{document}\\begin{tabular}{%s}%s\\end{tabular}\\end{document}' % ('c' * ncol, body))
    tab = t.parse().getElementsByTagName('tabular')[0]
    return tab.numCols == ncol, 'rows %r: numCols = %r, expected %r' % (rows, getattr(tab, 'numCols', None), ncol)


CONTRACTS = {
    'applyBorders/span': dict(check=check_borders, gen=gen_borders, small=small_borders),
    'applyBorders/full': dict(check=check_borders, gen=lambda rng: dict(spans=[rng.choice([None, 1, 2]) for _ in range(rng.randrange(0, 5))], start=None, end=None)),
    'linkCells/numCols': dict(check=check_numcols, gen=lambda rng: dict(rows=[[rng.choice([1, 1, 2, 3]) for _ in range(rng.randrange(1, 4))] for _ in range(rng.randrange(1, 4))])),
}
GROUND = []
BOUNDED = []
CLASSES = {}


# ---------------------------------------------------------------- column specification styles follow the column a cell starts in
ALIGN = {'l': 'left', 'c': 'center', 'r': 'right'}


def check_colspec(w):
    spec, rows = w['spec'], w['rows']
    cols = [ch for ch in spec if ch in 'lcr']
    t = TeX()
    body = ' \\\\ '.join(' & '.join(('\\multicolumn{%d}{c}{m}' % s) if s > 1 else 'y' for s in r) for r in rows)
    t.input('\\documentclass{article}\\begin{document}\\begin{tabular}{%s}%s\\end{tabular}\\end{document}' % (spec, body))
    tab = t.parse().getElementsByTagName('tabular')[0]
    for row, spans in zip(tab, rows):
        col = 0
        for cell, s in zip(row, spans):
            if s == 1 and col < len(cols):
                want = ALIGN[cols[col]]
                if cell.style.get('text-align') != want:
                    return False, 'spec %r row %r: cell starting in column %d has text-align %r, expected %r' % (spec, spans, col + 1, cell.style.get('text-align'), want)
            col += s
    return True, ''


def gen_colspec(rng):
    n = rng.randrange(2, 6)
    spec = ''.join(rng.choice('lcr') + rng.choice(['', '', '|']) for _ in range(n))
    rows = []
    for _ in range(rng.randrange(1, 4)):
        r, left = [], n
        while left > 0:
            s = rng.choice([1, 1, 2, 3])
            s = min(s, left)
            r.append(s)
            left -= s
        rows.append(r)
    return dict(spec=spec, rows=rows)


def bounded_colspec(budget, rng):
    import itertools
    import time
    t0, n = time.time(), 0
    for spec in (''.join(p) for k in (2, 3) for p in itertools.product('lcr', repeat=k)):
        for rows in ([[1] * len(spec)], [[2] + [1] * (len(spec) - 2)], [[1, 2] + [1] * (len(spec) - 3)] if len(spec) >= 3 else [[1, 1]]):
            n += 1
            w = dict(spec=spec, rows=rows)
            ok, d = check_colspec(w)
            if not ok:
                return False, n, d, w
    while time.time() - t0 < min(budget, 30) * 0.5:
        n += 1
        w = gen_colspec(rng)
        ok, d = check_colspec(w)
        if not ok:
            return False, n, d, w
    return True, n, ''


BOUNDED.append(('bounded/colspec-styles', 'each cell takes the alignment of the column it starts in, also to the right of a multicolumn cell',
                'all column specifications of 2-3 columns over l/c/r x three row shapes (exhaustive); random specs of 2-5 columns with | and random spans', bounded_colspec))


# ---------------------------------------------------------------- table shape: rows and cells hold the text written between the separators
DECLS = ['\\bfseries', '\\itshape', '\\small', '\\ttfamily', '\\em']


def gen_table(rng):
    ncols = rng.randrange(2, 5)
    rows, src_rows, k = [], [], [0]

    def word():
        k[0] += 1
        return 'Wq%dz' % k[0]
    for _ in range(rng.randrange(1, 5)):
        cells, texts, left = [], [], ncols
        while left > 0:
            r = rng.random()
            ws = [word() for _ in range(rng.randrange(1, 3))]
            if r < 0.15 and left >= 2:
                span = rng.randrange(2, left + 1)
                cells.append('\\multicolumn{%d}{c}{%s}' % (span, ' '.join(ws)))
                left -= span
            else:
                t = ' '.join(ws)
                r2 = rng.random()
                if r2 < 0.25:
                    t = rng.choice(DECLS) + ' ' + t          # an unbraced declaration: must end with the cell
                elif r2 < 0.40:
                    t = '{' + rng.choice(DECLS) + ' ' + ws[0] + '}' + (' ' + ' '.join(ws[1:]) if ws[1:] else '')
                elif r2 < 0.50:
                    t = '\\textbf{' + t + '}'
                cells.append(t)
                left -= 1
            texts.append(ws)
        rows.append(texts)
        end = rng.choice([' \\\\ ', ' \\\\[2pt] ', ' \\\\* ', '\\\\\n', ' \\tabularnewline '])
        src_rows.append(' & '.join(cells) + end + rng.choice(['', '', '\\hline ']))
    last = src_rows[-1]
    if rng.random() < 0.4:                                     # the final row end is optional
        for e in (' \\\\ ', ' \\\\[2pt] ', ' \\\\* ', '\\\\\n', ' \\tabularnewline '):
            if e in last:
                last = last.replace(e, ' ')
        src_rows[-1] = last.replace('\\hline ', '')
    spec = ''.join(rng.choice('lcr') for _ in range(ncols))
    src = '\\begin{tabular}{%s}%s%s\\end{tabular}' % (spec, rng.choice(['', '\\hline ']), ''.join(src_rows))
    return dict(src=src, rows=rows, text=src)


def check_table(w):
    import re
    from util import time_limit
    t = TeX()
    t.input('\\documentclass{article}\\begin{document}%s AFTERq\\end{document}' % w['src'])
    try:
        with time_limit(20):
            d = t.parse()
    except Exception as e:
        return False, 'parsing raised %s: %s' % (type(e).__name__, e)
    tabs = d.getElementsByTagName('tabular')
    if len(tabs) != 1:
        return False, '%d tabular nodes' % len(tabs)
    got = []
    for row in tabs[0]:
        cells = [re.findall(r'Wq\d+z', c.textContent) for c in row]
        if any(cells) or len(row) > 0:
            got.append(cells)
    while got and not any(got[-1]):
        got.pop()                                               # the phantom row after the last row end
    if got != w['rows']:
        return False, 'rows / cells read %r, written %r' % (got, w['rows'])
    if 'AFTERq' in tabs[0].textContent or 'AFTERq' not in d.textContent:
        return False, 'the text after the table is inside it or lost'
    # no formatting leaks out of a cell: a declaration node lives in the cell it was written in, and the group depth is back
    if d.context.depth != 1:
        return False, 'context depth %d after the document' % d.context.depth
    return True, ''


def bounded_table(budget, rng):
    import time
    t0, n, seen, samples = time.time(), 0, set(), []
    while time.time() - t0 < budget or n < 60:
        w = gen_table(rng)
        n += 1
        if w['src'] not in seen:
            seen.add(w['src'])
            if len(samples) < 2:
                samples.append(w['src'][:400])
        ok, dd = check_table(w)
        if not ok:
            return False, n, dd, dict(text=w['src'], rows=w['rows'])
    return True, n, '', None, dict(distinct=len(seen), samples=samples, rule='random tabulars of the grammar (see bound); distinct = source not seen before')


BOUNDED.append(('bounded/table-shape', 'a tabular with r rows yields r rows whose cells hold exactly the words written between the separators, in order; what follows the '
                'table stays outside it; all groups are closed at the end',
                'random tabulars: 2-4 columns, 1-4 rows, cells of 1-2 words, multicolumn spans, unbraced / braced font declarations and \\textbf in cells, row ends '
                '\\\\ / \\\\[len] / \\\\* / \\tabularnewline, \\hline, optional final row end', bounded_table))
