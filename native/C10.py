"""C10 native side: border marking and column counting on real ArrayCell / cline objects."""
import os
import sys
sys.path.insert(0, os.path.dirname(os.path.abspath(__file__)))
from plasTeX.TeX import TeX
from plasTeX.Base.LaTeX.Arrays import Array

_DOC = [None]


def doc():
    if _DOC[0] is None:
        t = TeX()
        t.input('\\documentclass{article}\\begin{document}x\\end{document}')
        _DOC[0] = t.parse()
    return _DOC[0]


def mkcells(spans):
    d = doc()
    cells = []
    for sp in spans:
        c = Array.ArrayCell()
        c.ownerDocument = d
        if sp:
            c.attributes['colspan'] = sp
        cells.append(c)
    return cells


def check_borders(w):
    spans, start, end, loc = w['spans'], w['start'], w['end'], w.get('loc')
    cells = mkcells(spans)
    b = Array.cline()
    b.ownerDocument = doc()
    if start is not None:
        b.attributes['span'] = [start, end]
    b.applyBorders(cells, loc)
    eff = loc or 'top'
    col = 1
    for c, sp in zip(cells, spans):
        inside = (start is None) or (start <= col <= end)
        marked = all(('border-%s-%s' % (eff, k)) in c.style for k in ('style', 'color', 'width'))
        any_marked = any(k.startswith('border-') for k in c.style)
        if marked != inside or (not inside and any_marked):
            return False, 'spans %r range %r-%r: cell starting in column %d marked=%r' % (spans, start, end, col, marked)
        col += sp if sp else 1
    return True, ''


def gen_borders(rng):
    n = rng.randrange(0, 6)
    spans = [rng.choice([None, 0, 1, 1, 2, 3]) for _ in range(n)]
    if rng.random() < 0.2:
        return dict(spans=spans, start=None, end=None, loc=rng.choice([None, 'bottom']))
    a = rng.randrange(1, 8)
    return dict(spans=spans, start=a, end=a + rng.randrange(0, 4), loc=rng.choice([None, 'bottom', 'left']))


def small_borders():
    for spans in ([2, 1], [1, 2, 1], [3, 1, 1], [None, 2, 1]):
        for a in range(1, 5):
            for b in range(a, 5):
                yield dict(spans=spans, start=a, end=b)


def check_numcols(w):
    t = TeX()
    rows = w['rows']
    ncol = max(sum(r) for r in rows)
    body = ' \\\\ '.join(' & '.join(('\\multicolumn{%d}{c}{x}' % s) if s > 1 else 'y' for s in r) for r in rows)
    t.input('\\documentclass{article}\\begin{document}\\begin{tabular}{%s}%s\\end{tabular}\\end{document}' % ('c' * ncol, body))
    tab = t.parse().getElementsByTagName('tabular')[0]
    return tab.numCols == ncol, 'rows %r: numCols = %r, expected %r' % (rows, getattr(tab, 'numCols', None), ncol)


CONTRACTS = {
    'applyBorders/span': dict(check=check_borders, gen=gen_borders, small=small_borders),
    'applyBorders/full': dict(check=check_borders, gen=lambda rng: dict(spans=[rng.choice([None, 1, 2]) for _ in range(rng.randrange(0, 5))], start=None, end=None)),
    'linkCells/numCols': dict(check=check_numcols, gen=lambda rng: dict(rows=[[rng.choice([1, 1, 2, 3]) for _ in range(rng.randrange(1, 4))] for _ in range(rng.randrange(1, 4))])),
}
GROUND = []
BOUNDED = []
CLASSES = {}
