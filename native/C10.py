"""C10 native side: border marking and column counting on real ArrayCell / cline objects."""
import os
import sys
sys.path.insert(0, os.path.dirname(os.path.abspath(__file__)))
from plasTeX.TeX import TeX
from plasTeX.Base.LaTeX.Arrays import Array

_DOC = [None]


def doc():
    if _DOC[0] is None:
        t = TeX()
        t.input('\\documentclass{article}\\begin{document}x\\end{document}')
        _DOC[0] = t.parse()
    return _DOC[0]


def mkcells(spans):
    d = doc()
    cells = []
    for sp in spans:
        c = Array.ArrayCell()
        c.ownerDocument = d
        if sp:
            c.attributes['colspan'] = sp
        cells.append(c)
    return cells


def check_borders(w):
    spans, start, end, loc = w['spans'], w['start'], w['end'], w.get('loc')
    cells = mkcells(spans)
    b = Array.cline()
    b.ownerDocument = doc()
    if start is not None:
        b.attributes['span'] = [start, end]
    b.applyBorders(cells, loc)
    eff = loc or 'top'
    col = 1
    for c, sp in zip(cells, spans):
        inside = (start is None) or (start <= col <= end)
        marked = all(('border-%s-%s' % (eff, k)) in c.style for k in ('style', 'color', 'width'))
        any_marked = any(k.startswith('border-') for k in c.style)
        if marked != inside or (not inside and any_marked):
            return False, 'spans %r range %r-%r: cell starting in column %d marked=%r' % (spans, start, end, col, marked)
        col += sp if sp else 1
    return True, ''


def gen_borders(rng):
    n = rng.randrange(0, 6)
    spans = [rng.choice([None, 0, 1, 1, 2, 3]) for _ in range(n)]
    if rng.random() < 0.2:
        return dict(spans=spans, start=None, end=None, loc=rng.choice([None, 'bottom']))
    a = rng.randrange(1, 8)
    return dict(spans=spans, start=a, end=a + rng.randrange(0, 4), loc=rng.choice([None, 'bottom', 'left']))


def small_borders():
    for spans in ([2, 1], [1, 2, 1], [3, 1, 1], [None, 2, 1]):
        for a in range(1, 5):
            for b in range(a, 5):
                yield dict(spans=spans, start=a, end=b)


def check_numcols(w):
    t = TeX()
    rows = w['rows']
    ncol = max(sum(r) for r in rows)
    body = ' \\\\ '.join(' & '.join(('\\multicolumn{%d}{c}{x}' % s) if s > 1 else 'y' for s in r) for r in rows)
    t.input('\\documentclass{article}\\begin{document}\\begin{tabular}{%s}%s\\end{tabular}\\end{document}' % ('c' * ncol, body))
    tab = t.parse().getElementsByTagName('tabular')[0]
    return tab.numCols == ncol, 'rows %r: numCols = %r, expected %r' % (rows, getattr(tab, 'numCols', None), ncol)


CONTRACTS = {
    'applyBorders/span': dict(check=check_borders, gen=gen_borders, small=small_borders),
    'applyBorders/full': dict(check=check_borders, gen=lambda rng: dict(spans=[rng.choice([None, 1, 2]) for _ in range(rng.randrange(0, 5))], start=None, end=None)),
    'linkCells/numCols': dict(check=check_numcols, gen=lambda rng: dict(rows=[[rng.choice([1, 1, 2, 3]) for _ in range(rng.randrange(1, 4))] for _ in range(rng.randrange(1, 4))])),
}
GROUND = []
BOUNDED = []
CLASSES = {}


# ---------------------------------------------------------------- column specification styles follow the column a cell starts in
ALIGN = {'l': 'left', 'c': 'center', 'r': 'right'}


def check_colspec(w):
    spec, rows = w['spec'], w['rows']
    cols = [ch for ch in spec if ch in 'lcr']
    t = TeX()
    body = ' \\\\ '.join(' & '.join(('\\multicolumn{%d}{c}{m}' % s) if s > 1 else 'y' for s in r) for r in rows)
    t.input('\\documentclass{article}\\begin{document}\\begin{tabular}{%s}%s\\end{tabular}\\end{document}' % (spec, body))
    tab = t.parse().getElementsByTagName('tabular')[0]
    for row, spans in zip(tab, rows):
        col = 0
        for cell, s in zip(row, spans):
            if s == 1 and col < len(cols):
                want = ALIGN[cols[col]]
                if cell.style.get('text-align') != want:
                    return False, 'spec %r row %r: cell starting in column %d has text-align %r, expected %r' % (spec, spans, col + 1, cell.style.get('text-align'), want)
            col += s
    return True, ''


def gen_colspec(rng):
    n = rng.randrange(2, 6)
    spec = ''.join(rng.choice('lcr') + rng.choice(['', '', '|']) for _ in range(n))
    rows = []
    for _ in range(rng.randrange(1, 4)):
        r, left = [], n
        while left > 0:
            s = rng.choice([1, 1, 2, 3])
            s = min(s, left)
            r.append(s)
            left -= s
        rows.append(r)
    return dict(spec=spec, rows=rows)


def bounded_colspec(budget, rng):
    import itertools
    import time
    t0, n = time.time(), 0
    for spec in (''.join(p) for k in (2, 3) for p in itertools.product('lcr', repeat=k)):
        for rows in ([[1] * len(spec)], [[2] + [1] * (len(spec) - 2)], [[1, 2] + [1] * (len(spec) - 3)] if len(spec) >= 3 else [[1, 1]]):
            n += 1
            w = dict(spec=spec, rows=rows)
            ok, d = check_colspec(w)
            if not ok:
                return False, n, d, w
    while time.time() - t0 < min(budget, 30) * 0.5:
        n += 1
        w = gen_colspec(rng)
        ok, d = check_colspec(w)
        if not ok:
            return False, n, d, w
    return True, n, ''


BOUNDED.append(('bounded/colspec-styles', 'each cell takes the alignment of the column it starts in, also to the right of a multicolumn cell',
                'all column specifications of 2-3 columns over l/c/r x three row shapes (exhaustive); random specs of 2-5 columns with | and random spans', bounded_colspec))
