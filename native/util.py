import re


def z3str(s):
    """Decode a z3-printed string literal ("..." with \\u{hex} escapes and "" for a quote)."""
    if s is None:
        return None
    s = s.strip()
    if len(s) >= 2 and s[0] == '"' and s[-1] == '"':
        s = s[1:-1]
    s = s.replace('""', '"')
    return re.sub(r'\\u\{([0-9a-fA-F]+)\}', lambda m: chr(int(m.group(1), 16)), s)


def model_get(model, name):
    return (model or {}).get(name)
