import re


def z3str(s):
    """Decode a z3-printed string literal ("..." with \\u{hex} escapes and "" for a quote)."""
    if s is None:
        return None
    s = s.strip()
    if len(s) >= 2 and s[0] == '"' and s[-1] == '"':
        s = s[1:-1]
    s = s.replace('""', '"')
    return re.sub(r'\\u\{([0-9a-fA-F]+)\}', lambda m: chr(int(m.group(1), 16)), s)


def model_get(model, name):
    return (model or {}).get(name)


class TookTooLong(Exception):
    pass


class time_limit:
    """Per-case wall-clock limit for calls into the real code: a hang is a failing input, not a crash of the checker."""

    def __init__(self, seconds):
        self.seconds = seconds

    def __enter__(self):
        import signal

        def handler(signum, frame):
            raise TookTooLong('no result within %d s' % self.seconds)
        self.old = signal.signal(signal.SIGALRM, handler)
        signal.alarm(self.seconds)

    def __exit__(self, *exc):
        import signal
        signal.alarm(0)
        signal.signal(signal.SIGALRM, self.old)
        return False
