"""C02 native side (bounded): generated macro programs through the real expansion engine, compared with an independent evaluator of
TeX's substitution rules (a small token-level expander written from the TeXbook rules, not from plasTeX's code)."""
import os
import sys
import time
sys.path.insert(0, os.path.dirname(os.path.abspath(__file__)))

LETTERS = 'abcdefghijklmnopqrstuvwxyzABCDEFGHIJKLMNOPQRSTUVWXYZ'


# ----------------------------------------------------------------------------------------------- independent evaluator
def lex(s):
    out, i = [], 0
    while i < len(s):
        ch = s[i]
        if ch == '\\':
            j = i + 1
            if j < len(s) and s[j] in LETTERS:
                while j < len(s) and s[j] in LETTERS:
                    j += 1
                out.append(('cs', s[i + 1:j]))
                while j < len(s) and s[j] == ' ':
                    j += 1
                i = j
            else:
                out.append(('cs', s[j:j + 1]))
                i = j + 1
        elif ch == ' ':
            out.append(('ch', ' '))
            while i < len(s) and s[i] == ' ':
                i += 1
        else:
            out.append(('ch', ch))
            i += 1
    return out


class Evaluator:
    def __init__(self):
        self.scopes = [{}]
        self.out = []
        self.steps = 0

    def lookup(self, name):
        for sc in reversed(self.scopes):
            if name in sc:
                return sc[name]
        return None

    def define(self, name, val, glob=False):
        if glob:
            for sc in self.scopes[1:]:
                sc.pop(name, None)
            self.scopes[0][name] = val
        else:
            self.scopes[-1][name] = val

    # ---- reading pieces of the input
    def skip_spaces(self, todo):
        while todo and todo[-1] == ('ch', ' '):
            todo.pop()

    def read_group(self, todo):
        """after an opening brace has been popped: tokens up to the matching closing brace"""
        depth, body = 1, []
        while todo:
            t = todo.pop()
            if t == ('ch', '{'):
                depth += 1
            elif t == ('ch', '}'):
                depth -= 1
                if depth == 0:
                    return body
            body.append(t)
        raise ValueError('runaway group')

    def read_undelimited(self, todo):
        self.skip_spaces(todo)
        t = todo.pop()
        if t == ('ch', '{'):
            return self.read_group(todo)
        return [t]

    def read_delimited(self, todo, delim):
        arg, depth = [], 0
        n = len(delim)
        while True:
            if depth == 0 and len(todo) >= n and [todo[-1 - i] for i in range(n)] == delim:
                for _ in range(n):
                    todo.pop()
                break
            if not todo:
                raise ValueError('runaway argument')
            t = todo.pop()
            if t == ('ch', '{'):
                depth += 1
            elif t == ('ch', '}'):
                depth -= 1
            arg.append(t)
        # one pair of outer braces around the whole argument is removed
        if len(arg) >= 2 and arg[0] == ('ch', '{') and arg[-1] == ('ch', '}'):
            d, whole = 0, True
            for i, t in enumerate(arg):
                if t == ('ch', '{'):
                    d += 1
                elif t == ('ch', '}'):
                    d -= 1
                    if d == 0 and i < len(arg) - 1:
                        whole = False
                        break
            if whole:
                arg = arg[1:-1]
        return arg

    def subst(self, body, args):
        out, i = [], 0
        while i < len(body):
            t = body[i]
            if t == ('ch', '#') and i + 1 < len(body):
                nx = body[i + 1]
                if nx == ('ch', '#'):
                    out.append(('ch', '#'))
                else:
                    out += args[int(nx[1])]
                i += 2
            else:
                out.append(t)
                i += 1
        return out

    def expand_macro(self, m, todo):
        pattern, body = m
        args = {}
        i = 0
        # literal tokens before the first parameter must match
        while i < len(pattern):
            t = pattern[i]
            if t == ('ch', '#'):
                n = int(pattern[i + 1][1])
                j = i + 2
                delim = []
                while j < len(pattern) and pattern[j] != ('ch', '#'):
                    delim.append(pattern[j])
                    j += 1
                if delim:
                    args[n] = self.read_delimited(todo, delim)
                else:
                    args[n] = self.read_undelimited(todo)
                i = j
            else:
                got = todo.pop()
                if got != t:
                    raise ValueError('use does not match definition')
                i += 1
        return self.subst(body, args)

    def expand_once(self, todo):
        """expand the first token of todo if it is expandable (macro, \\csname, \\expandafter); returns True if something was done"""
        if not todo:
            return False
        t = todo[-1]
        if t[0] != 'cs':
            return False
        if t[1] == 'csname':
            todo.pop()
            name = ''
            while True:
                self.run_expansions(todo)
                u = todo.pop()
                if u == ('cs', 'endcsname'):
                    break
                name += u[1]
            todo.append(('cs', name))
            return True
        if t[1] == 'expandafter':
            todo.pop()
            first = todo.pop()
            self.expand_once(todo)
            todo.append(first)
            return True
        m = self.lookup(t[1])
        if m is not None and m[0] != 'prim':
            todo.pop()
            res = self.expand_macro(m, todo)
            todo.extend(reversed(res))
            return True
        return False

    def run_expansions(self, todo):
        while self.expand_once(todo):
            self.steps += 1
            if self.steps > 5000:
                raise ValueError('too many steps')

    def read_cs_name(self, todo):
        self.skip_spaces(todo)
        t = todo.pop()
        if t == ('ch', '{'):
            g = self.read_group(todo)
            return g[0][1]
        if t[0] == 'cs' and t[1] in ('csname', 'expandafter'):
            todo.append(t)
            self.expand_once(todo)
            return self.read_cs_name(todo)
        return t[1]

    def run(self, src):
        todo = list(reversed(lex(src)))
        while todo:
            self.steps += 1
            if self.steps > 20000:
                raise ValueError('too many steps')
            if self.expand_once(todo):
                continue
            t = todo.pop()
            if t == ('ch', '{'):
                self.scopes.append({})
            elif t == ('ch', '}'):
                self.scopes.pop()
            elif t[0] == 'ch':
                self.out.append(t[1])
            elif t[1] in ('def', 'gdef'):
                # \expandafter\def\csname..\endcsname is handled by the expansion above
                name = self.read_cs_name(todo)
                pattern = []
                while todo[-1] != ('ch', '{'):
                    pattern.append(todo.pop())
                todo.pop()
                body = self.read_group(todo)
                self.define(name, (pattern, body), glob=(t[1] == 'gdef'))
            elif t[1] in ('newcommand', 'renewcommand'):
                name = self.read_cs_name(todo)
                nargs, opt = 0, None
                self.skip_spaces(todo)
                if todo[-1] == ('ch', '['):
                    todo.pop()
                    nargs = int(todo.pop()[1])
                    todo.pop()
                    if todo[-1] == ('ch', '['):
                        todo.pop()
                        opt = []
                        while todo[-1] != ('ch', ']'):
                            opt.append(todo.pop())
                        todo.pop()
                todo.pop()
                body = self.read_group(todo)
                self.define(name, ('newcommand', nargs, opt, body), glob=True)
            elif t[1] == 'let':
                a = self.read_cs_name(todo)
                self.skip_spaces(todo)
                if todo[-1] == ('ch', '='):
                    todo.pop()
                    self.skip_spaces(todo)
                b = todo.pop()
                self.define(a, self.lookup(b[1]) if b[0] == 'cs' else ('char', b[1]))
            elif t[1] == 'relax':
                pass
            else:
                m = self.lookup(t[1])
                if m is None:
                    raise ValueError('undefined \\%s' % t[1])
                raise ValueError('unexpected %r' % (t,))
        return ''.join(self.out)

    # \newcommand macros and \let-to-character are expanded through expand_macro as well
    def lookup_expandable(self, name):
        return self.lookup(name)


def _patch_newcommand():
    orig = Evaluator.expand_macro

    def expand_macro(self, m, todo):
        if m[0] == 'newcommand':
            _, nargs, opt, body = m
            args, first = {}, 1
            if opt is not None:
                if todo and todo[-1] == ('ch', '['):
                    todo.pop()
                    a, depth = [], 0
                    while True:
                        u = todo.pop()
                        if u == ('ch', '{'):
                            depth += 1
                        elif u == ('ch', '}'):
                            depth -= 1
                        elif u == ('ch', ']') and depth == 0:
                            break
                        a.append(u)
                    args[1] = a
                else:
                    args[1] = list(opt)
                first = 2
            for n in range(first, nargs + 1):
                args[n] = self.read_undelimited(todo)
            return self.subst(body, args)
        if m[0] == 'char':
            return [('ch', m[1])]
        return orig(self, m, todo)
    Evaluator.expand_macro = expand_macro


_patch_newcommand()


def evaluate(src):
    return Evaluator().run(src)


# ----------------------------------------------------------------------------------------------- the real engine
def run_real(src):
    from plasTeX.TeX import TeX
    from util import time_limit
    t = TeX()
    t.input('\\documentclass{article}\\begin{document}%s\\end{document}' % src)
    with time_limit(10):
        d = t.parse()
    return d.textContent


def norm(s):
    return ''.join(s.split())


# ----------------------------------------------------------------------------------------------- program generator
NAMES = ['ma', 'mb', 'mc', 'md', 'me']
WORDS = ['x', 'y', 'z', 'pq', 'r1', '7', 'u.v']


def gen_program(rng):
    """definitions (0-3 parameters, undelimited / single-token delimiters, optional-argument \\newcommand), then uses; a macro may call
    macros defined before it (no recursion)."""
    defined = []          # (name, kind, nparams, delims)
    parts = []
    for idx in range(rng.randrange(1, 5)):
        name = NAMES[idx]
        kind = rng.choice(['def', 'def', 'gdef', 'newcommand', 'newcommand-opt', 'csdef'])
        n = rng.randrange(0, 4)
        body = ''
        pieces = ['<%s' % name[1]]
        for k in range(1, n + 1):
            pieces.append(rng.choice(['#%d', '[#%d]', '#%d#%d' % (k, k), '{#%d}']).replace('%d', str(k)) if True else '')
        if rng.random() < 0.3:
            pieces.append('##')
        if defined and rng.random() < 0.6:
            pieces.append(gen_call(rng, rng.choice(defined), inner=True))
        rng.shuffle(pieces)
        body = ''.join(pieces) + '>'
        if kind in ('def', 'gdef', 'csdef'):
            delims = []
            pat = ''
            for k in range(1, n + 1):
                d = rng.choice(['', '', '.', ';', ':'])
                if k < n and d == '':
                    d = ''
                pat += '#%d%s' % (k, d)
                delims.append(d)
            if kind == 'csdef':
                parts.append('\\expandafter\\def\\csname %s\\endcsname%s{%s}' % (name, pat, body))
            else:
                parts.append('\\%s\\%s%s{%s}' % (kind, name, pat, body))
            defined.append((name, 'def', n, delims))
        elif kind == 'newcommand':
            parts.append('\\newcommand{\\%s}%s{%s}' % (name, '[%d]' % n if n else '', body))
            defined.append((name, 'newcommand', n, None))
        else:
            n = max(n, 1)
            body = ''.join('[#%d]' % k for k in range(1, n + 1)) + '>'
            parts.append('\\newcommand{\\%s}[%d][%s]{<%s%s}' % (name, n, rng.choice(['dflt', 'o', '']), name[1], body))
            defined.append((name, 'newcommand-opt', n, None))
        if rng.random() < 0.25:
            alias = 'al' + name[1]
            parts.append('\\let\\%s=\\%s ' % (alias, name))
            defined.append((alias,) + defined[-1][1:])
    # redefinitions: \renewcommand over anything, \def over anything (the new meaning is the one in force afterwards)
    if rng.random() < 0.4:
        old = rng.choice(defined)
        name = old[0]
        if rng.random() < 0.5:
            parts.append('\\renewcommand{\\%s}[1]{<R%s[#1]>}' % (name, name[-1]))
            new = (name, 'newcommand', 1, None)
        else:
            parts.append('\\def\\%s#1{<D%s[#1]>}' % (name, name[-1]))
            new = (name, 'def', 1, [''])
        # aliases made by \let keep the old meaning: only the redefined name changes
        defined = [new if d[0] == name else d for d in defined]
    uses = []
    for _ in range(rng.randrange(1, 5)):
        m = rng.choice(defined)
        u = gen_call(rng, m)
        r = rng.random()
        if r < 0.2:
            u = '{' + u + '}'
        elif r < 0.3:
            u = '\\csname %s\\endcsname%s' % (m[0], u[len(m[0]) + 1:].lstrip(' '))
        uses.append('(' + u + ')')
    if rng.random() < 0.3:
        # \expandafter over a parameterless macro whose expansion may be empty: the argument then comes from what follows
        parts.append('\\def\\ez{%s}\\def\\fz#1{[#1]}' % rng.choice(['', '', 'k', 'kl', '{kl}m']))
        uses.append('(\\expandafter\\fz\\ez %s)' % rng.choice(['xy', 'x', '{xy}z']))
    return ''.join(parts) + ''.join(uses)


def gen_arg(rng, inner=False):
    w = rng.choice(WORDS)
    return w


def gen_call(rng, m, inner=False):
    name, kind, n, delims = m
    s = '\\' + name
    if kind == 'def':
        first = True
        for k in range(n):
            a = gen_arg(rng)
            d = delims[k]
            if d:
                s += (' ' if first and a[0] in LETTERS else '') + a + d
            else:
                s += '{%s}' % a if (len(a) > 1 or rng.random() < 0.5) else (' ' if first else '') + a
            first = False
        if n == 0:
            s += ' ' if not inner else '{}'
    elif kind == 'newcommand':
        for k in range(n):
            s += '{%s}' % gen_arg(rng)
        if n == 0:
            s += '{}'
    else:
        if rng.random() < 0.5:
            s += '[%s]' % gen_arg(rng)
        for k in range(n - 1):
            s += '{%s}' % gen_arg(rng)
        if n - 1 == 0:
            s += '{}'
    return s


def check_program(w):
    src = w['src']
    try:
        exp = evaluate(src)
    except Exception as e:
        return True, 'generator produced a program outside the evaluator (%s)' % e     # not counted
    try:
        got = run_real(src)
    except Exception as e:
        return False, 'the engine raised %s: %s for %s' % (type(e).__name__, e, src)
    if norm(got) != norm(exp):
        return False, 'visible text %r, the substitution rules give %r for %s' % (norm(got), norm(exp), src)
    return True, ''


def bounded_programs(budget, rng):
    t0, n, skipped = time.time(), 0, 0
    seen, samples = set(), []
    while time.time() - t0 < budget or n < 60:
        src = gen_program(rng)
        n += 1
        try:
            evaluate(src)
        except Exception:
            skipped += 1
            continue
        if src not in seen:
            seen.add(src)
            if len(samples) < 3:
                samples.append(src)
        ok, d = check_program(dict(src=src))
        if not ok:
            return False, n, d, dict(text=src, src=src)
    if len(seen) < 20:
        return False, n, 'only %d programs were inside the evaluator (%d skipped): the check is vacuous' % (len(seen), skipped), dict(text='generator')
    return True, n, '', None, dict(distinct=len(seen), samples=samples, rule='random programs (see bound); distinct = source text not seen before; %d skipped' % skipped)


FIXED = [
    (r'\def\a#1{[#1]}\a xy', '[x]y'), (r'\def\a#1#2{[#2#1]}\a x{yz}w', '[yzx]w'), (r'\def\a#1.{[#1]}\a xy.z', '[xy]z'),
    (r'\def\a#1.#2;{[#2|#1]}\a xy.zw;u', '[zw|xy]u'), (r'\def\a[#1]{(#1)}\a[q]r', '(q)r'), (r'\def\a#1{x##1#1}\a b', 'x#1b'),
    (r'\newcommand{\q}[2][d]{<#1,#2>}\q{x}\q[o]{y}', '<d,x><o,y>'), (r'\def\a{1}\let\c=\a\def\a{2}\c\a', '12'),
    (r'\def\e{}\def\f#1{(#1)}\expandafter\f\e xy', '(x)y'), (r'\def\a{1}{\def\a{2}\a}\a', '21'), (r'\expandafter\def\csname a b\endcsname{7}\csname a b\endcsname', '7'),
    (r'\def\a#1{(#1)}\def\c{\a}\expandafter\a\c x', '(\\a )x') if False else (r'\def\x{y}\def\a#1{(#1)}\expandafter\a\x z', '(y)z'),
    (r'\def\a#1{#1#1}\a{\a{p}}', 'pppp'),
]


def bounded_fixed(budget, rng):
    n = 0
    for src, exp in FIXED:
        n += 1
        try:
            got = norm(run_real(src))
        except Exception as e:
            return False, n, '%s raised %s' % (src, type(e).__name__), dict(text=src)
        if got != norm(exp):
            return False, n, '%s gives %r, TeX gives %r' % (src, got, exp), dict(text=src)
        try:
            ev = norm(evaluate(src))
        except Exception as e:
            ev = 'EVALUATOR: %s' % e
        if ev != norm(exp):
            return False, n, 'the independent evaluator disagrees with the hand-computed value for %s: %r vs %r' % (src, ev, exp), dict(text=src, evaluator=True)
    return True, n, ''


def bounded_multitoken(budget, rng):
    """a delimiter of several tokens must match as a whole"""
    n = 0
    for src, exp in ((r'\def\a#1ab{[#1]}\a xacab!', '[xac]!'), (r'\def\a#1ab{[#1]}\a xab!', '[x]!')):
        n += 1
        got = norm(run_real(src))
        if got != exp:
            return False, n, '%s gives %r, TeX gives %r' % (src, got, exp), dict(text=src, kind='multitoken-delimiter')
    return True, n, ''


def bounded_hashbrace(budget, rng):
    """#{ : the last parameter is delimited by the opening brace, which stays in the input"""
    src, exp = r'\def\a#1#{[#1]}\a xy{z}', '[xy]z'
    got = norm(run_real(src))
    if got != exp:
        return False, 1, '%s gives %r, TeX gives %r' % (src, got, exp), dict(text=src, kind='hash-brace')
    return True, 1, ''


def check_expanddef(w):
    """the real expandDef on token lists against the substitution rule written out directly"""
    from plasTeX import expandDef
    from plasTeX.Tokenizer import Other, Letter, Parameter
    def tok(c):
        return Parameter(c) if c == '#' else (Letter(c) if c.isalpha() else Other(c))
    body = [tok(c) for c in w['body']]
    params = [None] + [None if a is None else [tok(c) for c in a] for a in w['args']]
    try:
        got = ''.join(str(t) for t in expandDef(body, params))
    except ValueError:
        return True, ''
    exp, i, b = '', 0, w['body']
    while i < len(b):
        if b[i] == '#' and i + 1 < len(b):
            if b[i + 1] == '#':
                exp += '#'
            elif b[i + 1].isdigit():
                n = int(b[i + 1])
                if n < len(params) and params[n] is not None:
                    exp += w['args'][n - 1]
            else:
                return True, ''
            i += 2
        elif b[i] == '#':
            i += 1
        else:
            exp += b[i]
            i += 1
    return got == exp, 'expandDef(%r, %r) = %r, the substitution rule gives %r' % (w['body'], w['args'], got, exp)


def gen_expanddef(rng):
    body = ''.join(rng.choice(['a', 'b', 'x', '#1', '#2', '#3', '##', '.', '1']) for _ in range(rng.randrange(0, 8)))
    if rng.random() < 0.1:
        body += '#'
    args = [rng.choice([None, '', 'p', 'qr', 's#t']) if rng.random() < 0.9 else None for _ in range(rng.randrange(0, 4))]
    return dict(body=body, args=args)


CONTRACTS = {'expandDef': dict(check=check_expanddef, gen=gen_expanddef)}
BOUNDED = [('bounded/programs', 'visible text of generated macro programs equals an independent evaluation under TeX\'s substitution rules',
            'random programs: 1-4 definitions (def / gdef / newcommand with and without optional argument / csname-built names, 0-3 parameters, '
            'undelimited and single-token delimiters, ##, calls of earlier macros in bodies), let aliases, 1-4 uses (plain, grouped, via csname)', bounded_programs),
           ('bounded/fixed', 'hand-computed expansions (also validate the evaluator)', '%d programs' % len(FIXED), bounded_fixed),
           ('bounded/multitoken-delimiter', 'a delimiter of several tokens matches as a whole', '2 programs', bounded_multitoken),
           ('bounded/hash-brace', '#{ parameter', '1 program', bounded_hashbrace)]
CLASSES = {'multitoken-delimiter': lambda w: isinstance(w, dict) and w.get('kind') == 'multitoken-delimiter',
           'hash-brace': lambda w: isinstance(w, dict) and w.get('kind') == 'hash-brace'}
