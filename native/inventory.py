"""Syntactic inventory of stores to interpreter-wide locations (class attributes, module globals) in plasTeX's sources.
Used by C17: every such location must be reviewed (balanced / reset / idempotent cache / recorded finding)."""
import ast
import glob
import os

MUT = ('append', 'extend', 'insert', 'pop', 'update', 'clear', 'setdefault', 'remove', 'add', 'sort', 'reverse')


def scan(repo):
    out = []
    for f in sorted(glob.glob(os.path.join(repo, 'plasTeX/**/*.py'), recursive=True)):
        rel = os.path.relpath(f, repo)
        try:
            tree = ast.parse(open(f, encoding='utf-8').read())
        except Exception:
            continue
        classes = set(n.name for n in ast.walk(tree) if isinstance(n, ast.ClassDef))
        imported = set()
        for n in ast.walk(tree):
            if isinstance(n, (ast.Import, ast.ImportFrom)):
                for a in n.names:
                    imported.add((a.asname or a.name).split('.')[0])

        cls_alias = set()

        def is_class_expr(v):
            src = ast.unparse(v)
            if isinstance(v, ast.Name) and v.id in cls_alias:
                return True
            if isinstance(v, ast.Name) and (v.id in classes or v.id == 'cls' or (v.id in imported and v.id[:1].isupper())):
                return True
            if src.startswith('type(') or (isinstance(v, ast.Attribute) and v.attr == '__class__'):
                return True
            # context lookups return classes: document.context['name'].attr = ...
            if isinstance(v, ast.Subscript) and ast.unparse(v.value).endswith('context'):
                return True
            return False

        def visit(node, qual, infunc, globs, aliases):
            for ch in ast.iter_child_nodes(node):
                if isinstance(ch, (ast.FunctionDef, ast.AsyncFunctionDef)):
                    g = set()
                    cls_alias.clear()
                    for x in ast.walk(ch):
                        if isinstance(x, ast.Global):
                            g |= set(x.names)
                        # local alias of the class:  tself = type(self)
                        if isinstance(x, ast.Assign) and len(x.targets) == 1 and isinstance(x.targets[0], ast.Name) and \
                                ((isinstance(x.value, ast.Call) and isinstance(x.value.func, ast.Name) and x.value.func.id == 'type'
                                  and len(x.value.args) == 1) or (isinstance(x.value, ast.Attribute) and x.value.attr == '__class__')):
                            cls_alias.add(x.targets[0].id)
                    visit(ch, qual + [ch.name], True, g, {})
                elif isinstance(ch, ast.ClassDef):
                    visit(ch, qual + [ch.name], infunc, globs, aliases)
                else:
                    if infunc:
                        targets = []
                        if isinstance(ch, ast.Assign):
                            targets = ch.targets
                            # alias of a class-level container:  x = type(self).attr
                            if len(ch.targets) == 1 and isinstance(ch.targets[0], ast.Name) and isinstance(ch.value, ast.Attribute) \
                                    and is_class_expr(ch.value.value):
                                aliases[ch.targets[0].id] = ast.unparse(ch.value)
                        elif isinstance(ch, (ast.AugAssign, ast.AnnAssign)):
                            targets = [ch.target]
                        elif isinstance(ch, ast.Delete):
                            targets = ch.targets
                        flat = []
                        for t in targets:
                            flat += list(t.elts) if isinstance(t, (ast.Tuple, ast.List)) else [t]
                        for t in flat:
                            if isinstance(t, ast.Attribute) and is_class_expr(t.value):
                                out.append((rel, '.'.join(qual), ast.unparse(t)))
                            elif isinstance(t, ast.Name) and t.id in globs:
                                out.append((rel, '.'.join(qual), 'global ' + t.id))
                            elif isinstance(t, ast.Subscript):
                                v = t.value
                                if isinstance(v, ast.Attribute) and is_class_expr(v.value):
                                    out.append((rel, '.'.join(qual), ast.unparse(v) + '[...]'))
                                if isinstance(v, ast.Name) and v.id in aliases:
                                    out.append((rel, '.'.join(qual), aliases[v.id] + '[...]'))
                        for x in ast.walk(ch):
                            if isinstance(x, ast.Call) and isinstance(x.func, ast.Attribute) and x.func.attr in MUT:
                                r = x.func.value
                                if isinstance(r, ast.Attribute) and is_class_expr(r.value):
                                    out.append((rel, '.'.join(qual), ast.unparse(r) + '.' + x.func.attr + '()'))
                                if isinstance(r, ast.Name) and r.id in aliases:
                                    out.append((rel, '.'.join(qual), aliases[r.id] + '.' + x.func.attr + '()'))
                            if isinstance(x, ast.Call) and isinstance(x.func, ast.Name) and x.func.id in ('setattr', 'delattr') and x.args \
                                    and is_class_expr(x.args[0]):
                                out.append((rel, '.'.join(qual), '%s(%s, ...)' % (x.func.id, ast.unparse(x.args[0]))))
                    visit(ch, qual, infunc, globs, aliases)
        visit(tree, [], False, set(), {})
    seen = []
    for o in out:
        if o not in seen:
            seen.append(o)
    return seen


if __name__ == '__main__':
    import sys
    for o in scan(sys.argv[1]):
        print('%s :: %s :: %s' % o)
