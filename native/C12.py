"""C12 native side: the escaping hook and the high-character escaper on the real PageTemplate renderer."""
import html
import os
import sys
sys.path.insert(0, os.path.dirname(os.path.abspath(__file__)))
from util import z3str
from plasTeX.Renderers.PageTemplate import Renderer as PT
from plasTeX.DOM import Text

ESC = {'&': '&amp;', '<': '&lt;', '>': '&gt;'}
ALPHA = ['&', '<', '>', 'a', ';', '#', 'l', 't', 'g', 'm', 'p', '"', "'", ' ', '\n', '\u00e9', '\u4e2d', '\U0001f600', '\x00', '\x7f', '\x80']


def hom(t):
    return ''.join(ESC.get(c, c) for c in t)


def check_text(w):
    t = w['t']
    r = PT.__new__(PT)
    node = Text(t)
    got = PT.textDefault(r, node)
    exp = hom(t)
    ok = got == exp and type(got) is str and '<' not in got and '>' not in got and html.unescape(got) == html.unescape(exp)
    if ok and w.get('markup'):
        node2 = Text(t)
        node2.isMarkup = True
        ok = PT.textDefault(r, node2) == t
    return ok, 'textDefault(%r) = %r, expected %r' % (t, got, exp)


def check_hom(w):
    """AX-str-4: one-character replace is a homomorphism (differential test of the assumed library axiom)."""
    a, b, c, d = w['a'], w['b'], w['c'], w['d']
    return (a + b).replace(c, d) == a.replace(c, d) + b.replace(c, d), 'replace not homomorphic on %r' % (w,)


class _Doc:
    def __init__(self, on):
        self.config = {'files': {'escape-high-chars': on}}


def check_pfc(w):
    t, on = w['t'], w.get('on', True)
    r = PT.__new__(PT)
    r.imager = None
    got = PT.processFileContent(r, _Doc(on), t)
    exp = ''.join(c if (ord(c) <= 127 or not on) else '&#%.3d;' % ord(c) for c in t)
    import re
    dec = re.sub(r'&#(\d+);', lambda m: chr(int(m.group(1))), got) if on else got     # numeric decoding (XML rule)
    ok = got == exp and (not on or all(ord(c) < 128 for c in got)) and (dec == t or '&#' in t)
    return ok, 'processFileContent(%r) = %r, expected %r' % (t, got, exp)


def gen_text(rng):
    return {'t': ''.join(rng.choice(ALPHA) for _ in range(rng.randrange(0, 12))), 'markup': rng.random() < 0.2}


def small_text():
    for c in ALPHA:
        yield {'t': c}
    yield {'t': ''}
    for a in ALPHA[:9]:
        for b in ALPHA[:9]:
            yield {'t': a + b}


def from_model(model):
    v = (model or {}).get('p_node')
    return {'t': z3str(v)} if v is not None else None


def gen_pfc(rng):
    # avoid the image-placeholder syntax handled by setImageData (outside this contract)
    t = ''.join(rng.choice(ALPHA[3:]) for _ in range(rng.randrange(0, 12)))
    return {'t': t, 'on': rng.random() < 0.8}


CONTRACTS = {
    'textDefault': dict(check=check_text, gen=gen_text, small=small_text, from_model=from_model),
    'textDefault/empty': dict(check=check_text, small=lambda: iter([{'t': ''}])),
    'AX-str-4': dict(check=check_hom, gen=lambda rng: dict(a=gen_text(rng)['t'], b=gen_text(rng)['t'], c=rng.choice(ALPHA), d=gen_text(rng)['t'])),
    'processFileContent/escape-loop': dict(check=check_pfc, gen=gen_pfc,
                                           small=lambda: ({'t': chr(c)} for c in list(range(120, 135)) + [0x4e2d, 0x1f600])),
}


def ground_output_type():
    return PT.outputType is str, 1, 'PageTemplate.outputType is %r' % (PT.outputType,)


GROUND = [('ground/outputType', 'PageTemplate.outputType is the builtin str (identity on strings)', ground_output_type)]
BOUNDED = []
CLASSES = {}


# ---------------------------------------------------------------- bounded: whole documents through the real HTML5 renderer
import render_util as R

LEAVES = ['<b>bold</b>', '\\&amp;', '\\&lt;i\\&gt;', 'a<b', 'x>y', '</p><script>alert(1)</script>', '\\&\\#60;', 'café', '<a href=x>k</a>',
          'q" onmouseover="zz', '</title><script>alert(2)</script>']


def tex_to_text(leaf):
    return leaf.replace('\\&', '&').replace('\\#', '#')


def bounded_render(budget, rng):
    import time
    t0, n = time.time(), 0
    while time.time() - t0 < min(budget, 60) * 0.7 or n < 3:
        n += 1
        leaves = rng.sample(LEAVES, 3)
        src, words, labs, refs = R.gen_doc(rng, leaves=leaves, depth=1, leaf_titles=True)
        esc = rng.random() < 0.5
        pages, raw = R.render(src, split_level=rng.choice([-10, 1, 2]), escape_high=esc)
        alltext = ''.join(''.join(p.text) for p in pages.values())
        plain = src
        for leaf in leaves:
            plain = plain.replace(leaf, 'plain')
        pages0, _ = R.render(plain, split_level=-10 if len(pages) == 1 else 2, escape_high=esc)
        tags0 = sorted(t for p in pages0.values() for t in p.tags)
        for leaf in leaves:
            want = tex_to_text(leaf)
            if src.count(leaf) and want not in alltext:
                return False, n, 'leaf %r does not appear as text in the output (escape-high-chars=%r)' % (want, esc), dict(src=src)
        tags1 = sorted(t for p in pages.values() for t in p.tags)
        if len(pages0) == len(pages) and tags1 != tags0:
            extra = [t for t in set(tags1) if tags1.count(t) != tags0.count(t)]
            return False, n, 'document text became markup: element inventory differs from the same document with plain words: %r' % extra, dict(src=src)
        attrs1 = sorted(a for p in pages.values() for a in p.attrs)
        attrs0 = sorted(a for p in pages0.values() for a in p.attrs)
        if len(pages0) == len(pages) and attrs1 != attrs0:
            extra = sorted(set(a for a in attrs1 if attrs1.count(a) != attrs0.count(a)))
            return False, n, 'document text became markup: attribute inventory differs from the same document with plain words: %r' % extra[:6], dict(src=src)
        if esc and any(ord(c) > 127 for data in raw.values() for c in data):
            return False, n, 'escape-high-chars output is not pure ASCII', dict(src=src)
    return True, n, ''


BOUNDED.append(('bounded/render-escaping', 'adversarial text leaves (tag-like, entity-like, non-ASCII) rendered by the real HTML5 renderer appear as text, introduce no element, and escape-high-chars output is ASCII with the same decoded text',
                'random sectioned documents (depth 1-2, lists, footnotes) x 3 of 10 adversarial leaves x split level {-10,1,2} x escape-high-chars on/off; budget-limited', bounded_render))
