"""C03 native side: nested conditionals through the real parser against TeX's selection rule."""
import itertools
import os
import sys
import time
sys.path.insert(0, os.path.dirname(os.path.abspath(__file__)))
from plasTeX.TeX import TeX

_n = [0]


def word():
    _n[0] += 1
    return 'w%dq' % _n[0]


def gen(rng, depth):
    """Returns (source, expected visible text)."""
    if depth <= 0 or rng.random() < 0.3:
        w = word()
        return w + ' ', w
    kind = rng.choice(['true', 'false', 'num', 'odd', 'case', 'case', 'seq', 'dim', 'x', 'defined', 'switch', 'macronum', 'wrap', 'effect'])
    if kind == 'wrap':
        # the conditional inside a group, a macro body or a macro argument
        inner = gen(rng, depth - 1)
        how = rng.choice(['group', 'body', 'arg'])
        if how == 'group':
            return '{' + inner[0] + '}', inner[1]
        if how == 'arg':
            return '\\textbf{' + inner[0] + '}', inner[1]
        _n[0] += 1
        nm = '\\bodym' + ''.join(chr(97 + int(c)) for c in str(_n[0]))
        return '\\def%s{%s}%s ' % (nm, inner[0], nm), inner[1]
    if kind == 'effect':
        # a definition in each branch: only the processed branch may take effect
        val = rng.random() < 0.5
        wa, wb, w0 = word(), word(), word()
        src = '\\gdef\\mk{%s}%s \\gdef\\mk{%s}\\else \\gdef\\mk{%s}\\fi \\mk ' % (w0, '\\iftrue' if val else '\\iffalse', wa, wb)
        return src, (wa if val else wb)
    if kind == 'seq':
        a, b = gen(rng, depth - 1), gen(rng, depth - 1)
        return a[0] + b[0], a[1] + b[1]
    if kind == 'case':
        nb = rng.randrange(1, 4)
        branches = [gen(rng, depth - 1) for _ in range(nb)]
        has_else = rng.random() < 0.5
        els = gen(rng, depth - 1) if has_else else ('', '')
        sel = rng.randrange(-2, nb + 2)
        src = '\\ifcase %d\\relax ' % sel + '\\or '.join(b[0] for b in branches) + ('\\else ' + els[0] if has_else else '') + '\\fi '
        exp = branches[sel][1] if 0 <= sel < nb else els[1]
        return src, exp
    then, els = gen(rng, depth - 1), gen(rng, depth - 1)
    has_else = rng.random() < 0.6
    if kind in ('dim', 'x', 'defined', 'switch', 'macronum'):
        if kind == 'dim':
            a, b, rel = rng.choice(DIMS), rng.choice(DIMS), rng.choice('<>=')
            test, val = '\\ifdim %s%s%s\\relax ' % (a[0], rel, b[0]), {'<': a[1] < b[1], '>': a[1] > b[1], '=': a[1] == b[1]}[rel]
        elif kind == 'x':
            a, b = rng.choice(XTOKS), rng.choice(XTOKS)
            while {a[1], b[1]} == {'M:x', 'C:x'}:          # a macro against the character it expands to: recorded finding (bounded/ifx-meaning)
                b = rng.choice(XTOKS)
            test, val = '\\ifx%s%s ' % (a[0], b[0]), a[1] == b[1]
        elif kind == 'defined':
            a = rng.choice([('\\xa', True), ('\\xc', True), ('\\nosuchmacro', False), ('\\relax', True)])
            test, val = '\\ifdefined%s ' % a[0], a[1]
        elif kind == 'switch':
            val = rng.random() < 0.5
            sw = rng.choice(['sw', 'foo', 'inside'])
            test = ('\\%strue ' % sw if val else '\\%sfalse ' % sw) + '\\if%s ' % sw
        else:
            a, b, rel = rng.choice([('\\nthree', 3), ('\\nseven', 7)]), rng.randrange(0, 9), rng.choice('<>=')
            test, val = '\\ifnum%s%s%d\\relax ' % (a[0], rel, b), {'<': a[1] < b, '>': a[1] > b, '=': a[1] == b}[rel]
        src = test + then[0] + ('\\else ' + els[0] if has_else else '') + '\\fi '
        return src, (then[1] if val else (els[1] if has_else else ''))
    if kind == 'true':
        test, val = '\\iftrue ', True
    elif kind == 'false':
        test, val = '\\iffalse ', False
    elif kind == 'odd':
        n = rng.randrange(-5, 9)
        test, val = '\\ifodd %d\\relax ' % n, n % 2 == 1
    else:
        a, b, rel = rng.randrange(-3, 6), rng.randrange(-3, 6), rng.choice('<>=')
        test, val = '\\ifnum %d%s%d\\relax ' % (a, rel, b), {'<': a < b, '>': a > b, '=': a == b}[rel]
    src = test + then[0] + ('\\else ' + els[0] if has_else else '') + '\\fi '
    return src, (then[1] if val else (els[1] if has_else else ''))


from fractions import Fraction as _F
# exact values in points; the same length in two units must compare equal (TeX compares integers of scaled points)
DIMS = [('1pt', _F(1)), ('2pt', _F(2)), ('1in', _F(7227, 100)), ('-1pt', _F(-1)), ('10pt', _F(10)), ('1.5pt', _F(3, 2)), ('0pt', _F(0)),
        ('1cm', _F(7227, 254)), ('10mm', _F(7227, 254)), ('72.27pt', _F(7227, 100)), ('1pc', _F(12)), ('12pt', _F(12)), ('2.54cm', _F(7227, 100))]
# \\ifx compares meanings: macros with the same parameter text and body are equal, so is a macro and its \\let alias; characters by code and category
XTOKS = [('\\xa', 'M:x'), ('\\xb', 'M:x'), ('\\xc', 'M:y'), ('\\xd', 'M:x'), (' a', 'C:a'), (' b', 'C:b'), ('\\relax', 'P:relax'), (' x', 'C:x')]
PREAMBLE = ('\\def\\xa{x}\\def\\xb{x}\\def\\xc{y}\\let\\xd\\xa \\newif\\ifsw \\newif\\iffoo \\newif\\ifinside \\def\\nthree{3}\\def\\nseven{7}')


def run(src):
    t = TeX()
    t.input('\\documentclass{article}\\begin{document}' + PREAMBLE + src + '\\end{document}')
    return ''.join(t.parse().textContent.split())


def check_prog(w):
    try:
        got = run(w['src'])
    except Exception as e:
        return False, 'processing %r raised %s: %s' % (w['src'], type(e).__name__, e)
    return got == w['exp'], 'program %r shows %r, TeX selects %r' % (w['src'], got, w['exp'])


def gen_prog(rng):
    src, exp = gen(rng, 4)
    return dict(src=src, exp=exp)


def small_prog():
    for sel in range(-2, 6):
        for nb in range(1, 4):
            for has_else in (False, True):
                branches = ['b%dq' % i for i in range(nb)]
                src = '\\ifcase %d\\relax ' % sel + '\\or '.join(branches) + ('\\else eq' if has_else else '') + '\\fi '
                exp = branches[sel] if 0 <= sel < nb else ('eq' if has_else else '')
                yield dict(src=src, exp=exp)
                # the same nested inside a skipped and inside a taken branch
                yield dict(src='\\iffalse ' + src + '\\else zq\\fi ', exp='zq')
                yield dict(src='\\iftrue ' + src + '\\else zq\\fi ', exp=exp)
                yield dict(src='\\ifcase 1 xq\\or ' + src + '\\or yq\\fi ', exp=exp)


def bounded_if(budget, rng):
    t0, n = time.time(), 0
    for w in small_prog():
        n += 1
        ok, d = check_prog(w)
        if not ok:
            return False, n, d, w
    while time.time() - t0 < budget * 0.8:
        n += 1
        w = gen_prog(rng)
        ok, d = check_prog(w)
        if not ok:
            return False, n, d, w
    return True, n, ''


CONTRACTS = {
    'TeX.processIfContent': dict(check=check_prog, gen=gen_prog, small=small_prog),
    'TeX.processIfContent/select': dict(check=check_prog, gen=gen_prog, small=small_prog),
    'ifnum.invoke': dict(check=check_prog, gen=gen_prog),
    'ifodd.invoke': dict(check=check_prog, small=lambda: (dict(src='\\ifodd %d\\relax aq\\else bq\\fi ' % n, exp='aq' if n % 2 == 1 else 'bq') for n in range(-5, 6))),
}
GROUND = []
def bounded_ifx_meaning(budget, rng):
    """\\ifx compares meanings, not expansions: a macro is never equal to the character its body consists of, nor to a macro with a different
    parameter text."""
    n = 0
    for src, exp in (('\\ifx\\xa x Aq\\else Bq\\fi ', 'Bq'), ('\\def\\pa#1{x}\\ifx\\pa\\xa Aq\\else Bq\\fi ', 'Bq')):
        n += 1
        ok, d = check_prog(dict(src=src, exp=exp))
        if not ok:
            return False, n, d, dict(src=src, exp=exp, kind='ifx-expansion')
    return True, n, ''


BOUNDED = [('bounded/ifx-meaning', '\\ifx compares the meanings of its two tokens (TeX), not their expansions', '2 programs', bounded_ifx_meaning),
           ('bounded/ifcontent', "the visible text of nested conditionals equals TeX's selection (out-of-range \\ifcase selectors, nesting inside taken and skipped branches)",
            'all \\ifcase shapes with 1-3 branches x selectors -2..5 x else/no else x 4 embeddings (exhaustive); random nestings to depth 4 over iftrue / iffalse / ifnum / ifdim / ifodd / ifcase / ifx / ifdefined / newif switches, in groups, macro bodies and arguments, with side effects in the branches', bounded_if)]
CLASSES = {'ifx-expansion': lambda w: isinstance(w, dict) and w.get('kind') == 'ifx-expansion'}
