"""Native (CPython, real code) side of a property check.  Runs under /venv/bin/python with the repo under test first on
sys.path.  Prints one JSON object on the last line of stdout."""
import argparse
import importlib.util
import itertools
import json
import os
import random
import sys
import time
import traceback


def load(pid):
    here = os.path.dirname(os.path.abspath(__file__))
    spec = importlib.util.spec_from_file_location('native_' + pid, os.path.join(here, pid + '.py'))
    m = importlib.util.module_from_spec(spec)
    spec.loader.exec_module(m)
    return m


def safe_check(c, w):
    try:
        r = c['check'](w)
        if isinstance(r, tuple):
            return r
        return bool(r), ''
    except Exception as e:
        return False, 'contract evaluation raised %s: %s' % (type(e).__name__, ''.join(traceback.format_exception_only(type(e), e)).strip()[:300])


def search(c, rng, budget, limit=None):
    """small-scope enumeration then random inputs; returns (evaluations, first failing witness or None, detail)."""
    n = 0
    t0 = time.time()
    for w in itertools.islice(c.get('small', lambda: [])(), 200000):
        n += 1
        ok, d = safe_check(c, w)
        if not ok:
            return n, w, d
        if time.time() - t0 > budget:
            return n, None, ''
    gen = c.get('gen')
    while gen is not None and time.time() - t0 < budget and (limit is None or n < limit):
        w = gen(rng)
        n += 1
        ok, d = safe_check(c, w)
        if not ok:
            return n, w, d
    return n, None, ''


def main():
    ap = argparse.ArgumentParser()
    ap.add_argument('pid')
    ap.add_argument('what')
    ap.add_argument('--repo', default='/repo')
    ap.add_argument('--seed', type=int, default=0)
    ap.add_argument('--budget', type=float, default=20)
    ap.add_argument('--extra', default=None)
    a = ap.parse_args()
    sys.path.insert(0, a.repo)
    import logging
    logging.disable(logging.CRITICAL)
    m = load(a.pid)
    rng = random.Random(a.seed)
    extra = json.loads(a.extra) if a.extra else {}
    out = {}
    contracts = getattr(m, 'CONTRACTS', {})
    if a.what == 'all':
        out['ground'], out['bounded'], out['failures'] = [], [], []
        for gid, desc, fn in getattr(m, 'GROUND', []):
            try:
                ok, cases, detail = fn()
            except Exception as e:
                ok, cases, detail = False, 0, 'raised %s: %s' % (type(e).__name__, e)
            out['ground'].append(dict(id=gid, desc=desc, ok=bool(ok), cases=cases, detail=str(detail)[:500],
                                      witness=None if ok else str(detail)[:300]))
        for bid, desc, bound, fn in getattr(m, 'BOUNDED', []):
            wobj = None
            stats = None
            try:
                r = fn(a.budget, rng)
                ok, cases, detail = r[:3]
                if len(r) > 3:
                    wobj = r[3]
                if len(r) > 4:
                    stats = r[4]
            except Exception as e:
                ok, cases, detail = False, 0, 'raised %s: %s' % (type(e).__name__, traceback.format_exc()[-400:])
            out['bounded'].append(dict(id=bid, desc=desc, bound=bound, ok=bool(ok), cases=cases, detail=str(detail)[:500], stats=stats,
                                       witness=None if ok else (wobj if wobj is not None else str(detail)[:300])))
        evals = {}
        per = max(0.5, a.budget / max(1, len(contracts)))
        for name, c in contracts.items():
            n, w, d = search(c, rng, per)
            evals[name] = n
            if w is not None:
                out['failures'].append(dict(contract=name, witness=w, detail=d, bounded=bool(c.get('bounded'))))
        out['crosscheck'] = dict(evaluations=evals, note='executable contracts evaluated on the real functions under CPython')
    elif a.what == 'find':
        c = contracts.get(extra.get('contract'))
        out['witness'] = None
        if c is not None:
            w = None
            if extra.get('model') and c.get('from_model'):
                try:
                    w = c['from_model'](extra['model'])
                except Exception:
                    w = None
            if w is not None:
                ok, d = safe_check(c, w)
                if not ok:
                    out['witness'], out['detail'], out['source'] = w, d, 'solver counter-model replayed'
            if out['witness'] is None:
                n, w, d = search(c, rng, a.budget)
                if w is not None:
                    out['witness'], out['detail'], out['source'] = w, d, 'bounded native search (%d inputs)' % n
    elif a.what == 'witness':
        c = contracts.get(extra.get('contract'))
        if c is None:
            out['error'] = 'no native contract %s' % extra.get('contract')
        else:
            ok, d = safe_check(c, extra['witness'])
            out['fails'], out['detail'] = (not ok), d
    elif a.what == 'classify':
        pred = getattr(m, 'CLASSES', {}).get(extra.get('cls'))
        out['match'] = bool(pred and pred(extra.get('witness')))
    print(json.dumps(out, default=str))


if __name__ == '__main__':
    main()
