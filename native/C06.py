"""C06 native side: the real DOM against a plain list-of-lists model under random / exhaustive edit sequences."""
import itertools
import os
import sys
import time
sys.path.insert(0, os.path.dirname(os.path.abspath(__file__)))
from plasTeX.DOM import Document, Node, NotFoundErr


class Model:
    """children: dict id -> list of ids; parent: dict id -> id or None."""

    def __init__(self, n):
        self.ch = {i: [] for i in range(n)}
        self.par = {i: None for i in range(n)}


def setup(nnodes=5, nfrag=1):
    d = Document()
    nodes = [d.createElement('e%d' % i) for i in range(nnodes)]
    frags = [d.createDocumentFragment() for _ in range(nfrag)]
    return d, nodes + frags, nnodes


def eff_parent(m, pid, isfrag):
    return m.par[pid] if isfrag(pid) else pid


def apply(op, objs, m, nreal):
    """Apply op to the real DOM and to the model; returns None or an error string."""
    isfrag = lambda i: i >= nreal
    kind = op[0]
    tgt = op[1]
    T = objs[tgt]
    L = m.ch[tgt]

    def items(x):
        return list(m.ch[x]) if isfrag(x) else [x]

    def link(x, frag_too=True):
        for y in items(x):
            m.par[y] = eff_parent(m, tgt, isfrag)
        if isfrag(x) and frag_too:
            m.par[x] = eff_parent(m, tgt, isfrag)

    try:
        if kind == 'append':
            x = op[2]
            if x == tgt or (isfrag(x) and tgt in m.ch[x]):
                return None
            T.append(objs[x]); L.extend(items(x)); link(x)
        elif kind == 'insert':
            i, x = op[2], op[3]
            if x == tgt or (isfrag(x) and tgt in m.ch[x]):
                return None
            T.insert(i, objs[x])
            j = i + len(L) if i < 0 else i
            j = max(0, min(len(L), j))
            L[j:j] = items(x); link(x)
        elif kind == 'setitem':
            i, x = op[2], op[3]
            if x == tgt or isfrag(x) and tgt in m.ch[x]:
                return None
            try:
                T[i] = objs[x]
            except IndexError:
                if -len(L) <= i < len(L):
                    return 'IndexError for valid index %d on %r' % (i, L)
                return None
            if not (-len(L) <= i < len(L)):
                return 'no IndexError for index %d on %r' % (i, L)
            j = i + len(L) if i < 0 else i
            L[j:j + 1] = items(x); link(x, False)    # item assignment does not re-parent the fragment object itself
        elif kind == 'pop':
            i = op[2]
            try:
                r = T.pop(i)
            except IndexError:
                if L and -len(L) <= i < len(L):
                    return 'IndexError on valid pop'
                return None
            if not (L and -len(L) <= i < len(L)):
                return 'no IndexError on invalid pop(%d) of %r' % (i, L)
            e = L.pop(i)
            if r is not objs[e]:
                return 'pop returned the wrong node'
        elif kind == 'remove':
            x = op[2]
            try:
                T.removeChild(objs[x])
            except NotFoundErr:
                return None if x not in L else 'NotFoundErr for a child'
            if x not in L:
                return 'no NotFoundErr'
            L.remove(x)
        elif kind in ('before', 'after'):
            x, ref = op[2], op[3]
            if isfrag(x) or x == tgt or x == ref:
                return None
            try:
                (T.insertBefore if kind == 'before' else T.insertAfter)(objs[x], objs[ref])
            except NotFoundErr:
                L2 = [y for y in L if y != x]
                if ref in L2:
                    return 'NotFoundErr although reference child present'
                if x in L:
                    L.remove(x)
                return None
            if x in L:
                L.remove(x)
            if ref not in L:
                return 'no NotFoundErr'
            j = L.index(ref) + (0 if kind == 'before' else 1)
            L.insert(j, x); link(x)
        elif kind == 'replace':
            x, old = op[2], op[3]
            if isfrag(x) or x == tgt:
                return None
            try:
                T.replaceChild(objs[x], objs[old])
            except NotFoundErr:
                if x != old and x in L:
                    L.remove(x)
                return None if old not in L else 'NotFoundErr for a present child'
            if x != old and x in L:
                L.remove(x)
            if old not in L:
                return 'no NotFoundErr'
            j = L.index(old)
            L[j] = x; link(x)
        elif kind == 'extend':
            xs = [x for x in op[2] if not isfrag(x) and x != tgt]
            T.extend([objs[x] for x in xs]); L.extend(xs)
            for x in xs:
                link(x)
    except Exception as e:
        return 'unexpected %s: %s' % (type(e).__name__, e)
    return None


def compare(objs, m, nreal, touched):
    for i, o in enumerate(objs):
        got = [next(k for k, x in enumerate(objs) if x is c) for c in o.childNodes] if o.hasChildNodes() else []
        if got != m.ch[i]:
            return 'children of %d are %r, model %r' % (i, got, m.ch[i])
        if m.ch[i]:
            if o.firstChild is not objs[m.ch[i][0]] or o.lastChild is not objs[m.ch[i][-1]]:
                return 'firstChild/lastChild of %d' % i
    for i in touched:
        p = m.par[i]
        if p is not None and objs[i].parentNode is not objs[p]:
            return 'parent of %d is not %d' % (i, p)
    # sibling navigation for nodes listed exactly once under their recorded parent
    for i in range(nreal):
        p = m.par[i]
        if p is not None and m.ch[p].count(i) == 1 and objs[i].parentNode is objs[p]:
            k = m.ch[p].index(i)
            prev = objs[m.ch[p][k - 1]] if k > 0 else None
            nxt = objs[m.ch[p][k + 1]] if k + 1 < len(m.ch[p]) else None
            if objs[i].previousSibling is not prev or objs[i].nextSibling is not nxt:
                return 'siblings of %d' % i
    return None


def check_seq(w):
    d, objs, nreal = setup()
    m = Model(len(objs))
    touched = set()
    for op in w['ops']:
        op = tuple(tuple(x) if isinstance(x, list) else x for x in op)
        err = apply(op, objs, m, nreal)
        if err:
            return False, 'ops %r: %s' % (w['ops'], err)
        for x in op[2:]:
            if isinstance(x, int) and 0 <= x < len(objs) and op[0] in ('append', 'insert', 'setitem', 'before', 'after', 'replace'):
                pass
        err = compare(objs, m, nreal, [i for i in range(len(objs)) if m.par[i] is not None and any(i in c for c in m.ch.values())])
        if err:
            return False, 'ops %r: %s' % (w['ops'], err)
    return True, ''


def gen_op(rng, n=6, nreal=5):
    k = rng.choice(['append', 'append', 'insert', 'setitem', 'pop', 'remove', 'before', 'after', 'replace', 'extend'])
    t = rng.randrange(n)
    if k == 'append':
        return (k, t, rng.randrange(n))
    if k in ('insert', 'setitem'):
        return (k, t, rng.randrange(-4, 5), rng.randrange(n))
    if k == 'pop':
        return (k, t, rng.randrange(-4, 4))
    if k == 'remove':
        return (k, t, rng.randrange(nreal))
    if k in ('before', 'after', 'replace'):
        return (k, t, rng.randrange(nreal), rng.randrange(nreal))
    return (k, t, [rng.randrange(nreal) for _ in range(rng.randrange(0, 3))])


def acyclic(ops):
    return True


def gen_seq(rng):
    # keep the tree a forest: only node 0 and the fragment (5) act as containers, children come from 1..4
    ops = []
    for _ in range(rng.randrange(1, 12)):
        op = list(gen_op(rng))
        op[1] = rng.choice([0, 0, 5])
        op = tuple(op)
        if any(isinstance(x, int) and x == 0 for x in op[2:] if op[0] not in ('insert', 'setitem', 'pop')) and op[0] not in ('pop',):
            continue
        if op[0] in ('insert', 'setitem') and op[3] == 0:
            continue
        if op[0] == 'extend' and 0 in op[2]:
            continue
        ops.append(op)
    return {'ops': [list(o) for o in ops]}


def bounded_model(budget, rng):
    t0, n = time.time(), 0
    small = [('append', 0, 1), ('append', 0, 2), ('append', 5, 3), ('append', 5, 4), ('insert', 0, -1, 5), ('insert', 0, 1, 3),
             ('setitem', 0, -1, 4), ('setitem', 0, 0, 5), ('pop', 0, -1), ('remove', 0, 2), ('before', 0, 3, 1), ('after', 0, 4, 2),
             ('replace', 0, 2, 2), ('replace', 0, 3, 1)]
    for ln in range(1, 5):
        for ops in itertools.permutations(small, ln):
            if time.time() - t0 > budget * 0.5:
                break
            n += 1
            ok, d = check_seq({'ops': [list(o) for o in ops]})
            if not ok:
                return False, n, d
    while time.time() - t0 < budget * 0.8:
        n += 1
        ok, d = check_seq(gen_seq(rng))
        if not ok:
            return False, n, d
    return True, n, ''


CONTRACTS = {}
for _nm in ('Node.pop', 'Node.append', 'Node.insert', 'Node.__setitem__', 'Node.removeChild', 'Node.insertBefore', 'Node.insertAfter',
            'Node.replaceChild', 'Node.extend', '_previousSibling', '_nextSibling', 'Node.firstChild', 'Node.lastChild'):
    CONTRACTS[_nm] = dict(check=check_seq, gen=gen_seq)
GROUND = []
BOUNDED = [('bounded/dom-model', 'random and exhaustive edit sequences: child order, parent links, sibling navigation, first/last child agree with a list-of-lists model',
            'all sequences of <= 4 out of 14 operations (exhaustive), random sequences of <= 11 operations over 5 elements and a fragment', bounded_model)]
CLASSES = {}


# ---------------------------------------------------------------- deep clones equal but disjoint; normalize merges text, idempotent
def gen_tree(rng, d, depth=0):
    n = d.createElement('e%d' % rng.randrange(4))
    for _ in range(rng.randrange(0, 4) if depth < 3 else 0):
        if rng.random() < 0.45:
            n.append(d.createTextNode(rng.choice(['a', 'b c', '', 'xy '])))
        else:
            n.append(gen_tree(rng, d, depth + 1))
    return n


def shape(n):
    if n.nodeType == Node.TEXT_NODE:
        return ('#', str(n))
    return (n.nodeName, tuple(shape(c) for c in n.childNodes))


def all_nodes(n, acc=None):
    acc = [] if acc is None else acc
    acc.append(n)
    if n.nodeType != Node.TEXT_NODE:
        for c in n.childNodes:
            all_nodes(c, acc)
    return acc


def links_ok(n):
    if n.nodeType == Node.TEXT_NODE:
        return True
    return all(c.parentNode is n and links_ok(c) for c in n.childNodes)


def check_clone(seed):
    import random
    rng = random.Random(seed)
    d = Document()
    root = d.createElement('root')
    t = gen_tree(rng, d)
    root.append(t)
    before = shape(t)
    orig_nodes = all_nodes(t)
    c = t.cloneNode(True)
    if shape(c) != before:
        return False, 'deep clone differs from the original: %r vs %r' % (shape(c), before)
    if shape(t) != before or not links_ok(root) or all_nodes(t) != orig_nodes and [id(x) for x in all_nodes(t)] != [id(x) for x in orig_nodes]:
        return False, 'cloning changed the original tree (shape %r, parent links consistent: %r)' % (shape(t), links_ok(root))
    shared = [x for x in all_nodes(c) if any(x is y for y in orig_nodes)]
    if shared:
        return False, 'the deep clone shares %d node(s) with the original, e.g. %r (tree %r)' % (len(shared), shape(shared[0]), before)
    if not links_ok(c):
        return False, 'a child of the clone does not name its parent in the clone (tree %r)' % (before,)
    if any(x.ownerDocument is not d for x in all_nodes(c) if x.nodeType != Node.TEXT_NODE):
        return False, 'a cloned node belongs to another document'
    # normalize: adjacent text merged, text content unchanged, idempotent
    text = c.textContent
    c.normalize()
    s1 = shape(c)
    if c.textContent != text:
        return False, 'normalize changed the text content: %r -> %r' % (text, c.textContent)
    for x in all_nodes(c):
        if x.nodeType != Node.TEXT_NODE:
            kinds = [y.nodeType == Node.TEXT_NODE for y in x.childNodes]
            if any(a and b for a, b in zip(kinds, kinds[1:])):
                return False, 'adjacent text nodes remain after normalize in %r' % (shape(x),)
    c.normalize()
    if shape(c) != s1:
        return False, 'normalize is not idempotent: %r then %r' % (s1, shape(c))
    return True, ''


def bounded_clone(budget, rng):
    t0, n = time.time(), 0
    while time.time() - t0 < min(budget, 30) * 0.5 or n < 200:
        n += 1
        seed = rng.randrange(10 ** 9)
        ok, dd = check_clone(seed)
        if not ok:
            return False, n, dd, dict(seed=seed)
    return True, n, ''


BOUNDED.append(('bounded/clone-normalize', 'a deep clone has the shape and text of the original, shares no node with it at any depth, leaves the original untouched and has '
                'consistent parent links; normalize merges adjacent text, keeps the text content and is idempotent',
                'random trees of depth <= 3 (elements and text nodes incl. empty text), >= 200 trees', bounded_clone))
