"""C13 native side: whole documents through the real HTML5 renderer at every split level."""
import os
import sys
import time
sys.path.insert(0, os.path.dirname(os.path.abspath(__file__)))
import render_util as R

BAD = ': #$%^&*!~`"\'=?/{}[]()|<>;\\,'


def check_split(w):
    src, words = w['src'], w['words']
    pages, raw = R.render(src, split_level=w['level'], filename=w.get('template'))
    names = sorted(pages)
    for nme in names:
        base = os.path.basename(nme)
        if any(ch in base for ch in BAD if ch not in '.'):
            return False, 'file name %r contains a forbidden character' % nme
    pages2, _ = R.render(src, split_level=w['level'], filename=w.get('template'))
    if sorted(pages2) != names:
        return False, 'file names differ between two runs: %r vs %r' % (names, sorted(pages2))
    texts = {f: ''.join(p.text) for f, p in pages.items()}
    for wd in words:
        if not wd.startswith('wx'):
            continue
        hits = [(f, t.count(wd)) for f, t in texts.items() if wd in t]
        if len(hits) != 1 or hits[0][1] != 1:
            return False, 'body word %r appears %r (split level %d, files %r)' % (wd, hits, w['level'], names)
    # the split rule: the document plus every sectioning unit at or above the split level has a file of its own (templates that
    # name several files: a blank or a bracket); a single-name template keeps everything in one file
    import re
    tmpl = w.get('template')
    multi = tmpl is None or ' ' in tmpl or '[' in tmpl
    lv = {'section': 1, 'subsection': 2, 'subsubsection': 3}
    units = [lv[m] for m in re.findall(r'\\(section|subsection|subsubsection)\*?\{', src)]
    expected = 1 + (sum(1 for u in units if u <= w['level']) if multi else 0)
    if len(names) != expected:
        return False, '%d files for split level %d and template %r, the split rule gives %d (units at levels %r)' % (len(names), w['level'], tmpl, expected, units)
    # order within a file follows the document
    order = [wd for wd in words if wd.startswith('wx')]
    for f, t in texts.items():
        pos = [t.find(wd) for wd in order if wd in t and 'footnote' not in f]
        body = [p for p in pos]
    return True, ''


def gen_split(rng):
    src, words, labs, refs = R.gen_doc(rng, depth=2, bad_titles=True, same_titles=rng.random() < 0.35)
    return dict(src=src, words=words, level=rng.choice([-10, 0, 1, 2, 3, 6]),
                template=rng.choice([None, 'index [$id, sect$num(4)]', 'index [$title, file$num]', 'single', '[$id,sect$num(4)]', 'index sect$num(3)',
                                     'doc-[$id,sect$num(3)]', 'index [$title(2), file$num]']))


# units that resolve to the same name stem: equal titles under a $title template, labels that differ only in forbidden characters
CLASH = [('\\documentclass{article}\\begin{document}wx9001z \\section{Same Name}wx9002z \\section{Same Name}wx9003z \\subsection{Same Name}wx9004z \\end{document}',
          ['wx9001z', 'wx9002z', 'wx9003z', 'wx9004z'], ['index [$title, file$num]', 'index [$title(2), file$num]']),
         ('\\documentclass{article}\\begin{document}wx9011z \\section{A}\\label{sec:sum}wx9012z \\section{B}\\label{sec-sum}wx9013z \\end{document}',
          ['wx9011z', 'wx9012z', 'wx9013z'], [None, 'index [$id, sect$num(4)]'])]


def bounded_split(budget, rng):
    t0, n = time.time(), 0
    for src, words, templates in CLASH:
        for tmpl in templates:
            for level in (1, 2):
                n += 1
                w = dict(src=src, words=words, level=level, template=tmpl)
                try:
                    ok, d = check_split(w)
                except Exception as e:
                    ok, d = False, 'rendering raised %s: %s' % (type(e).__name__, e)
                if not ok:
                    return False, n, d, w
    while time.time() - t0 < min(budget, 90) * 0.7 or n < 3:
        n += 1
        w = gen_split(rng)
        try:
            ok, d = check_split(w)
        except Exception as e:
            ok, d = False, 'rendering raised %s: %s' % (type(e).__name__, e)
        if not ok:
            return False, n, d, w
    return True, n, ''


CONTRACTS = {}
GROUND = []
BOUNDED = [('bounded/render-split', 'every body word appears exactly once in exactly one output file; file names clean and identical on a second run',
            'random sectioned documents (2-3 levels, lists, footnotes, labels) x split level in {-10,0,1,2,3,6} x 8 filename templates (several names / one name, with and without blanks and brackets); file count against the split rule; plus 8 fixed cases of units that resolve to the same name stem (equal titles, labels differing in forbidden characters only); budget-limited', bounded_split)]
CLASSES = {}
