"""Shared native harness: generate a LaTeX document, render it with the real HTML5 renderer into a scratch directory, and
return the produced files (parsed with html.parser).  Used by the bounded parts of C12, C13, C14."""
import html
import html.parser
import os
import random
import shutil
import tempfile
from pathlib import Path


class Page(html.parser.HTMLParser):
    def __init__(self):
        super().__init__(convert_charrefs=True)
        self.text = []
        self.ids = []
        self.hrefs = []
        self.tags = []
        self.attrs = []          # (tag, attribute name) of every attribute of every start tag
        self.skip = 0

    def handle_starttag(self, tag, attrs):
        self.tags.append(tag)
        self.attrs.extend((tag, k) for k, _ in attrs)
        d = dict(attrs)
        if 'id' in d:
            self.ids.append(d['id'])
        elif tag == 'a' and d.get('name'):
            self.ids.append(d['name'])          # a named anchor is a fragment target too
        if tag == 'a' and 'href' in d:
            self.hrefs.append(d['href'])
        if tag in ('script', 'style', 'title', 'head'):
            self.skip += 1

    def handle_endtag(self, tag):
        if tag in ('script', 'style', 'title', 'head') and self.skip:
            self.skip -= 1

    def handle_data(self, data):
        if not self.skip:
            self.text.append(data)


def render(src, split_level=2, filename=None, escape_high=False, toc_non_files=False, base_url=''):
    """Returns dict filename -> Page, plus raw contents."""
    from plasTeX.TeX import TeX, TeXDocument
    from plasTeX.Config import defaultConfig
    from plasTeX.Renderers.HTML5 import Renderer
    from plasTeX.Renderers.HTML5.Config import addConfig
    config = defaultConfig()
    addConfig(config)
    config['files']['split-level'] = split_level
    if filename is not None:
        config['files']['filename'] = filename
    config['files']['escape-high-chars'] = escape_high
    config['document']['toc-non-files'] = toc_non_files
    if base_url:
        config['document']['base-url'] = base_url
    config['general']['load-tex-packages'] = False if False else config['general']['load-tex-packages']
    tex = TeX(TeXDocument(config=config))
    tex.input(src)
    doc = tex.parse()
    tmp = tempfile.mkdtemp(prefix='pvrender')
    doc.userdata['working-dir'] = Path(tmp)
    cwd = os.getcwd()
    pages, raw = {}, {}
    try:
        os.chdir(tmp)
        Renderer().render(doc)
        for root, _, files in os.walk(tmp):
            for f in files:
                if f.endswith('.html'):
                    p = os.path.join(root, f)
                    data = open(p, encoding='utf-8', errors='replace').read()
                    pg = Page()
                    pg.feed(data)
                    rel = os.path.relpath(p, tmp)
                    pages[rel] = pg
                    raw[rel] = data
    finally:
        os.chdir(cwd)
        shutil.rmtree(tmp, ignore_errors=True)
    return pages, raw


_w = [0]


def word(prefix='w'):
    _w[0] += 1
    return '%sx%dz' % (prefix, _w[0])


def gen_doc(rng, leaves=None, depth=2, labels=True, bad_titles=False, leaf_titles=False, same_titles=False):
    """Random sectioned document; returns (source, list of marker words in order, list of labels, refs)."""
    words, labs, refs = [], [], []
    names = ['section', 'subsection', 'subsubsection']

    def text():
        if leaves:
            w = word()
            words.append(w)
            return w + ' ' + rng.choice(leaves) + ' '
        w = word()
        words.append(w)
        return w + ' '

    def sec(level):
        out = ''
        for _ in range(rng.randrange(1, 3)):
            t = word('t')
            if same_titles and rng.random() < 0.5:
                t = 'Same Name'          # several units with one title: their names must still differ
            star = '*' if rng.random() < 0.15 else ''
            # titles may carry characters that are forbidden in file names
            extra = rng.choice(['', '', ': x', ' a/b', ' q?']) if bad_titles else ''
            if leaf_titles and leaves and rng.random() < 0.7:
                extra += ' ' + rng.choice(leaves)
            out += '\\%s%s{%s%s}' % (names[level], star, t, extra)
            words.append(t)
            if labels and rng.random() < 0.7:
                l = 'lab%d' % len(labs)
                labs.append(l)
                out += '\\label{%s}' % l
            out += text()
            if labs and rng.random() < 0.5:
                r = rng.choice(labs)
                refs.append(r)
                out += 'see \\ref{%s} ' % r
            if rng.random() < 0.3:
                out += '\\begin{itemize}\\item ' + text() + '\\item ' + text() + '\\end{itemize}'
            if rng.random() < 0.2:
                out += 'x\\footnote{' + text() + '} '
            if leaf_titles and leaves and rng.random() < 0.3:
                out += '\\begin{table}\\begin{tabular}{ll}' + text() + ' & ' + text() + '\\end{tabular}\\caption{' + text() + '}\\end{table} '
            if level + 1 < min(depth + 1, len(names)) and rng.random() < 0.6:
                out += sec(level + 1)
        return out
    body = text() + sec(0)
    src = '\\documentclass{article}\\begin{document}' + body + '\\end{document}'
    return src, words, labs, refs
