"""C09 native side: label / ref on a real Context in every order (bounded), executable contracts of Context.ref / label."""
import itertools
import os
import sys
import time
sys.path.insert(0, os.path.dirname(os.path.abspath(__file__)))
from plasTeX.TeX import TeX

_T = [None]


def ctx():
    if _T[0] is None:
        _T[0] = TeX()
    d = _T[0].ownerDocument
    c = d.context
    c.labels.clear(); c.refs.clear(); c.persistentLabels.clear()
    c.currentlabel = None
    return d, c


def run_ops(ops):
    """ops: list of ('label', name, node-index or None) | ('ref', obj-index, key, name) | ('current', node-index)."""
    d, c = ctx()
    nodes = [d.createElement('section') for _ in range(4)]
    objs = [d.createElement('ref') for _ in range(3)]
    for op in ops:
        if op[0] == 'label':
            c.label(op[1], nodes[op[2]] if op[2] is not None else None)
        elif op[0] == 'current':
            c.currentlabel = nodes[op[1]]
        else:
            c.ref(objs[op[1]], op[2], op[3])
    return c, nodes, objs


def check_orders(w):
    ops = [tuple(o) for o in w['ops']]
    c, nodes, objs = run_ops(ops)
    # expected: last label assignment per stripped name wins *for refs made afterwards*; refs pending at the time of the first
    # label resolve to the node labelled then.  Compute by replaying a simple model.
    labels, pending, idref, cur = {}, {}, {}, None
    for op in ops:
        if op[0] == 'current':
            cur = op[1]
        elif op[0] == 'label':
            l = op[1].strip()
            if not l:
                continue
            n = op[2] if op[2] is not None else cur
            if n is not None:
                labels[l] = n
            if l in pending and l in labels:
                for (o, k) in list(idref):
                    if isinstance(idref[(o, k)], tuple) and idref[(o, k)][1] == l and o in pending[l]:
                        idref[(o, k)] = labels[l]
                del pending[l]
        else:
            _, o, k, name = op
            l = name.strip()
            if not l:
                continue
            if l in labels:
                idref[(o, k)] = labels[l]
            else:
                pending.setdefault(l, []).append(o)
                idref[(o, k)] = ('placeholder', l)
    for (o, k), v in idref.items():
        got = objs[o].idref.get(k)
        if isinstance(v, tuple):
            if got is None or got in nodes or got.id != v[1] or any(got is x for x in c.labels.values()):
                return False, 'ops %r: dangling reference %r of obj %d is %r' % (ops, k, o, got)
        elif got is not nodes[v]:
            return False, 'ops %r: obj %d key %r resolved to %r, expected node %d' % (ops, o, k, got, v)
    for l, n in labels.items():
        if c.labels.get(l) is not nodes[n]:
            return False, 'ops %r: label %r names %r' % (ops, l, c.labels.get(l))
    for l in c.refs:
        if l in labels and l not in pending:
            return False, 'ops %r: queue for resolved label %r not removed' % (ops, l)
    return True, ''


def gen_ops(rng):
    names = ['a', 'b', ' a ', '']
    ops = []
    for _ in range(rng.randrange(1, 8)):
        r = rng.random()
        if r < 0.4:
            ops.append(('label', rng.choice(names), rng.choice([0, 1, 2, 3, None])))
        elif r < 0.5:
            ops.append(('current', rng.randrange(4)))
        else:
            ops.append(('ref', rng.randrange(3), rng.choice(['label', 'k2']), rng.choice(names)))
    return {'ops': ops}


def bounded_orders(budget, rng):
    t0, n = time.time(), 0
    base = [('label', 'a', 0), ('label', 'b', 1), ('ref', 0, 'label', 'a'), ('ref', 0, 'k2', 'a'), ('ref', 1, 'label', 'a'),
            ('ref', 0, 'label', 'b'), ('ref', 1, 'label', 'zz'), ('label', ' a ', 2)]
    for ln in range(1, 6):
        for ops in itertools.permutations(base, ln):
            if time.time() - t0 > budget * 0.5:
                break
            n += 1
            ok, d = check_orders({'ops': list(ops)})
            if not ok:
                return False, n, d
    while time.time() - t0 < budget * 0.8:
        n += 1
        ok, d = check_orders(gen_ops(rng))
        if not ok:
            return False, n, d
    return True, n, ''


def ground_id():
    d, c = ctx()
    n = d.createElement('section')
    n.id = 'x'
    ok = n.id == 'x' and n.idref is n.idref and isinstance(n.idref, dict)
    m = d.createElement('section')
    ok = ok and m.idref is not n.idref
    return ok, 3, 'id / idref property behaviour'


CONTRACTS = {
    'Context.ref': dict(check=check_orders, gen=gen_ops),
    'Context.label': dict(check=check_orders, gen=gen_ops),
}
GROUND = [('ground/id-property', 'Macro.id stores a set identifier; Macro.idref is a per-node dictionary', ground_id)]
BOUNDED = [('bounded/label-ref-orders', 'label / ref in every order: references resolve to the labelled node by identity, dangling ones to a placeholder that is no label',
            'all sequences of <= 5 operations out of 8 (exhaustive permutations), random sequences of <= 7 operations', bounded_orders)]
CLASSES = {}
