"""C09 native side: label / ref on a real Context in every order (bounded), executable contracts of Context.ref / label."""
import itertools
import os
import sys
import time
sys.path.insert(0, os.path.dirname(os.path.abspath(__file__)))
from plasTeX.TeX import TeX

_T = [None]


def ctx():
    if _T[0] is None:
        _T[0] = TeX()
    d = _T[0].ownerDocument
    c = d.context
    c.labels.clear(); c.refs.clear(); c.persistentLabels.clear()
    c.currentlabel = None
    return d, c


def run_ops(ops):
    """ops: list of ('label', name, node-index or None) | ('ref', obj-index, key, name) | ('current', node-index)."""
    d, c = ctx()
    nodes = [d.createElement('section') for _ in range(4)]
    objs = [d.createElement('ref') for _ in range(3)]
    for op in ops:
        if op[0] == 'label':
            c.label(op[1], nodes[op[2]] if op[2] is not None else None)
        elif op[0] == 'current':
            c.currentlabel = nodes[op[1]]
        else:
            c.ref(objs[op[1]], op[2], op[3])
    return c, nodes, objs


def check_orders(w):
    ops = [tuple(o) for o in w['ops']]
    c, nodes, objs = run_ops(ops)
    # expected: last label assignment per stripped name wins *for refs made afterwards*; refs pending at the time of the first
    # label resolve to the node labelled then.  Compute by replaying a simple model.
    labels, pending, idref, cur = {}, {}, {}, None
    for op in ops:
        if op[0] == 'current':
            cur = op[1]
        elif op[0] == 'label':
            l = op[1].strip()
            if not l:
                continue
            n = op[2] if op[2] is not None else cur
            if n is not None:
                labels[l] = n
            if l in pending and l in labels:
                for (o, k) in list(idref):
                    if isinstance(idref[(o, k)], tuple) and idref[(o, k)][1] == l and o in pending[l]:
                        idref[(o, k)] = labels[l]
                del pending[l]
        else:
            _, o, k, name = op
            l = name.strip()
            if not l:
                continue
            if l in labels:
                idref[(o, k)] = labels[l]
            else:
                pending.setdefault(l, []).append(o)
                idref[(o, k)] = ('placeholder', l)
    for (o, k), v in idref.items():
        got = objs[o].idref.get(k)
        if isinstance(v, tuple):
            if got is None or got in nodes or got.id != v[1] or any(got is x for x in c.labels.values()):
                return False, 'ops %r: dangling reference %r of obj %d is %r' % (ops, k, o, got)
        elif got is not nodes[v]:
            return False, 'ops %r: obj %d key %r resolved to %r, expected node %d' % (ops, o, k, got, v)
    for l, n in labels.items():
        if c.labels.get(l) is not nodes[n]:
            return False, 'ops %r: label %r names %r' % (ops, l, c.labels.get(l))
    for l in c.refs:
        if l in labels and l not in pending:
            return False, 'ops %r: queue for resolved label %r not removed' % (ops, l)
    return True, ''


def gen_ops(rng):
    names = ['a', 'b', ' a ', '']
    ops = []
    for _ in range(rng.randrange(1, 8)):
        r = rng.random()
        if r < 0.4:
            ops.append(('label', rng.choice(names), rng.choice([0, 1, 2, 3, None])))
        elif r < 0.5:
            ops.append(('current', rng.randrange(4)))
        else:
            ops.append(('ref', rng.randrange(3), rng.choice(['label', 'k2']), rng.choice(names)))
    return {'ops': ops}


def bounded_orders(budget, rng):
    t0, n = time.time(), 0
    base = [('label', 'a', 0), ('label', 'b', 1), ('ref', 0, 'label', 'a'), ('ref', 0, 'k2', 'a'), ('ref', 1, 'label', 'a'),
            ('ref', 0, 'label', 'b'), ('ref', 1, 'label', 'zz'), ('label', ' a ', 2)]
    for ln in range(1, 6):
        for ops in itertools.permutations(base, ln):
            if time.time() - t0 > budget * 0.5:
                break
            n += 1
            ok, d = check_orders({'ops': list(ops)})
            if not ok:
                return False, n, d
    while time.time() - t0 < budget * 0.8:
        n += 1
        ok, d = check_orders(gen_ops(rng))
        if not ok:
            return False, n, d
    return True, n, ''


def ground_id():
    d, c = ctx()
    n = d.createElement('section')
    n.id = 'x'
    ok = n.id == 'x' and n.idref is n.idref and isinstance(n.idref, dict)
    m = d.createElement('section')
    ok = ok and m.idref is not n.idref
    return ok, 3, 'id / idref property behaviour'


CONTRACTS = {
    'Context.ref': dict(check=check_orders, gen=gen_ops),
    'Context.label': dict(check=check_orders, gen=gen_ops),
}
GROUND = [('ground/id-property', 'Macro.id stores a set identifier; Macro.idref is a per-node dictionary', ground_id)]
BOUNDED = [('bounded/label-ref-orders', 'label / ref in every order: references resolve to the labelled node by identity, dangling ones to a placeholder that is no label',
            'all sequences of <= 5 operations out of 8 (exhaustive permutations), random sequences of <= 7 operations', bounded_orders)]
CLASSES = {}


# ---------------------------------------------------------------- bounded: labels and references through whole documents
def gen_refdoc(rng):
    """A random article whose numbered objects carry labels; \\ref's placed before, after and inside the labelled objects, in the
    document order drawn at random; some references dangle.  Expected texts from an independent reading of LaTeX's numbering."""
    v = dict(section=0, subsection=0, equation=0, figure=0, table=0, thm=0)
    thm_within = rng.choice([None, 'section'])
    pre = '\\newtheorem{thm}{Theorem}' + ('[section]' if thm_within else '')
    objs, number, tkind = [], {}, {}
    nlab = [0]

    def lab():
        nlab[0] += 1
        return 'L%d' % nlab[0]
    for _ in range(rng.randrange(3, 9)):
        kind = rng.choice(['section', 'section', 'subsection', 'subsubsection', 'equation', 'figure', 'table', 'thm', 'enum'])
        l = lab() if rng.random() < 0.75 else None
        if kind == 'section':
            v['section'] += 1
            v['subsection'] = 0
            if thm_within:
                v['thm'] = 0
            num = '%d' % v['section']
            objs.append(['\\section{T}%s ' % ('\\label{%s}' % l if l else ''), None])
        elif kind == 'subsection':
            v['subsection'] += 1
            num = '%d.%d' % (v['section'], v['subsection'])
            objs.append(['\\subsection{T}%s ' % ('\\label{%s}' % l if l else ''), None])
        elif kind == 'subsubsection':
            # deeper than the numbering depth (2): no number is printed, but the label still names this object
            num = None
            objs.append(['\\subsubsection{T}%s ' % ('\\label{%s}' % l if l else ''), None])
        elif kind == 'equation':
            v['equation'] += 1
            num = '%d' % v['equation']
            objs.append(['\\begin{equation}%sx=1', '\\end{equation} '])
            objs[-1][0] = objs[-1][0] % ('\\label{%s}' % l if l else '')
        elif kind in ('figure', 'table'):
            v[kind] += 1
            num = '%d' % v[kind]
            objs.append(['\\begin{%s}\\caption{c}%s body' % (kind, '\\label{%s}' % l if l else ''), '\\end{%s} ' % kind])
        elif kind == 'thm':
            v['thm'] += 1
            num = ('%d.%d' % (v['section'], v['thm'])) if thm_within else '%d' % v['thm']
            objs.append(['\\begin{thm}%s statement' % ('\\label{%s}' % l if l else ''), '\\end{thm} '])
        else:
            n = rng.randrange(1, 4)
            k = rng.randrange(n)
            num = '%d' % (k + 1)
            its = ''.join('\\item%s it ' % (' \\label{%s}' % l if (l and i == k) else '') for i in range(n))
            objs.append(['\\begin{enumerate}%s' % its, '\\end{enumerate} '])
        if l:
            number[l] = num
            tkind[l] = {'figure': 'caption', 'table': 'caption', 'thm': 'thmenv', 'enum': 'item'}.get(kind, kind)
    labels = sorted(number)
    # references: before / after / inside (the slot after the opening half of an environment)
    slots = []          # (object index, 'before' | 'inside' | 'after')
    for i, o in enumerate(objs):
        slots.append((i, 'before'))
        if o[1] is not None and not o[0].startswith('\\begin{equation}') and not o[0].startswith('\\begin{enumerate}'):
            slots.append((i, 'inside'))
        slots.append((i, 'after'))
    placed = {}
    for _ in range(rng.randrange(2, 7)):
        target = rng.choice(labels + ['nosuch']) if labels else 'nosuch'
        placed.setdefault(rng.choice(slots), []).append(target)
    out, expect, kinds = [], [], []
    for i, o in enumerate(objs):
        for when in ('before', 'inside', 'after'):
            if when == 'inside':
                out.append(o[0])
            for t in placed.get((i, when), []):
                out.append(' [[\\ref{%s}]] ' % t)
                expect.append(number.get(t, '??') if t in number else '??')
                kinds.append((t, tkind.get(t)))
            if when == 'inside' and o[1] is not None:
                out.append(o[1])
    src = '\\documentclass{article}%s\\begin{document}start %s\\end{document}' % (pre, ''.join(out))
    return dict(src=src, expect=expect, kinds=kinds, text=src)


def check_refdoc(w):
    import re
    from plasTeX.TeX import TeX
    t = TeX()
    t.input(w['src'])
    try:
        d = t.parse()
    except Exception as e:
        return False, 'parsing raised %s: %s' % (type(e).__name__, e)
    got = []
    refs = d.getElementsByTagName('ref')
    for n in refs:
        tgt = n.idref.get('label')
        r = getattr(tgt, 'ref', None) if tgt is not None else None
        # what the renderers print for a reference: the number of its target (?? when the label is unknown)
        got.append(r.textContent if r is not None else '??')
    # the target is the labelled object itself, and the label is its identifier
    for n, (lab, kind) in zip(refs, w.get('kinds', [])):
        tgt = n.idref.get('label')
        if kind is None:
            if tgt is not None and tgt.parentNode is not None:
                return False, 'the dangling reference to %r resolves to a %s in the document' % (lab, tgt.nodeName)
            continue
        if tgt is None or tgt.nodeName != kind or tgt.id != lab:
            return False, 'reference to %r resolves to %s with id %r; the label is written in a %s' % (
                lab, getattr(tgt, 'nodeName', None), getattr(tgt, 'id', None), kind)
    expect = [('??' if e is None else e) for e in w['expect']]
    w = dict(w, expect=expect)
    if got != w['expect']:
        i = next((j for j, (a, b) in enumerate(zip(got, w['expect'])) if a != b), min(len(got), len(w['expect'])))
        return False, 'reference #%d prints %r, LaTeX gives %r (all: %r vs %r)' % (i, got[i:i + 1], w['expect'][i:i + 1], got, w['expect'])
    return True, ''


def bounded_refdocs(budget, rng):
    import time
    t0, n, seen, samples = time.time(), 0, set(), []
    while time.time() - t0 < budget or n < 60:
        w = gen_refdoc(rng)
        n += 1
        if w['src'] not in seen:
            seen.add(w['src'])
            if len(samples) < 2:
                samples.append(w['src'][:500])
        ok, dd = check_refdoc(w)
        if not ok:
            return False, n, dd, dict(text=w['src'], expect=w['expect'])
    return True, n, '', None, dict(distinct=len(seen), samples=samples, rule='random articles of the grammar (see bound); distinct = source not seen before')


BOUNDED.append(('bounded/ref-documents', 'every \\ref prints the number of the object its label is attached to - wherever the reference stands relative to the label - '
                'and ?? when the label does not exist',
                'random articles: 3-8 objects among sections, subsections, equations, figures, tables (label after the caption), theorems (plain or numbered within '
                'sections), enumerate items; 75% labelled; 2-6 references before / inside / after the objects in random order, some dangling', bounded_refdocs))


def bounded_label_after_nested(budget, rng):
    """A label written in a numbered object AFTER a nested numbered object has ended still attaches to the outer object (LaTeX restores
    \\@currentlabel at the end of the inner group)."""
    n = 0
    pre = '\\documentclass{article}\\newtheorem{thm}{Theorem}\\begin{document}'
    for body, exp in (('\\section{S} \\begin{thm} claim \\begin{enumerate}\\item a\\item b\\end{enumerate} \\label{t}\\end{thm} [[\\ref{t}]]', ['1']),
                      ('\\section{S} \\section{T} \\begin{thm} text \\begin{equation}a=b\\end{equation} \\label{t}\\end{thm} [[\\ref{t}]]', ['1'])):
        n += 1
        w = dict(src=pre + body + '\\end{document}', expect=exp)
        ok, d = check_refdoc(w)
        if not ok:
            return False, n, d, dict(text=w['src'], kind='label-after-nested')
    return True, n, ''


BOUNDED.append(('bounded/label-after-nested-object', 'a label after a nested numbered object still names the enclosing numbered object', '2 documents', bounded_label_after_nested))
CLASSES['label-after-nested'] = lambda w: isinstance(w, dict) and w.get('kind') == 'label-after-nested'
