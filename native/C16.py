"""C16 native side: the real ConfigManager under layered inputs; executable forms of the contracts."""
import os
import shlex
import sys
import tempfile
sys.path.insert(0, os.path.dirname(os.path.abspath(__file__)))
from util import z3str
from plasTeX.ConfigManager import (ConfigManager, StringOption, IntegerOption, FloatOption, BooleanOption,
                                   MultiStringOption, DictOption, ConfigOption)

TRUE, FALSE = ('yes', 'true', 'on', '1'), ('no', 'false', 'off', '0')


class StrDict(DictOption):
    @classmethod
    def entryFromString(cls, entry):
        return 'E(' + entry + ')'

    def registerArgparse(self, group):
        group.add_argument(*self.options, dest=self.name, nargs=2, action='append')


def mk():
    c = ConfigManager()
    s = c.addSection('sec')
    s['s'] = StringOption('s', '--s', 'sdef')
    s['i'] = IntegerOption('i', '--i', 7)
    s['f'] = FloatOption('f', '--f', 1.5)
    s['b'] = BooleanOption('b', '--b !--no-b', True)
    s['m'] = MultiStringOption('m', '--m', ['m0'])
    s['d'] = StrDict('d', '--d', {'k0': 'v0'})
    return c


def check_bool(w):
    o = BooleanOption('b', '--b', w.get('old', True))
    s = w['s']
    word = s.strip().lower()
    try:
        o.setFromString(s)
    except ValueError:
        return (word not in TRUE + FALSE) and o.value == w.get('old', True), 'ValueError for %r' % s
    exp = True if word in TRUE else False if word in FALSE else None
    return o.value is exp, 'BooleanOption.setFromString(%r) -> %r, expected %r' % (s, o.value, exp)


def check_scalar(w):
    kind, s = w['kind'], w['s']
    o = {'str': StringOption, 'int': IntegerOption, 'float': FloatOption}[kind]('x', '--x', {'str': 'd', 'int': 3, 'float': 2.5}[kind])
    conv = {'str': str, 'int': int, 'float': float}[kind]
    try:
        exp = conv(s)
    except ValueError:
        try:
            o.setFromString(s)
        except ValueError:
            return True, ''
        return False, 'no ValueError for %r' % s
    o.setFromString(s)
    return o.value == exp and type(o.value) is conv, '%s option from %r -> %r' % (kind, s, o.value)


def check_update(w):
    o = StringOption('x', '--x', 'd')
    data = w['data']
    o.updateFromDict(data)
    exp = data['x'] if data.get('x') is not None else 'd'
    return o.value == exp, 'updateFromDict(%r) -> %r' % (data, o.value)


def check_multi(w):
    o = MultiStringOption('m', '--m', list(w['old']))
    o.setFromString(w['s'])
    ok = o.value == w['old'] + shlex.split(w['s'])
    o2 = MultiStringOption('m', '--m', list(w['old']))
    o2.updateFromDict({'m': w.get('cli')})
    exp = w['old'] + [x for e in (w.get('cli') or []) for x in e]
    return ok and o2.value == exp, 'MultiStringOption %r -> %r / %r' % (w, o.value, o2.value)


def check_dict(w):
    o = StrDict('d', '--d', dict(w['old']))
    s = w['s']
    exp = dict(w['old'])
    bad = False
    for e in s.split(','):
        if '=' not in e:
            bad = True
            break
        k, v = e.split('=', 1)
        exp[k.strip()] = 'E(' + v.strip() + ')'
    try:
        o.setFromString(s)
    except ValueError:
        return bad, 'ValueError on %r' % s
    return (not bad) and o.value == exp, 'DictOption.setFromString(%r) -> %r expected %r' % (s, o.value, exp)


def check_dict_cli(w):
    o = StrDict('d', '--d', dict(w['old']))
    exp = dict(w['old'])
    for k, v in (w.get('cli') or []):
        exp[k] = 'E(' + v + ')'
    o.updateFromDict({'d': w.get('cli')})
    return o.value == exp, 'DictOption.updateFromDict(%r) -> %r' % (w, o.value)


def check_layering(w):
    """defaults < file1 < file2 < command line, per option independently present/absent."""
    c = mk()
    files = []
    exp = dict(s='sdef', i=7, f=1.5, b=True, m=['m0'], d={'k0': 'v0'})
    tmpd = tempfile.mkdtemp()
    try:
        for n, layer in enumerate(w['files']):
            p = os.path.join(tmpd, 'f%d.ini' % n)
            lines = ['[sec]']
            for k, v in layer.items():
                lines.append('%s=%s' % (k, v))
                if k == 's':
                    exp['s'] = v.replace('%%', '%')     # read-back: %% denotes a literal percent sign
                elif k == 'i':
                    exp['i'] = int(v)
                elif k == 'b':
                    exp['b'] = v.lower() in TRUE
                elif k == 'm':
                    exp['m'] = exp['m'] + shlex.split(v)
                else:               # unknown key -> first DictOption
                    exp['d'][k] = 'E(' + v + ')'
            open(p, 'w').write('\n'.join(lines) + '\n')
            files.append(p)
        c.read(files)
        from argparse import ArgumentParser
        parser = ArgumentParser('x')
        c.registerArgparse(parser)
        argv = []
        cli = w['cli']
        if 's' in cli:
            argv += ['--s', cli['s']]; exp['s'] = cli['s']
        if 'i' in cli:
            argv += ['--i', str(cli['i'])]; exp['i'] = cli['i']
        if 'b' in cli:
            argv += ['--b' if cli['b'] else '--no-b']; exp['b'] = cli['b']
        if 'm' in cli:
            argv += ['--m'] + cli['m']; exp['m'] = exp['m'] + cli['m']
        c.updateFromDict(vars(parser.parse_args(argv)))
        got = dict((k, c['sec'][k]) for k in exp)
        return got == exp, 'layering %r -> %r, expected %r' % (w, got, exp)
    finally:
        import shutil
        shutil.rmtree(tmpd, ignore_errors=True)


def check_wrapper(w):
    c = ConfigManager()
    for sn, keys in w['secs']:
        s = c.addSection(sn)
        for k in keys:
            s[k] = StringOption(k, '--' + sn + k, sn + ':' + k)
    from plasTeX.ConfigManager import InterpolationWrapper
    wr = InterpolationWrapper(c)
    key = w['key']
    exp = None
    for sn, keys in w['secs']:
        if key in keys:
            exp = sn + ':' + key
            break
    try:
        got = wr[key]
    except KeyError:
        return exp is None, 'KeyError for %r in %r' % (key, w['secs'])
    return got == exp, 'wrapper[%r] = %r expected %r' % (key, got, exp)


WORDS = ['yes', 'no', 'true', 'false', 'on', 'off', '1', '0', 'Yes', 'NO', ' on ', 'y', 'n', '', 'maybe', '2', 'True', 'FALSE', 'oui']


def gen_layer(rng):
    layer = {}
    if rng.random() < .5:
        layer['s'] = rng.choice(['a', 'b c', 'x%%y'])
    if rng.random() < .5:
        layer['i'] = str(rng.randrange(-5, 50))
    if rng.random() < .5:
        layer['b'] = rng.choice(TRUE + FALSE + ('Yes', 'OFF'))
    if rng.random() < .4:
        layer['m'] = rng.choice(['p q', '"r s" t', 'u'])
    if rng.random() < .4:
        layer[rng.choice(['zz', 'k0', 'yy'])] = rng.choice(['1', 'w'])
    return layer


def gen_layering(rng):
    cli = {}
    if rng.random() < .5:
        cli['s'] = rng.choice(['cs', 'c t'])
    if rng.random() < .5:
        cli['i'] = rng.randrange(0, 99)
    if rng.random() < .5:
        cli['b'] = rng.random() < .5
    if rng.random() < .4:
        cli['m'] = rng.choice([['c1'], ['c1', 'c2']])
    return dict(files=[gen_layer(rng) for _ in range(rng.randrange(0, 4))], cli=cli)


def bool_from_model(model):
    v = (model or {}).get('p_string')
    return {'s': z3str(v)} if v is not None else None


CONTRACTS = {
    'BooleanOption.setFromString': dict(check=check_bool, small=lambda: ({'s': s, 'old': o} for s in WORDS for o in (True, False)),
                                        from_model=bool_from_model),
    'ConfigOption.setFromString/str': dict(check=check_scalar, small=lambda: ({'kind': 'str', 's': s} for s in ['', 'a', ' 1 '])),
    'ConfigOption.setFromString/int': dict(check=check_scalar, small=lambda: ({'kind': 'int', 's': s} for s in ['1', '-3', ' 4 ', 'x', '', '1.5'])),
    'ConfigOption.setFromString/float': dict(check=check_scalar, small=lambda: ({'kind': 'float', 's': s} for s in ['1', '-3.5', 'x', ''])),
    'ConfigOption.updateFromDict/str': dict(check=check_update, small=lambda: iter([{'data': {}}, {'data': {'x': None}}, {'data': {'x': 'v'}}, {'data': {'y': 'v'}}])),
    'MultiStringOption.setFromString': dict(check=check_multi, gen=lambda rng: dict(old=rng.choice([[], ['a'], ['a', 'b']]), s=rng.choice(['', 'x', 'x y', '"x y" z']), cli=rng.choice([None, [], [['p']], [['p', 'q'], ['r']]]))),
    'DictOption.setFromString': dict(check=check_dict, gen=lambda rng: dict(old=rng.choice([{}, {'a': '1'}]), s=','.join(rng.choice(['a=1', 'b = 2', 'a=3', 'c', 'd=e=f', ' ']) for _ in range(rng.randrange(1, 4))))),
    'DictOption.updateFromDict': dict(check=check_dict_cli, gen=lambda rng: dict(old=rng.choice([{}, {'a': '1'}]), cli=rng.choice([None, [], [['a', '2']], [['a', '2'], ['b', '3'], ['a', '4']]]))),
    'InterpolationWrapper.__getitem__': dict(check=check_wrapper, gen=lambda rng: dict(secs=[('s%d' % i, rng.sample(['a', 'b', 'c'], rng.randrange(0, 3))) for i in range(rng.randrange(0, 4))], key=rng.choice(['a', 'b', 'c', 'z']))),
    'layering': dict(check=check_layering, gen=gen_layering, bounded=True),
}
CONTRACTS['MultiStringOption.updateFromDict'] = CONTRACTS['MultiStringOption.setFromString']


def ground_types():
    """valueType() of every option of the default configuration matches its class (assumption of the setFromString contracts)."""
    from plasTeX.Config import defaultConfig
    want = {StringOption: str, IntegerOption: int, FloatOption: float, BooleanOption: bool, MultiStringOption: list}
    n = 0
    c = defaultConfig()
    for sn, sec in c.items():
        for k, o in sec.data.items():
            n += 1
            for cls, t in want.items():
                if type(o) is cls and o.valueType() is not t:
                    return False, n, '%s.%s: %s has value type %s' % (sn, k, cls.__name__, o.valueType())
            if isinstance(o, DictOption) and not isinstance(o.value, dict):
                return False, n, '%s.%s: DictOption value is not a dict' % (sn, k)
    return True, n, ''


GROUND = [('ground/option-value-types', 'valueType() matches the option class for every default option', ground_types)]


def bounded_layering(budget, rng):
    import time
    t0, n = time.time(), 0
    while time.time() - t0 < min(budget, 60) / 3:
        w = gen_layering(rng)
        n += 1
        ok, d = check_layering(w)
        if not ok:
            return False, n, d
    return True, n, ''


BOUNDED = [('bounded/layering', 'defaults < files in order < command line through the real read()/argparse/updateFromDict (random layerings of 0-3 files)',
            '0-3 files x 5 option kinds x command line, random', bounded_layering)]
CLASSES = {}
