"""C04 native side (bounded): the real Context against a frame-list model under exhaustive / random histories of API calls, and
generated balanced TeX programs against an independent scoping evaluator."""
import itertools
import os
import sys
import time
sys.path.insert(0, os.path.dirname(os.path.abspath(__file__)))
from plasTeX import Command, Environment, TeXDocument
from plasTeX.Tokenizer import EscapeSequence, Other, Letter

NAMES = ['ma', 'mb', 'mc']
CHARS = ['@', '|', 'q']


# ----------------------------------------------------------------------------------------------- reference model
class Frame:
    def __init__(self, obj=None, cats=None):
        self.macros, self.lets, self.obj, self.cats = {}, {}, obj, cats      # cats: dict char -> code (shared object until written)


class Model:
    def __init__(self, base_macros, base_cats):
        f = Frame(None, dict(base_cats))
        f.macros = dict(base_macros)
        self.st = [f]

    def push(self, obj=None):
        self.st.append(Frame(obj, self.st[-1].cats))

    def pop(self, obj=None, parent_of=None):
        st = self.st
        if obj is None:
            while len(st) > 1:
                f = st.pop()
                if f.obj is None:
                    break
            return
        while len(st) > 1:
            o = st[-1].obj
            if o is None:
                st.pop()
                continue
            if o is obj:
                st.pop()
                break
            if o is parent_of:
                break
            st.pop()

    def lookup(self, name):
        for f in reversed(self.st):
            if name in f.macros:
                return f.macros[name]
        return None

    def get_let(self, name):
        for f in reversed(self.st):
            if name in f.lets:
                return f.lets[name]
        return None

    def code(self, ch):
        return self.st[-1].cats.get(ch, 12)

    def catcode(self, ch, code):
        c = dict(self.st[-1].cats)
        c[ch] = code
        self.st[-1].cats = c


def fresh_context():
    doc = TeXDocument()
    ctx = doc.context
    # the macro values used by the histories: distinct classes named after the key
    vals = {}
    for n in NAMES:
        for v in range(3):
            vals[(n, v)] = type(n, (Command,), {'tagv': v})
    objs = [doc.createElement('textbf'), doc.createElement('emph')]
    return doc, ctx, vals, objs


def observe(ctx):
    out = {}
    for n in NAMES:
        out['m:' + n] = ctx.top.get(n)
        out['in:' + n] = bool(n in ctx)
        out['l:' + n] = ctx.get_let(EscapeSequence(n))
    for c in CHARS:
        out['c:' + c] = ctx.whichCode(c)
    out['depth'] = ctx.depth
    out['len'] = len(ctx.contexts)
    return out


def observe_model(m, base_code):
    out = {}
    for n in NAMES:
        out['m:' + n] = m.lookup(n)
        out['in:' + n] = m.lookup(n) is not None
        out['l:' + n] = m.get_let(n)
    for c in CHARS:
        out['c:' + c] = m.code(c)
    out['depth'] = len(m.st)
    out['len'] = len(m.st)
    return out


OPS = ([('push', None), ('push', 0), ('push', 1), ('pop', None), ('pop', 0), ('pop', 1)] +
       [('local', n, v) for n in NAMES[:2] for v in range(2)] + [('global', n, v) for n in NAMES[:2] for v in (2,)] +
       [('let', NAMES[2], NAMES[0]), ('letchar', NAMES[1], 'x'), ('letchar', NAMES[1], 'y')] + [('cat', '@', 11), ('cat', '|', 13), ('cat', '@', 12)])


def run_history(ops):
    doc, ctx, vals, objs = fresh_context()
    base_cats = {c: ctx.whichCode(c) for c in CHARS}
    m = Model({}, base_cats)
    chars = {}
    for i, op in enumerate(ops):
        k = op[0]
        if k == 'push':
            o = None if op[1] is None else objs[op[1]]
            ctx.push(o)
            m.push(o)
        elif k == 'pop':
            o = None if op[1] is None else objs[op[1]]
            ctx.pop(o)
            m.pop(o, None if o is None else o.parentNode)
        elif k == 'local':
            v = vals[(op[1], op[2])]
            ctx.addLocal(op[1], v)
            m.st[-1].macros[op[1]] = v
        elif k == 'global':
            v = vals[(op[1], op[2])]
            ctx.addGlobal(op[1], v)
            # a global definition acts at every level: no open frame keeps a local one
            for f in m.st[1:]:
                f.macros.pop(op[1], None)
            m.st[0].macros[op[1]] = v
        elif k == 'let':
            cur = m.lookup(op[2])
            if cur is None:
                continue        # \let to an undefined name defines an "unrecognized" class globally; kept out of the history
            ctx.let(EscapeSequence(op[1]), EscapeSequence(op[2]))
            m.st[-1].macros[op[1]] = cur
        elif k == 'letchar':
            tok = chars.setdefault(op[2], Other(op[2]))
            ctx.let(EscapeSequence(op[1]), tok)
            m.st[-1].lets[op[1]] = tok
        elif k == 'cat':
            ctx.catcode(op[1], op[2])
            m.catcode(op[1], op[2])
        a, b = observe(ctx), observe_model(m, base_cats)
        for key in a:
            x, y = a[key], b[key]
            if key.startswith('l:'):
                # get_let returns the command itself when there is no binding
                if y is None:
                    ok = isinstance(x, EscapeSequence)
                else:
                    ok = x is y
            elif key.startswith('m:'):
                ok = x is y
            else:
                ok = x == y
            if not ok:
                return False, 'after %r (step %d of %r): %s is %r, model says %r' % (op, i, ops, key, x, y)
        # structural invariants of the real stack
        cs = ctx.contexts
        if ctx.top is not cs[-1] or ctx.categories is not cs[-1].categories or cs[0].parent is not None \
                or any(cs[j].parent is not cs[j - 1] for j in range(1, len(cs))):
            return False, 'stack representation invariant broken after %r (step %d of %r)' % (op, i, ops)
    return True, ''


def bounded_histories(budget, rng):
    t0 = time.time()
    n = 0
    # exhaustive: all histories of length <= 3 over the operation alphabet
    for ln in (1, 2, 3):
        for ops in itertools.product(OPS, repeat=ln):
            n += 1
            ok, d = run_history(ops)
            if not ok:
                return False, n, d, dict(ops=[list(o) for o in ops], text=repr(ops))
    # random longer ones
    while time.time() - t0 < budget:
        ops = [rng.choice(OPS) for _ in range(rng.randrange(4, 14))]
        n += 1
        ok, d = run_history(ops)
        if not ok:
            return False, n, d, dict(ops=[list(o) for o in ops], text=repr(ops))
    return True, n, ''


# ----------------------------------------------------------------------------------------------- generated programs
MAC = ['A', 'B', 'C']


class Scope:
    """Independent evaluator of the scoping rules: a stack of dicts for macro values and one for the category of @."""

    def __init__(self):
        self.st = [({}, {})]

    def open(self):
        self.st.append(({}, {}))

    def close(self):
        self.st.pop()

    def val(self, n):
        for d, _ in reversed(self.st):
            if n in d:
                return d[n]
        return None

    def at(self):
        for _, c in reversed(self.st):
            if '@' in c:
                return c['@']
        return 12


def gen_items(rng, depth, sc, out, expected, counter, inmath=False, incell=False, frozen=None):
    # frozen: inside a macro argument the characters were tokenized when the argument was read, with the category of @ of that moment
    for _ in range(rng.randrange(1, 4)):
        r = rng.random()
        if r < 0.30 and depth < 4:
            kind = rng.choice(['brace', 'begingroup', 'center', 'math', 'textbf', 'tabular', 'quote', 'mbox'] if not inmath else ['brace', 'begingroup'])
            if incell and kind == 'tabular':
                kind = 'brace'
            if kind == 'brace':
                out.append('{'); sc.open(); gen_items(rng, depth + 1, sc, out, expected, counter, inmath, incell, frozen); sc.close(); out.append('}')
            elif kind == 'begingroup':
                out.append('\\begingroup '); sc.open(); gen_items(rng, depth + 1, sc, out, expected, counter, inmath, incell, frozen); sc.close(); out.append('\\endgroup ')
            elif kind in ('center', 'quote'):
                out.append('\\begin{%s}' % kind); sc.open(); gen_items(rng, depth + 1, sc, out, expected, counter, inmath, incell, frozen); sc.close(); out.append('\\end{%s}' % kind)
            elif kind == 'math':
                out.append('$'); sc.open(); gen_items(rng, depth + 1, sc, out, expected, counter, True, incell, frozen); sc.close(); out.append('$')
            elif kind in ('textbf', 'mbox'):
                out.append('\\%s{' % kind); sc.open(); gen_items(rng, depth + 1, sc, out, expected, counter, inmath, incell, sc.at() if frozen is None else frozen); sc.close(); out.append('}')
            elif kind == 'tabular':
                out.append('\\begin{tabular}{ll}')
                sc.open()           # the environment
                for row in range(2):
                    for col in range(2):
                        sc.open(); gen_items(rng, depth + 2, sc, out, expected, counter, inmath, True, frozen); sc.close()
                        out.append('&' if col == 0 else ('\\\\ ' if row == 0 else ''))
                sc.close()
                out.append('\\end{tabular}')
        elif r < 0.45:
            n = rng.choice(MAC); counter[0] += 1; v = 'v%dz' % counter[0]
            out.append('\\def\\%s{%s}' % (n, v)); sc.st[-1][0][n] = v
        elif r < 0.55:
            n = rng.choice(MAC); counter[0] += 1; v = 'g%dz' % counter[0]
            out.append('\\gdef\\%s{%s}' % (n, v))
            # \gdef: the value at every level
            for d, _ in sc.st[1:]:
                d.pop(n, None)
            sc.st[0][0][n] = v
        elif r < 0.63:
            a, b = rng.sample(MAC, 2)
            out.append('\\let\\%s=\\%s ' % (a, b)); sc.st[-1][0][a] = sc.val(b)
        elif r < 0.70:
            code = rng.choice([11, 12])
            out.append('\\catcode`\\@=%d ' % code); sc.st[-1][1]['@'] = code
        elif r < 0.75:
            out.append('\\makeatletter ' if rng.random() < 0.5 else '\\makeatother ')
            sc.st[-1][1]['@'] = 11 if out[-1].startswith('\\makeatl') else 12
        elif r < 0.9:
            n = rng.choice(MAC)
            out.append('(\\%s)' % n); expected.append('(%s)' % sc.val(n))
        else:
            # probe of the category of @: \P@Q is one control word iff @ is a letter
            out.append('(=\\P@Q=)')
            expected.append('(=one=)' if (sc.at() if frozen is None else frozen) == 11 else '(=two@Q=)')


def gen_program(rng):
    sc = Scope()
    out, expected, counter = [], [], [0]
    pre = []
    for n in MAC:
        counter[0] += 1
        v = 'i%dz' % counter[0]
        pre.append('\\def\\%s{%s}' % (n, v)); sc.st[0][0][n] = v
    pre.append('\\makeatletter\\def\\P@Q{one}\\makeatother\\def\\P{two}')
    gen_items(rng, 0, sc, out, expected, counter)
    return ''.join(pre) + ''.join(out), expected


def run_program(src):
    import re
    from plasTeX.TeX import TeX
    t = TeX()
    t.input(r'\documentclass{article}\begin{document}%s\end{document}' % src)
    from util import time_limit
    with time_limit(10):
        d = t.parse()
    text = d.textContent
    got = re.findall(r'\(=?[a-zA-Z0-9@]+=?\)', text.replace(' ', ''))
    return got, d.context.depth, len(d.context.contexts)


def bounded_programs(budget, rng):
    t0 = time.time()
    n = 0
    while time.time() - t0 < budget or n < 40:
        src, exp = gen_program(rng)
        n += 1
        try:
            got, depth, ln = run_program(src)
        except Exception as e:
            return False, n, 'program raised %s: %s' % (type(e).__name__, src), dict(text=src)
        if got != exp:
            return False, n, 'probes %r, scoping rules give %r for %s' % (got, exp, src), dict(text=src, got=got, expected=exp)
        if depth != 1 or ln != 1:
            return False, n, 'context depth %d (stack %d) after the balanced program %s' % (depth, ln, src), dict(text=src)
    return True, n, ''


def is_global_prefix(w):
    return isinstance(w, dict) and '\\global' in str(w.get('text', ''))


def bounded_global_prefix(budget, rng):
    """\\global\\def / \\global\\let inside a group must survive the group (recorded finding when it does not)."""
    n = 0
    for src, exp in ((r'\def\A{1}{\global\def\A{3}}(\A)', ['(3)']), (r'\def\A{1}\def\B{2}{\global\let\A=\B}(\A)', ['(2)'])):
        n += 1
        got, depth, ln = run_program(src)
        if got != exp:
            return False, n, 'probes %r, TeX gives %r for %s' % (got, exp, src), dict(text=src)
    return True, n, ''


def bounded_newcommand_scope(budget, rng):
    """LaTeX's \\newcommand / \\renewcommand are local to the enclosing group."""
    n = 0
    for src, exp in ((r'\newcommand{\A}{1}{\renewcommand{\A}{2}(\A)}(\A)', ['(2)', '(1)']),
                     (r'{\newcommand{\A}{1}(\A)}\newcommand{\A}{3}(\A)', ['(1)', '(3)'])):
        n += 1
        got, depth, ln = run_program(src)
        if got != exp:
            return False, n, 'probes %r, LaTeX gives %r for %s' % (got, exp, src), dict(text=src)
    return True, n, ''


def bounded_let_char(budget, rng):
    """A control sequence \\let to a character token can be rebound afterwards (by \\def or by another \\let)."""
    n = 0
    for src, exp in ((r'\let\A=a\def\A{b}(\A)', ['(b)']),
                     (r'\let\A=a\let\A=b(\A)', ['(b)']),
                     (r'\let\A=a{\def\A{b}(\A)}(\A)', ['(b)', '(a)'])):
        n += 1
        got, depth, ln = run_program(src)
        if got != exp:
            return False, n, 'probes %r, TeX gives %r for %s' % (got, exp, src), dict(text=src, kind='let-char-rebind')
    return True, n, ''


BOUNDED = [('bounded/api-histories', 'real Context == frame-list model (lookups, membership, lets, category codes, depth, representation invariant) after every step',
            'all histories of length <= 3 over %d operations (push/pop with and without owner, local/global definitions, let, catcode); random histories of length 4-13' % len(OPS),
            bounded_histories),
           ('bounded/programs', 'generated balanced programs: every probe shows the innermost live definition / category, depth back to 1',
            'random programs: nesting depth <= 4 over {}, begingroup, center, quote, $ $, textbf, mbox, tabular cells; def, gdef, let, catcode, makeatletter', bounded_programs),
           ('bounded/global-prefix', '\\global\\def and \\global\\let survive the group', '2 programs', bounded_global_prefix),
           ('bounded/newcommand-scope', '\\newcommand / \\renewcommand inside a group are local to it', '2 programs', bounded_newcommand_scope),
           ('bounded/let-char-rebind', 'a control sequence \\let to a character can be rebound by a later \\def / \\let', '3 programs', bounded_let_char)]
CLASSES = {'let-char-rebind': lambda w: isinstance(w, dict) and w.get('kind') == 'let-char-rebind', 'global-prefix': is_global_prefix, 'newcommand-scope': lambda w: isinstance(w, dict) and 'newcommand' in str(w.get('text', ''))}


# ----------------------------------------------------------------------------------------------- Context.isMathMode (executable contract)
class _ModeObj:
    def __init__(self, mode):
        self.mathMode = mode


def check_mathmode(w):
    """frames: one entry per pushed frame: 'n' no object, 'u' object with mathMode None, 't' / 'f' object declaring math / text mode"""
    from plasTeX.Context import Context
    ctx = Context(load=False)
    for f in w['frames']:
        ctx.push()
        ctx.contexts[-1].obj = None if f == 'n' else _ModeObj({'u': None, 't': True, 'f': False}[f])
    want = False
    for f in reversed(w['frames']):
        if f in 'tf':
            want = (f == 't')
            break
    got = ctx.isMathMode
    if got is not want:
        return False, 'frames %r (innermost last): isMathMode = %r, the innermost declaring frame says %r' % (w['frames'], got, want)
    return True, ''


def small_mathmode():
    for n in range(0, 6):
        for fr in itertools.product('nutf', repeat=n):
            yield dict(frames=''.join(fr), text=''.join(fr))


try:
    CONTRACTS
except NameError:
    CONTRACTS = {}
CONTRACTS['Context.isMathMode'] = dict(check=check_mathmode, small=small_mathmode,
                                       gen=lambda rng: dict(frames=''.join(rng.choice('nutf') for _ in range(rng.randrange(0, 12)))))
