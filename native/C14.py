"""C14 native side: internal links of rendered documents land on existing targets."""
import os
import sys
import time
sys.path.insert(0, os.path.dirname(os.path.abspath(__file__)))
import render_util as R


def check_links(w):
    base = w.get('base', '')
    pages, raw = R.render(w['src'], split_level=w['level'], toc_non_files=w.get('tnf', False), base_url=base)
    for f, p in pages.items():
        dup = [i for i in set(p.ids) if p.ids.count(i) > 1]
        if dup:
            return False, 'identifier(s) %r occur twice in %s' % (dup, f)
        for h in p.hrefs:
            if base and h.startswith(base.rstrip('/') + '/'):
                h = h[len(base.rstrip('/')) + 1:]          # an absolute link into the document itself
            if ':' in h.split('#')[0] or h.startswith('//') or h.startswith('mailto'):
                continue
            target, _, frag = h.partition('#')
            tf = os.path.normpath(os.path.join(os.path.dirname(f), target)) if target else f
            if tf not in pages:
                return False, 'link %r in %s names a file that was not produced (files %r)' % (h, f, sorted(pages))
            if frag and frag not in pages[tf].ids:
                return False, 'link %r in %s: no element with id %r in %s' % (h, f, frag, tf)
    # with a table of contents every produced file is reachable from the start page
    start = 'index.html' if 'index.html' in pages else sorted(pages)[0]
    seen, todo = {start}, [start]
    while todo:
        f = todo.pop()
        for h in pages[f].hrefs:
            if base and h.startswith(base.rstrip('/') + '/'):
                h = h[len(base.rstrip('/')) + 1:]
            t = h.partition('#')[0]
            if t and t in pages and t not in seen:
                seen.add(t)
                todo.append(t)
    if set(pages) - seen:
        return False, 'files %r are not reachable from %s' % (sorted(set(pages) - seen), start)
    return True, ''


def gen_links(rng):
    src, words, labs, refs = R.gen_doc(rng, depth=2)
    extra, pre = '', ''
    if rng.random() < 0.5:
        # index entries (plain, with a page format, cross-references) spread over the sections, and the index itself
        pre += '\\usepackage{makeidx}\\makeindex'
        ents = ['apple', 'pear', 'fig!green', 'plum|textbf', 'kiwi|see{apple}', 'lime|seealso{pear}', 'apple', 'date|(', 'date|)']
        body, tail = src.rsplit('\\end{document}', 1)
        parts = body.split('\\section')
        for i in range(1, len(parts)):
            if rng.random() < 0.7:
                parts[i] = parts[i] + ' idx\\index{%s} ' % rng.choice(ents)
        src = '\\section'.join(parts) + '\\end{document}' + tail
        extra += ' tail\\index{%s} \\printindex ' % rng.choice(ents)
    if rng.random() < 0.4:
        src = src.replace('\\end{document}', ' cites \\cite{k1} and \\cite{k2} \\begin{thebibliography}{9}\\bibitem{k1} Ref one \\bibitem{k2} Ref two\\end{thebibliography}\\end{document}')
    src = src.replace('\\begin{document}', pre + '\\begin{document}').replace('\\end{document}', extra + '\\end{document}')
    return dict(src=src, level=rng.choice([-10, 0, 1, 2, 3]), tnf=rng.random() < 0.3, base=rng.choice(['', '', 'http://example.org/doc/', 'http://example.org/d']))


def bounded_links(budget, rng):
    t0, n = time.time(), 0
    while time.time() - t0 < min(budget, 90) * 0.7 or n < 3:
        n += 1
        w = gen_links(rng)
        try:
            ok, d = check_links(w)
        except Exception as e:
            ok, d = False, 'rendering raised %s: %s' % (type(e).__name__, e)
        if not ok:
            return False, n, d, w
    return True, n, ''


CONTRACTS = {}
GROUND = []
BOUNDED = [('bounded/render-links', 'every internal href names a produced file and an existing id; ids unique per file; all files reachable from the start page',
            'random sectioned documents with labels / references / footnotes, index entries (plain, page formats, see / seealso, ranges) with \\printindex, bibliography with citations x split level in {-10,0,1,2,3} x toc-non-files x base-url empty / set; budget-limited', bounded_links)]
CLASSES = {}
